"""Common machinery for the /verif checks.

Every check is a python module under /verif/checks/<id>.py exposing run(ctx).  The
context offers: building the library from /repo's working tree, compiling drivers,
running TLC (model checking / simulation / trace validation), reporting violations with a
replay file, known findings, and writing the evidence file.

Exit codes of ./check:  0 property held on everything explored (known findings are printed),
1 violation (a VIOLATION line was printed), 3 framework error (never a property verdict).
"""
import hashlib
import json
import os
import re
import shutil
import subprocess
import sys
import time

VERIF = os.path.dirname(os.path.dirname(os.path.abspath(__file__)))
REPO = os.environ.get("VERIF_REPO", "/repo")
SPEC = os.path.join(VERIF, "spec")
HARNESS = os.path.join(VERIF, "harness")
BUILD = os.environ.get("VERIF_BUILD_ROOT", os.path.join(VERIF, "build"))
WORK = os.path.join(BUILD, "work")
# evidence and replay files of trial runs against a scratch tree (seeded changes) go elsewhere
OUT = os.environ.get("VERIF_OUT", VERIF)
NCPU = os.cpu_count() or 4


class FrameworkError(Exception):
    pass


def _die_with_parent():
    """children are killed when the check process dies (e.g. an outer `timeout`), so no orphan JVM keeps a core busy"""
    try:
        import ctypes
        import signal
        ctypes.CDLL("libc.so.6").prctl(1, signal.SIGKILL)   # PR_SET_PDEATHSIG
    except Exception:
        pass


def sh(cmd, timeout=None, env=None, cwd=None, check=False, inp=None):
    e = dict(os.environ)
    if env:
        e.update(env)
    try:
        p = subprocess.run(cmd, shell=isinstance(cmd, str), stdout=subprocess.PIPE, stderr=subprocess.PIPE,
                           timeout=timeout, env=e, cwd=cwd, input=inp, preexec_fn=_die_with_parent)
    except subprocess.TimeoutExpired as ex:
        class R:
            pass
        r = R()
        r.returncode = 124
        r.stdout = (ex.stdout or b"")
        r.stderr = (ex.stderr or b"")
        r.timed_out = True
        r.stdout = r.stdout.decode("utf8", "replace")
        r.stderr = r.stderr.decode("utf8", "replace")
        return r
    p.stdout = p.stdout.decode("utf8", "replace")
    p.stderr = p.stderr.decode("utf8", "replace")
    p.timed_out = False
    if check and p.returncode != 0:
        raise FrameworkError("command failed (%d): %s\n%s\n%s" % (p.returncode, cmd, p.stdout[-4000:], p.stderr[-4000:]))
    return p


def build_lib(variant="hooks"):
    """Build the library variant from /repo's current working tree; returns the build dir."""
    p = sh([os.path.join(HARNESS, "build.sh"), variant], timeout=1200)
    if p.returncode != 0:
        raise FrameworkError("library build (%s) failed:\n%s" % (variant, p.stderr[-6000:]))
    return p.stdout.strip().splitlines()[-1]


def compile_driver(src, libdir, extra_flags="", name=None):
    """Compile a C++ driver from /verif/harness against a library build; cached by content."""
    srcp = src if os.path.isabs(src) else os.path.join(HARNESS, src)
    flags = open(os.path.join(libdir, "cxx.flags")).read().strip()
    inc = open(os.path.join(libdir, "inc.flags")).read().strip()
    h = hashlib.sha1()
    h.update(open(srcp, "rb").read())
    for hdr in sorted(os.listdir(HARNESS)):
        if hdr.endswith(".hpp") or hdr.endswith(".cpp"):      # drivers may include one another
            h.update(open(os.path.join(HARNESS, hdr), "rb").read())
    h.update((flags + extra_flags + libdir).encode())
    out = os.path.join(libdir, "drv-%s-%s" % (name or os.path.basename(srcp).replace(".cpp", ""), h.hexdigest()[:12]))
    if os.path.exists(out):
        return out
    cmd = "g++ %s %s -I%s %s -o %s.tmp %s %s/libtsg.a -lpthread" % (flags, inc, HARNESS, extra_flags, out, srcp, libdir)
    if "-fopenmp" in flags:
        cmd += " -fopenmp"
    p = sh(cmd, timeout=900)
    if p.returncode != 0:
        raise FrameworkError("driver build failed: %s\n%s" % (cmd, p.stderr[-6000:]))
    os.rename(out + ".tmp", out)
    return out


def workdir(name):
    d = os.path.join(WORK, name)
    shutil.rmtree(d, ignore_errors=True)
    os.makedirs(d)
    return d


# ----------------------------------------------------------------------------- TLC

TLC_JAVA = ["java", "-XX:+UseParallelGC", "-cp",
            "/opt/veriftools/tla/tla2tools.jar:/opt/veriftools/tla/CommunityModules-deps.jar"]


import threading
_md_lock = threading.Lock()
_md_counter = 0


class TLCResult:
    def __init__(self):
        self.rc = None
        self.out = ""
        self.generated = 0
        self.distinct = 0
        self.depth = 0
        self.violated = None  # name of violated invariant / property, "deadlock", or None
        self.error_trace = ""
        self.timed_out = False
        self.coverage = {}
        self.wall = 0.0

    def ok(self):
        return self.rc == 0 and not self.timed_out


def run_tlc(module, cfg, workers=None, timeout=900, env=None, simulate=None, depth=None, xmx="8g",
            deadlock=True, coverage=False, dfs=False, cwd=SPEC, extra=None, metadir=None, seed=None):
    """Run TLC on spec/<module>.tla with config cfg (path relative to cwd or absolute)."""
    t0 = time.time()
    global _md_counter
    with _md_lock:
        _md_counter += 1
        mdn = _md_counter
    md = metadir or os.path.join(WORK, "tlc-meta", "%s-%d-%d-%d" % (os.path.basename(cfg), os.getpid(), int(t0 * 1000) % 100000000, mdn))
    shutil.rmtree(md, ignore_errors=True)
    os.makedirs(md, exist_ok=True)
    cmd = list(TLC_JAVA)
    cmd.insert(1, "-Xmx" + xmx)
    if dfs:
        cmd.insert(1, "-Dtlc2.tool.queue.IStateQueue=StateDeque")
    cmd += ["tlc2.TLC", "-noGenerateSpecTE", "-metadir", md, "-config", cfg]
    cmd += ["-workers", str(workers or "auto")]
    if not deadlock:
        cmd += ["-deadlock"]
    if coverage:
        cmd += ["-coverage", "1"]
    if simulate:
        cmd += ["-simulate", simulate]
        if depth:
            cmd += ["-depth", str(depth)]
    if seed is not None:
        cmd += ["-seed", str(seed)]
    if extra:
        cmd += extra
    cmd += [module]
    env = dict(env or {})
    if str(workers) == "1" and "JAVA_TOOL_OPTIONS" not in env and not dfs:
        env["JAVA_TOOL_OPTIONS"] = "-XX:TieredStopAtLevel=1"      # many short single-worker JVMs: skip the C2 compiler
    p = sh(cmd, timeout=timeout, env=env, cwd=cwd)
    r = TLCResult()
    r.rc = p.returncode
    r.out = p.stdout + p.stderr
    r.timed_out = p.timed_out
    r.wall = time.time() - t0
    shutil.rmtree(md, ignore_errors=True)
    m = None
    for m in re.finditer(r"(\d+) states generated, (\d+) distinct states found", r.out):
        pass
    if m:
        r.generated, r.distinct = int(m.group(1)), int(m.group(2))
    ms = re.search(r"The number of states generated: (\d+)", r.out)        # simulation mode
    if ms and not m:
        r.generated = int(ms.group(1))
        mt = re.search(r"(\d+) traces generated", r.out)
        r.distinct = int(mt.group(1)) if mt else 0                          # reported as the number of random behaviours
    m = re.search(r"The depth of the complete state graph search is (\d+)", r.out)
    if m:
        r.depth = int(m.group(1))
    m = re.search(r"Invariant (\S+) is violated", r.out)
    if m:
        r.violated = m.group(1)
    elif "Deadlock reached" in r.out:
        r.violated = "deadlock"
    elif re.search(r"Temporal properties were violated", r.out):
        r.violated = "temporal"
    elif re.search(r"Action property (\S+) is violated", r.out):
        r.violated = re.search(r"Action property (\S+) is violated", r.out).group(1)
    elif "The postcondition" in r.out and "violated" in r.out or "Evaluating assumption" in r.out and "false" in r.out:
        r.violated = "postcondition"
    i = r.out.find("The behavior up to this point is")
    if i >= 0:
        r.error_trace = r.out[i:i + 20000]
    if coverage:
        for m in re.finditer(r"<(\w+) line \d+, col \d+ to line \d+, col \d+ of module (\w+)>: (\d+):(\d+)", r.out):
            r.coverage[m.group(1)] = (int(m.group(3)), int(m.group(4)))
    return r


def tlc_must_pass(r, what):
    """A design-level TLC run that fails is a framework error unless it is a property violation."""
    if r.timed_out:
        raise FrameworkError("TLC timed out: " + what)
    if r.rc != 0 and r.violated is None:
        raise FrameworkError("TLC failed (%s) rc=%s\n%s" % (what, r.rc, r.out[-5000:]))


# ----------------------------------------------------------------------------- findings / evidence

def load_known():
    """known_findings.json plus known_findings.d/*.json (same format), all committed, read-only at run time"""
    out = []
    p = os.path.join(VERIF, "known_findings.json")
    files = [p] if os.path.exists(p) else []
    d = os.path.join(VERIF, "known_findings.d")
    if os.path.isdir(d):
        files += [os.path.join(d, f) for f in sorted(os.listdir(d)) if f.endswith(".json")]
    for f in files:
        out += json.load(open(f)).get("findings", [])
    return out


class Ctx:
    def __init__(self, prop, tier, seed, level="model_checking"):
        self.prop = prop
        self.tier = tier
        self.seed = seed
        self.level = level
        self.t0 = time.time()
        self.states = 0
        self.transitions = 0
        self.traces = 0
        self.samples = []
        self.assumptions = []
        self.extra = {}
        self.violations = []     # (signature, description, replay_path)
        self.known_hits = {}
        self.known = [k for k in load_known() if k.get("property") == prop and k.get("status") == "known"]
        self.replay_dir = os.path.join(OUT, "replays")
        os.makedirs(self.replay_dir, exist_ok=True)
        for f in os.listdir(self.replay_dir):          # replay files of earlier runs of this check and tier are stale
            if f.startswith("%s-%s-" % (prop, tier)):
                os.remove(os.path.join(self.replay_dir, f))
        self.quick = tier == "quick"

    # -- accounting
    def add_tlc(self, r, label=None):
        self.states += r.distinct
        self.transitions += r.generated
        if label:
            self.extra.setdefault("tlc_runs", []).append(
                {"run": label, "distinct": r.distinct, "generated": r.generated, "depth": r.depth,
                 "wall_s": round(r.wall, 1)})

    def sample(self, s):
        if len(self.samples) < 6:
            self.samples.append(s)

    def assume(self, a):
        if a not in self.assumptions:
            self.assumptions.append(a)

    # -- verdicts
    def report(self, signature, description, replay):
        """Report a violation; `signature` is matched against the known-findings file."""
        for k in self.known:
            if re.fullmatch(k["signature"], signature):
                if k["signature"] not in self.known_hits:
                    self.known_hits[k["signature"]] = k
                    print("KNOWN-FINDING: property=%s %s" % (self.prop, k["what"]))
                    sys.stdout.flush()
                return False
        if any(v[0] == signature for v in self.violations):
            return True
        n = len(self.violations)
        path = os.path.join(self.replay_dir, "%s-%s-%d.json" % (self.prop, self.tier, n))
        body = {"property": self.prop, "signature": signature, "description": description, "replay": replay}
        with open(path, "w") as f:
            json.dump(body, f, indent=1, default=str)
        self.violations.append((signature, description, path))
        print("VIOLATION property=%s replay=%s" % (self.prop, path))
        print("  signature: %s\n  %s" % (signature, description[:2000]))
        sys.stdout.flush()
        return True

    def finish(self):
        cov = {"states": max(self.states, 0), "transitions": max(self.transitions, 0),
               "traces_validated_against_impl": self.traces,
               "samples": self.samples if self.samples else ["(none)"],
               "exhaustive": False}
        cov.update(self.extra)
        ev = {"property_id": self.prop, "tier": self.tier, "seed": self.seed, "level": self.level,
              "coverage": cov, "assumptions": self.assumptions, "wall_s": round(time.time() - self.t0, 2),
              "violations": len(self.violations),
              "known_findings_hit": [k["what"] for k in self.known_hits.values()]}
        os.makedirs(os.path.join(OUT, "evidence"), exist_ok=True)
        with open(os.path.join(OUT, "evidence", self.prop + ".json"), "w") as f:
            json.dump(ev, f, indent=1, default=str)
        return 1 if self.violations else 0


def write_ndjson(path, rows):
    with open(path, "w") as f:
        for r in rows:
            f.write(json.dumps(r, separators=(",", ":")) + "\n")


def read_ndjson(path):
    rows = []
    with open(path) as f:
        for line in f:
            line = line.strip()
            if line:
                rows.append(json.loads(line))
    return rows


def read_ndjson_lenient(path):
    """like read_ndjson but tolerates a truncated last line (crashed writer)"""
    rows = []
    if not os.path.exists(path):
        return rows
    with open(path) as f:
        for line in f:
            line = line.strip()
            if line:
                try:
                    rows.append(json.loads(line))
                except ValueError:
                    break
    return rows


def parallel_map(fn, items, nproc=None):
    """Run fn over items in a thread pool (fn mostly waits on subprocesses)."""
    from concurrent.futures import ThreadPoolExecutor
    with ThreadPoolExecutor(max_workers=nproc or NCPU) as ex:
        return list(ex.map(fn, items))
