------------------------------ MODULE SwarmMC ------------------------------
(* Exhaustive exploration of Swarm.tla for small constants: every random      *)
(* stream over RNG (numerators over 2: 0, 1/2, 1), domains that contain the   *)
(* whole initial swarm / some particles / no particle (now or ever) / have a  *)
(* hole / are empty, several coefficient triples, every splitting of the      *)
(* iteration budget into calls and every interleaving of the state edits.     *)
(* The history variable h is hidden from the VIEW; the ACTION_CONSTRAINT of   *)
(* the Gen configuration prints one environment script per abstract edge      *)
(* that completes a call.                                                     *)
EXTENDS Swarm, TLC, Json

CONSTANTS NP,        \* particles (1..3), one dimension
          MAXIT,     \* bound on the iterations over all calls (<= 3: the lattice below is 4^3 fine)
          MAXCALLS,  \* bound on the number of calls
          MAXEDITS,  \* bound on the number of state edits
          RNG,       \* numerators over 2
          DOMS,      \* ids of the domains to explore
          COEFS,     \* ids of the coefficient triples to explore
          EDITS,     \* names of the edits to explore
          EMIT       \* print environment scripts (Gen configuration)

VARIABLES h, iters, calls, edits, lastdraw

SCALE == 256
\* objective by cell -4..4: not monotone, with a tie between neighbouring cells
ValTab == <<6, 4, 2, 3, 1, 1, 0, 5, 7>>
Cell(c) == [c |-> <<c>>, v |-> ValTab[c + 5]]
DomCells(id) ==
    CASE id = 1 -> {Cell(c) : c \in (0 - 4)..4}                       \* contains the whole swarm
      [] id = 2 -> {Cell(c) : c \in (0 - 1)..4}                       \* particle 1 starts outside
      [] id = 3 -> {Cell(c) : c \in {2, 3}}                           \* nobody inside at first, particle 2 drifts in
      [] id = 4 -> {}                                                 \* empty domain
      [] id = 5 -> {Cell(c) : c \in {0 - 4, 0 - 3, 0 - 2, 2, 3, 4}}   \* hole in the middle, particle 2 starts in the hole
      [] id = 6 -> {Cell(1)}                                          \* a single cell
Coef(id) ==
    CASE id = 1 -> [wn |-> 1, c1n |-> 2, c2n |-> 2]
      [] id = 2 -> [wn |-> 2, c1n |-> 1, c2n |-> 2]
      [] id = 3 -> [wn |-> 0, c1n |-> 4, c2n |-> 4]
      [] id = 4 -> [wn |-> 1, c1n |-> 2, c2n |-> 0]

P0all == <<<<0 - 512>>, <<384>>, <<0>>>>
V0all == <<<<256>>, <<0 - 128>>, <<64>>>>
PPall == <<<<256>>, <<0 - 256>>, <<512>>>>          \* manual positions
PVall == <<<<0 - 256>>, <<256>>, <<0>>>>            \* manual velocities
BPall == <<<<0 - 256>>, <<0>>, <<256>>>>            \* manual bests; the swarm slot below is NOT the best of them
First(s) == [i \in 1..NP |-> s[i]]
BPman == [i \in 1..NP + 1 |-> IF i <= NP THEN BPall[i] ELSE <<768>>]

Env(dm, cf) == [n |-> NP, d |-> 1, scale |-> SCALE, cells |-> DomCells(dm), dom |-> dm, coef |-> cf]

MCInit ==
    /\ \E dm \in DOMS, cf \in COEFS :
          /\ InitWith(Env(dm, cf), First(P0all), First(V0all), TRUE)
          /\ h = <<[a |-> "init", env |-> Env(dm, cf), pos |-> First(P0all), vel |-> First(V0all), co |-> Coef(cf)]>>
    /\ iters = 0 /\ calls = 0 /\ edits = 0 /\ lastdraw = <<>>

Edit(name, A, arg) ==
    /\ name \in EDITS /\ edits < MAXEDITS /\ calls < MAXCALLS
    /\ A
    /\ h' = Append(h, [a |-> "edit", k |-> name, x |-> arg]) /\ edits' = edits + 1
    /\ UNCHANGED <<iters, calls, lastdraw>>

MCNext ==
    \/ \E k \in 0..MAXIT :
          /\ iters + k <= MAXIT /\ calls < MAXCALLS
          /\ StartCall(k, Coef(env.coef))
          /\ h' = Append(h, [a |-> "call", k |-> k]) /\ iters' = iters + k /\ calls' = calls + 1
          /\ UNCHANGED <<edits, lastdraw>>
    \/ (DomTest \/ EvalPos \/ EvalBest \/ Fold) /\ UNCHANGED <<h, iters, calls, edits, lastdraw>>
    \/ Upd /\ UNCHANGED <<h, iters, calls, edits>> /\ lastdraw' = <<>>
    \/ \E r \in RNG : Draw(r) /\ h' = Append(h, [a |-> "r", r |-> r]) /\ lastdraw' = Append(lastdraw, r)
                      /\ UNCHANGED <<iters, calls, edits>>
    \/ Move /\ UNCHANGED <<h, iters, calls, edits, lastdraw>>
    \/ Edit("clearCache", ClearCache, <<>>)
    \/ Edit("clearBest", ClearBest, <<>>)
    \/ Edit("setPos", SetPos(First(PPall)), First(PPall))
    \/ Edit("setVel", SetVel(First(PVall)), First(PVall))
    \/ Edit("setBest", SetBest(BPman), BPman)

mcvars == <<vars, h, iters, calls, edits, lastdraw>>
MCSpec == MCInit /\ [][MCNext]_mcvars

AbstractView == <<vars, iters, calls, edits>>
GenView == <<vars, iters, calls, edits, lastdraw>>
Emit == (EMIT /\ pc = "upd" /\ itleft = 0) => PrintT(<<"SCRIPT", ToJson(h')>>)

\* the velocity rule stays on the lattice (the run can always be completed)
LatticeOK == (pc = "move") => OnLattice

MCNonIncreasing == [][NonIncreasingStep]_mcvars
MCBoundaryTransparent == [][BoundaryStep]_mcvars
=============================================================================
