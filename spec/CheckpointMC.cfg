SPECIFICATION MCSpec
CONSTANTS
  SCHEME = "repaired"
  READER = "strict"
  MAGIC = 1
  TAILU = 1
  BUDGET = 3
  BATCH = 1
  NCHUNK = 3
  UNITS = 2
  MAXCRASH = 2
  EMIT = FALSE
VIEW AbstractView
INVARIANTS RecoveredIsCheckpoint NoPartialParse NoThrow NothingCheckpointedIsLost RecomputeBound FinishOK NoStuck
CHECK_DEADLOCK FALSE
