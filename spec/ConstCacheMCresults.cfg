SPECIFICATION MCSpec
CONSTANTS
  Threads = {1,2,3}
  Cells = {0}
  DISC = "pinned"
  NOPS = 2
INVARIANTS TypeOK ResultsSequential
CHECK_DEADLOCK TRUE
