SPECIFICATION MCSpec
CONSTANTS
  FAM = "wavelet"
  RULE = "wavelet"
  ORDER = 1
  D = 1
  OUTS = 1
  MAXDEPTH = 1
  MAXLEN = 4
  MAXPTS = 12
  EMIT = FALSE
VIEW AbstractView
INVARIANTS Disjoint ValuesAttached NeededWithinLimits OrderIndependent NothingDropped CandidatesNotLoaded
PROPERTIES LoadedMonotone UpdateKeepsLoaded FrameRefine ClearOnlyDropsNeeded LoadMakesNeededLoaded LimitsPersist
CHECK_DEADLOCK FALSE
