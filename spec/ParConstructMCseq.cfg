\* sequential (non-threaded) loop of constructSurrogate
SPECIFICATION FairSpec
CONSTANTS
  HUGE = 1000000
  NW = 2
  NP = 5
  BUDGET = 9
  BATCH = 1
  PAR = FALSE
  GUARD = TRUE
  INIT0 = 0
  EAGER = 1000
  RNUM = 1
  RDEN = 5
  REORDER = TRUE
  MAXCHG = 2
  SPURIOUS = TRUE
  INITFULL = FALSE
INVARIANTS SeqNextFindsJob AtMostOnce BudgetOK NoSameThreadConcurrent ValueAtItsPoint NoRace FlagCoherent ManagerCoherent LaunchedCoherent FinalOK
PROPERTY Termination
