SPECIFICATION MCSpec
CONSTANTS
  NP = 2
  MAXIT = 3
  MAXCALLS = 3
  MAXEDITS = 2
  RNG = {0,1,2}
  DOMS = {1,2,3,4,5,6}
  COEFS = {1,2}
  EDITS = {"clearCache","clearBest","setPos","setVel","setBest"}
  EMIT = FALSE
VIEW AbstractView
INVARIANTS TypeOK OnlyInside BestsVisited SwarmBestIsMin PersonalBestIsMin Ordered FlagsAfterCall LatticeOK
PROPERTIES MCNonIncreasing MCBoundaryTransparent
CHECK_DEADLOCK FALSE
