SPECIFICATION MCSpec
CONSTANTS
  FAM = "localp"
  RULE = "localp-boundary"
  ORDER = 1
  D = 1
  OUTS = 1
  MAXDEPTH = 2
  MAXLEN = 5
  MAXPTS = 12
  COEF = TRUE
  EMIT = FALSE
VIEW AbstractView
INVARIANTS Disjoint ValuesAttached NeededWithinLimits OrderIndependent NothingDropped CandidatesNotLoaded
PROPERTIES LoadedMonotone UpdateKeepsLoaded FrameRefine ClearOnlyDropsNeeded LoadMakesNeededLoaded LimitsPersist RemoveOnlyDrops SetCoefKeepsPoints
CHECK_DEADLOCK FALSE
