SPECIFICATION MCSpec
CONSTANTS
  Threads = {1,2,3}
  Cells = {0}
  DISC = "dcl"
  NOPS = 2
INVARIANTS TypeOK NoConflict ResultsSequential ResultCount LockCoherent
CHECK_DEADLOCK TRUE
