------------------------------ MODULE GridTrace ------------------------------
(***************************************************************************)
(* Trace validation of executions recorded from real TasmanianSparseGrid   *)
(* objects (harness/grid_replay.cpp).  Every event carries the call, its   *)
(* arguments, the observation inputs, the result class, the projected      *)
(* state of both object slots after the call and the observer bits.  The   *)
(* specification (Grid.tla) computes the state the call must produce; the  *)
(* event is accepted iff result class, projected state and every required  *)
(* observer bit agree, and the other slot did not change (independence).   *)
(* The invariants of C07, C08, C09 are evaluated on every state.           *)
(***************************************************************************)
EXTENDS Grid, Json, IOUtils

TraceLog == ndJsonDeserialize(IOEnv.TRACE)

VARIABLES l, gs, ghost
\* gs: <<slot 1, slot 2>>;  ghost: [cands |-> last candidate set per slot]
tvars == <<l, gs, ghost>>

ASSUME TLCSet(42, 0)
Ev == TraceLog[l]
IsEvent(e) == l <= Len(TraceLog) /\ Ev.e = e /\ l' = l + 1

Has(r, f) == f \in DOMAIN r
\* a failed requirement is named on stdout so that a rejection can be explained
Req(name, cond) == IF cond THEN TRUE ELSE PrintT(<<"FAIL", l, name>>) /\ FALSE

-----------------------------------------------------------------------------
(* projection equality *)
Zeros(n) == [k \in 1..n |-> 0]
TokVec(g, p, e) == [k \in 1..g.outs |-> Tok(p, k - 1 + g.obase, e, ghost.salt)]

ValsMatch(g, st) ==
    IF g.outs = 0 \/ g.pts = {} THEN st.vals = <<>>
    ELSE /\ Len(st.vals) = Len(st.pts)
         /\ \A i \in 1..Len(st.pts) :
               LET p == st.pts[i]
                   e == g.ep[p]
               IN CASE e >= 0 -> st.vals[i] = TokVec(g, p, e)
                    [] e = -1 -> st.vals[i] = Zeros(g.outs)
                    [] OTHER -> TRUE

Matches(g, st) ==
    IF IsEmpty(g) THEN Req("empty", st.fam = "empty") /\ Req("empty-carries-nothing", ~Has(st, "residue") \/ ~st.residue)
    ELSE /\ Req("meta", st.fam = g.fam /\ st.dims = g.dims /\ st.outs = g.outs)
         /\ Req("order", g.fam \in {"localp", "wavelet"} => st.order = g.order)
         /\ Req("pts-sorted", IsSortedSeq(st.pts))
         /\ Req(<<"pts", "spec-only", g.pts \ Range(st.pts), "code-only", Range(st.pts) \ g.pts>>, Range(st.pts) = g.pts)                \* duplicate free, ordered, exactly the loaded points
         /\ Req("need-sorted", IsSortedSeq(st.need))
         /\ Req(<<"need", "spec-only", g.need \ Range(st.need), "code-only", Range(st.need) \ g.need, "tens", g.tens, "upd", g.upd>>, Range(st.need) = g.need)
         /\ Req("counts", st.nn = Cardinality(g.need)
                         /\ st.nl = (IF g.outs > 0 THEN Cardinality(g.pts) ELSE 0)
                         /\ st.np = (IF g.pts # {} THEN Cardinality(g.pts) ELSE Cardinality(g.need)))
         /\ Req("vals", ValsMatch(g, st))
         /\ Req("lim", st.lim = g.lim)
         /\ Req("con", st.con = g.con)
         /\ Req("transform", st.ta = g.ta /\ st.tb = g.tb /\ st.conf = g.conf)

\* observer bits: every bit that is present must be TRUE (an observer that does not apply logs an empty record)
AllTrue(r) == \A f \in DOMAIN r : r[f] \in BOOLEAN => r[f]

\* C02 / C03: the polynomial spaces the grid declares are the ones the specification derives from its tensors, and the
\* observer found every monomial (mode, affine function) of them integrated / reproduced exactly
TensorsOf(g) == IF g.fam = "sequence" THEN (IF g.pts # {} THEN g.pts ELSE g.need) ELSE g.tens
QBits == {"q_monomials", "q_modes", "q_wsum"}
IBits == {"i_monomials", "i_modes", "i_affine", "i_wsum1", "i_evaluate"}
ExactOK(g, ex) ==
    /\ Req(<<"obs-exact-qspace", g.rule>>, Has(ex, "qspace") => Range(ex.qspace) = PolySpace(g.fam, g.rule, TensorsOf(g), g.dims, FALSE))
    /\ Req(<<"obs-exact-ispace", g.rule>>, Has(ex, "ispace") => Range(ex.ispace) = PolySpace(g.fam, g.rule, TensorsOf(g), g.dims, TRUE))
    /\ Req(<<"obs-exact-q", {f \in DOMAIN ex \cap QBits : ex[f] = FALSE}, g.rule>>, \A f \in DOMAIN ex \cap QBits : ex[f])
    /\ Req(<<"obs-exact-i", {f \in DOMAIN ex \cap IBits : ex[f] = FALSE}, g.rule>>, \A f \in DOMAIN ex \cap IBits : ex[f])
    /\ Req("obs-exact-exception", ~Has(ex, "exception"))

\* C01 applies to local polynomial grids only when every loaded point has all of its parents loaded
\* and to global grids only for nested rules (the interpolant of a non-nested sparse grid is not nodal)
NodalRequired(g) == /\ NestedFam(g) /\ ~g.rem
                    /\ (g.fam # "localp" \/ \A p \in g.pts : AllParents(g, p) \subseteq g.pts)
\* after points were removed by coefficient size the kept coefficients are no longer the hierarchical transform of the kept
\* values (documented: the hierarchy is not preserved): routes that go through the values are not comparable
ValueRoutes == {"weights_values", "diffweights_values", "integrate_qweights"}
\* every observer requirement is evaluated (a set of truth values, not a conjunction that stops at the first failure), so that
\* each failed one is named on the output and each property's check sees its own
ObsOKFor(g, obs) ==
    \A ok \in {
      Req(<<"obs-nodal", IF ~IsEmpty(g) /\ g.orph THEN "after-a-child-was-promoted-before-a-parent" ELSE "every-promotion-had-its-parents">>,
           (Has(obs, "nodal") /\ Has(obs.nodal, "evaluate") /\ ~IsEmpty(g) /\ NodalRequired(g))
            => (obs.nodal.evaluate /\ obs.nodal.batch /\ obs.nodal.fast)),
      Req(<<"obs-routes", IF Has(obs, "routes") THEN {f \in DOMAIN obs.routes : obs.routes[f] = FALSE} ELSE {},
             IF ~IsEmpty(g) /\ g.orph THEN "after-a-child-was-promoted-before-a-parent" ELSE "every-promotion-had-its-parents">>,
           Has(obs, "routes") => IF ~IsEmpty(g) /\ g.rem THEN AllTrue([f \in (DOMAIN obs.routes) \ ValueRoutes |-> obs.routes[f]]) ELSE AllTrue(obs.routes)),
      Req(<<"obs-rt", IF Has(obs, "rt") THEN {f \in DOMAIN obs.rt : obs.rt[f] = FALSE} ELSE {}>>, Has(obs, "rt") => AllTrue(obs.rt)),
      (Has(obs, "exact") /\ ~IsEmpty(g)) => ExactOK(g, obs.exact),
      Req(<<"obs-grad", IF Has(obs, "grad") THEN {f \in DOMAIN obs.grad : obs.grad[f] = FALSE} ELSE {}>>, Has(obs, "grad") => AllTrue(obs.grad)),
      Req(<<"obs-cli", IF Has(obs, "cli") THEN {f \in DOMAIN obs.cli : obs.cli[f] = FALSE} ELSE {}>>, Has(obs, "cli") => AllTrue(obs.cli)),
      Req(<<"obs-twin", IF Has(obs, "twin") THEN {f \in DOMAIN obs.twin : obs.twin[f] = FALSE} ELSE {}>>, Has(obs, "twin") => AllTrue(obs.twin)) } : ok

\* C08: once limits are stored, no needed point lies, in a limited dimension, on a level above the limit.
\* Points loaded before the limits were (re)set may already exceed them; their descendants in OTHER directions
\* inherit that coordinate, so the bound per dimension is max(limit, highest level already loaded).
MaxLoadedLevel(g, j) == IF g.pts = {} THEN 0 ELSE LET L == {PLevel(g, p, j) : p \in g.pts} IN CHOOSE m \in L : \A x \in L : x <= m
NeedWithin(g, p) == g.lim = <<>> \/ \A j \in 1..g.dims : g.lim[j] = -1 \/ PLevel(g, p, j) <= g.lim[j] \/ PLevel(g, p, j) <= MaxLoadedLevel(g, j)
-----------------------------------------------------------------------------
G(o) == gs[o]
Other(o) == 3 - o
StOf(o) == IF o = 1 THEN Ev.st ELSE Ev.st2

\* TLC keeps set expressions (differences, unions, filters) lazy; stored over many steps they nest and membership
\* tests become exponential.  Every set-valued field is enumerated once before the state is stored.
Norm(S) == {x : x \in S}
NormF(f) == LET D == Norm(DOMAIN f) IN IF D = {} THEN << >> ELSE [x \in D |-> f[x]]
NormG(g) == IF IsEmpty(g) THEN g
            ELSE [g EXCEPT !.pts = Norm(g.pts), !.need = Norm(g.need), !.tens = Norm(g.tens), !.upd = Norm(g.upd),
                           !.init = Norm(g.init), !.parkT = Norm(g.parkT), !.initT = Norm(g.initT),
                           !.ep = NormF(g.ep), !.park = NormF(g.park)]

\* install the new state of slot o, require the log to agree on both slots and on the result class
Commit(o, res) ==
    /\ Req(<<"result", res.r>>, Ev.r = res.r)
    /\ Matches(res.g, StOf(o))
    /\ Req("other-slot", Matches(G(Other(o)), StOf(Other(o))))            \* C11: the other object is untouched
    /\ ObsOKFor(res.g, Ev.obs)
    /\ gs' = [gs EXCEPT ![o] = NormG(res.g)]

Unch == UNCHANGED ghost

TInit == l = 1 /\ gs = <<Empty, Empty>> /\ ghost = [cand |-> {}, salt |-> 0]

TReset == IsEvent("Reset") /\ gs' = <<Empty, Empty>> /\ ghost' = [cand |-> {}, salt |-> IF Has(Ev, "salt") THEN Ev.salt ELSE 0]
\* the driver reached the end of the scenario (a crash inside the library leaves the execution without it)
TEnd == IsEvent("End") /\ UNCHANGED <<gs, ghost>>

MakeArgs == [fam |-> Ev.a.fam, dims |-> Ev.a.dims, outs |-> Ev.a.outs, depth |-> Ev.a.depth,
             type |-> IF Has(Ev.a, "type") THEN Ev.a.type ELSE "level",
             rule |-> Ev.a.rule, aw |-> IF Has(Ev.a, "aw") THEN Ev.a.aw ELSE <<>>, ll |-> Ev.a.ll,
             order |-> IF Has(Ev.a, "order") THEN Ev.a.order ELSE -1,
             alpha |-> IF Has(Ev.a, "alpha") THEN Ev.a.alpha ELSE 0, beta |-> IF Has(Ev.a, "beta") THEN Ev.a.beta ELSE 0]

\* Global grids with non-nested rules number their points by first appearance of a node: the point sets are an
\* observation, the tensors (hence the declared polynomial spaces) are computed
TMake == /\ IsEvent("make")
         /\ IF Ev.a.fam = "global" /\ Ev.a.rule \notin NestedGlobalRules /\ Ev.r = "ok"
            THEN LET a == MakeArgs
                     T == SelectTensors(a.fam, a.rule, a.dims, a.depth, a.type, a.aw, a.ll)
                     P == Range(StOf(Ev.o).need) \cup Range(StOf(Ev.o).pts)
                     f == Fresh(a.fam, a.rule, a.order, a.dims, a.outs, P, T, a.ll, a.alpha, a.beta)
                 IN Commit(Ev.o, Ok(IF Has(Ev.a, "ta") THEN [f EXCEPT !.ta = Ev.a.ta, !.tb = Ev.a.tb] ELSE f))
            ELSE LET res == Make(G(Ev.o), MakeArgs)
                 IN \* the command-line front end passes the domain transform together with the make command
                    IF Has(Ev.a, "ta") /\ res.r = "ok" THEN Commit(Ev.o, Ok([res.g EXCEPT !.ta = Ev.a.ta, !.tb = Ev.a.tb]))
                    ELSE Commit(Ev.o, res)
         /\ Unch
TLoad == /\ IsEvent("load")
         /\ IF Ev.r = "skipped" THEN Commit(Ev.o, [g |-> G(Ev.o), r |-> "skipped"]) /\ G(Ev.o).pts = {} /\ G(Ev.o).need = {}
            ELSE Commit(Ev.o, Load(G(Ev.o), Ev.a.epoch))
         /\ Unch
TMerge == IsEvent("merge") /\ Commit(Ev.o, MergeRef(G(Ev.o))) /\ Unch
TClear == IsEvent("clear") /\ Commit(Ev.o, ClearRef(G(Ev.o))) /\ Unch
TBegin == IsEvent("begin") /\ Commit(Ev.o, Begin(G(Ev.o))) /\ Unch
TFinish == IsEvent("finish") /\ Commit(Ev.o, Finish(G(Ev.o))) /\ Unch
TLoadC == /\ IsEvent("loadc")
          /\ IF Ev.r = "skipped" THEN Ev.a.p = <<>> /\ Commit(Ev.o, [g |-> G(Ev.o), r |-> "skipped"])
             ELSE /\ Req("loadc-new-points", ~IsEmpty(G(Ev.o)) => Range(Ev.a.p) \cap G(Ev.o).pts = {})
                  /\ LET g == G(Ev.o)
                     IN IF ~IsEmpty(g) /\ g.con /\ IsLocal(g)
                        THEN LET newp == Range(Ev.a.p)
                                 D == [p \in (DOMAIN g.park) \cup newp |-> IF p \in newp THEN Ev.a.epoch ELSE g.park[p]]
                                 C == DOMAIN D
                                 lo == StrongConnected(g, g.pts, C)
                                 hi == WeakConnected(g, g.pts, C)
                                 N == Range(StOf(Ev.o).pts) \ g.pts              \* what the library promoted
                             IN /\ Req(<<"loadc-promotion", "must", lo \ N, "must-not", N \ hi>>, lo \subseteq N /\ N \subseteq hi)
                                /\ Commit(Ev.o, Ok([g EXCEPT !.pts = g.pts \cup N, !.ep = [p \in g.pts \cup N |-> IF p \in N THEN D[p] ELSE g.ep[p]],
                                                            !.park = Restrict(D, C \ N), !.init = g.init \ C,
                                                            !.orph = g.orph \/ \E p \in N : ~(AllParents(g, p) \subseteq g.pts \cup N)]))
                        ELSE Commit(Ev.o, LoadC(g, Ev.a))
          /\ Unch
\* coefficients set directly: the coefficients read back are the ones supplied
TSetCoef == /\ IsEvent("setcoef")
            /\ IF Ev.r = "skipped" THEN Commit(Ev.o, [g |-> G(Ev.o), r |-> "skipped"])
               ELSE /\ Req("coef-roundtrip", Has(Ev, "coef_roundtrip") /\ Ev.coef_roundtrip)
                    /\ Commit(Ev.o, SetCoef(G(Ev.o), Ev.a.epoch))
            /\ Unch
\* points removed by coefficient size: by tolerance the kept set is computed; by count it is an observation that
\* must be a set of the requested size holding the largest coefficients (ties are the library's choice)
RemoveArgs == [tolq |-> Ev.a.tolq, ratios |-> Ev.a.ratios, before |-> IF Has(Ev, "before") THEN Ev.before ELSE <<>>]
TRemove == /\ IsEvent("remove")
           /\ IF Ev.r = "skipped" THEN Commit(Ev.o, [g |-> G(Ev.o), r |-> "skipped"])
              ELSE /\ Req("remove-before", IsEmpty(G(Ev.o)) \/ G(Ev.o).fam # "localp" \/ Range(RemoveArgs.before) = G(Ev.o).pts)
                   /\ Commit(Ev.o, Remove(G(Ev.o), RemoveArgs))
           /\ Unch
TRemoveN == /\ IsEvent("removen")
            /\ IF Ev.r = "skipped" THEN Commit(Ev.o, [g |-> G(Ev.o), r |-> "skipped"])
               ELSE LET g == G(Ev.o)
                    IN IF IsEmpty(g) \/ g.fam # "localp" THEN Commit(Ev.o, Run(g))
                       ELSE LET a == RemoveArgs
                                K == IF StOf(Ev.o).fam = "empty" THEN {} ELSE Range(StOf(Ev.o).pts)
                                R == [i \in 1..Len(a.before) |-> a.ratios[i]]
                                idx(p) == CHOOSE i \in 1..Len(a.before) : a.before[i] = p
                            IN /\ Req("remove-before", Range(a.before) = g.pts)
                               /\ Req("removen-subset", K \subseteq g.pts)
                               /\ Req("removen-count", Cardinality(K) = Ev.a.keep)
                               /\ Req("removen-largest", \A p \in K : \A q \in g.pts \ K : R[idx(p)] + 1 >= R[idx(q)])
                               /\ Commit(Ev.o, RemoveTo(g, K))
            /\ Unch
TNop == IsEvent("nop") /\ Commit(Ev.o, Ok(G(Ev.o))) /\ Unch
\* continuing on the object restored from its own file image is the identity (C06)
TRtSwap == IsEvent("rtswap") /\ Commit(Ev.o, Ok(G(Ev.o))) /\ Unch

\* refinement calls whose flagged set the spec cannot compute: the new needed set is an observation that must
\* satisfy the frame and admissibility constraints of C07 / C08
ObservedNeed(o, g1) ==
    LET g == g1
        N == Range(StOf(o).need)
    IN /\ Req("need-disjoint", N \cap g.pts = {})
       /\ Req("lim", \A p \in N : NeedWithin(g, p))
       /\ Req("need-lower", (g.fam \in {"global", "sequence"}) => IsLower(g.pts \cup N))
       /\ Req("need-related", IsLocal(g) => \A q \in N : \E p \in g.pts \cup N : q \in Relatives(g, p))
       /\ Commit(o, Ok([g EXCEPT !.need = N, !.upd = IF UsesTensors(g) THEN (IF N = {} THEN {} ELSE g.tens \cup {LVec(g, p) : p \in N}) ELSE {}]))

\* When the estimated weights are so extreme that the documented growth needs more levels than the specification
\* explores (24), the outcome is not decided by the spec: a call that returns is judged by the frame / admissibility
\* constraints only, a call that does not return in time leaves the object untouched.
TAniso == /\ IsEvent("aniso")
          /\ LET res == Aniso(G(Ev.o), Ev.a)
             IN IF res.r = "undecided"
                THEN IF Ev.r = "timeout" THEN Commit(Ev.o, [g |-> G(Ev.o), r |-> "timeout"])
                     ELSE Req(<<"result", "ok">>, Ev.r = "ok") /\ ObservedNeed(Ev.o, [res.g EXCEPT !.need = {}, !.upd = {}])
                ELSE Commit(Ev.o, res)
          /\ Unch
TUpdate == /\ IsEvent("update")
           /\ LET res == Update(G(Ev.o), Ev.a)
              IN IF res.r = "undecided"
                 THEN Req(<<"result", "ok">>, Ev.r = "ok") /\ (IF res.g.pts = {} \/ res.g.outs = 0 THEN FALSE ELSE ObservedNeed(Ev.o, [res.g EXCEPT !.need = {}, !.upd = {}]))
                 ELSE Commit(Ev.o, res)
           /\ Unch

SurpArgs(o) == [degenerate |-> Ev.a.degenerate, output |-> Ev.a.output, ll |-> Ev.a.ll, tolq |-> Ev.a.tolq, tolzero |-> Ev.a.tolzero, tolneg |-> FALSE,
                ratios |-> Ev.a.ratios, crit |-> Ev.a.crit, smode |-> IF Has(Ev.a, "smode") THEN Ev.a.smode ELSE 0,
                sorted |-> IF Len(Ev.a.ratios) = Cardinality(G(o).pts) /\ ~IsEmpty(G(o)) THEN StOf(o).pts ELSE <<>>]

TSurp == /\ IsEvent("surp")
         /\ LET res == SurpGlobalSeq(G(Ev.o), SurpArgs(Ev.o))
            IN IF res.r = "ok-observed" THEN Req(<<"result", "ok">>, Ev.r = "ok") /\ ObservedNeed(Ev.o, res.g) ELSE Commit(Ev.o, res)
         /\ Unch

\* the documented ways of passing a scale correction must be accepted (smode 1: vector overload, 2: raw pointer)
TSurpL == /\ IsEvent("surpl")
          /\ LET res == SurpLocal(G(Ev.o), SurpArgs(Ev.o))
             IN IF res.r = "ok-observed" THEN Req(<<"result", "ok">>, Ev.r = "ok") /\ ObservedNeed(Ev.o, res.g) ELSE Commit(Ev.o, res)
          /\ Unch

\* candidate requests: the candidate set is exactly the documented one, initial pool first, nothing loaded
TCand == /\ IsEvent("cand")
         /\ LET g == G(Ev.o)
            IN IF IsEmpty(g) \/ ~g.con THEN Commit(Ev.o, Run(g))
               ELSE IF IsLocal(g) THEN Commit(Ev.o, Run(g))
               ELSE IF ~ValidLimits(Ev.a.ll, g.dims) THEN Commit(Ev.o, Inv(g))
               ELSE IF Ev.a.output # -2 /\ g.outs = 0 THEN Commit(Ev.o, Run(g))
               ELSE IF Ev.a.output # -2 /\ (Ev.a.output < -1 \/ Ev.a.output >= g.outs) THEN Commit(Ev.o, Inv(g))
               ELSE IF Ev.a.output = -2 /\ Len(Ev.a.aw) # (IF Ev.a.type \in CurvedTypes THEN 2 * g.dims ELSE g.dims) THEN Commit(Ev.o, Inv(g))
               ELSE LET c == CandGlobal(g, Ev.a)
                        logged == Ev.cand
                        nfirst == Cardinality(c.first)
                    IN /\ Req(<<"cand-set", "missing", c.cand \ Range(logged), "extra", Range(logged) \ c.cand>>, Range(logged) = c.cand)   \* exactly the admissible candidates
                       /\ Req("cand-dup", Len(logged) = Cardinality(c.cand))                        \* no duplicates
                       /\ Req("cand-loaded", c.cand \cap g.pts = {})                                   \* C09: never a loaded point
                       /\ Req("cand-limits", \A p \in Range(logged) : p \in c.first \/ NeedWithin(c.g, p))             \* C08
                       /\ Req("cand-initial-first", {logged[i] : i \in 1..nfirst} = c.first)                  \* initial pool first
                       /\ Commit(Ev.o, Ok(c.g))
         /\ Unch

TCandL == /\ IsEvent("candl")
          /\ LET g == G(Ev.o)
             IN IF IsEmpty(g) \/ ~g.con THEN Commit(Ev.o, Run(g))
                ELSE IF ~IsLocal(g) THEN Commit(Ev.o, Run(g))
                ELSE IF ~ValidLimits(Ev.a.ll, g.dims) THEN Commit(Ev.o, Inv(g))
                ELSE IF g.outs = 0 THEN Commit(Ev.o, Run(g))
                ELSE IF Ev.a.output < -1 \/ Ev.a.output >= g.outs THEN Commit(Ev.o, Inv(g))
                ELSE LET g1 == IF Ev.a.ll # <<>> THEN [g EXCEPT !.lim = Ev.a.ll] ELSE g
                         a == SurpArgs(Ev.o)
                         F == IF g.pts = {} THEN {} ELSE IF a.tolzero THEN g.pts ELSE Flagged(a)
                         logged == Ev.cand
                         C == Range(logged)
                     IN /\ Req("candl-dup", Len(logged) = Cardinality(C))
                        /\ Req("candl-loaded", C \cap g.pts = {})
                        /\ Req("candl-init", g1.init \subseteq C)
                        /\ Req("candl-initial-first", {logged[i] : i \in 1..Cardinality(g1.init)} = g1.init)
                        /\ Req("candl-limits", \A p \in C \ g1.init : NeedWithin(g1, p))
                        /\ Req(<<"candl-classic", "missing", (g1.init \cup ClassicNeed(g1, F, g1.lim)) \ C, "extra", C \ (g1.init \cup ClassicNeed(g1, F, g1.lim))>>,
                               (Ev.a.crit = "classic") => C = g1.init \cup ClassicNeed(g1, F, g1.lim))
                        /\ Commit(Ev.o, Ok(g1))
          /\ Unch

\* transforms and limits only change their own fields
TTransform == /\ IsEvent("transform")
              /\ LET g == G(Ev.o)
                 IN IF IsEmpty(g) THEN Commit(Ev.o, Run(g))
                    ELSE IF Len(Ev.a.a) # g.dims \/ Len(Ev.a.b) # g.dims THEN Commit(Ev.o, Inv(g))
                    ELSE Commit(Ev.o, Ok([g EXCEPT !.ta = Ev.a.a, !.tb = Ev.a.b]))
              /\ Unch
TClearTransform == IsEvent("cleartransform") /\ Commit(Ev.o, Ok(IF IsEmpty(G(Ev.o)) THEN G(Ev.o) ELSE [G(Ev.o) EXCEPT !.ta = <<>>, !.tb = <<>>])) /\ Unch
TConformal == /\ IsEvent("conformal")
              /\ LET g == G(Ev.o)
                 IN IF IsEmpty(g) THEN Commit(Ev.o, Run(g))
                    ELSE IF Len(Ev.a.t) # g.dims THEN Commit(Ev.o, Inv(g))
                    ELSE Commit(Ev.o, Ok([g EXCEPT !.conf = Ev.a.t]))
              /\ Unch
TClearConformal == IsEvent("clearconformal") /\ Commit(Ev.o, Ok(IF IsEmpty(G(Ev.o)) THEN G(Ev.o) ELSE [G(Ev.o) EXCEPT !.conf = <<>>])) /\ Unch
TClearLimits == IsEvent("clearlimits") /\ Commit(Ev.o, Ok(IF IsEmpty(G(Ev.o)) THEN G(Ev.o) ELSE [G(Ev.o) EXCEPT !.lim = <<>>])) /\ Unch

\* copies (C11): complete, equal to the source restricted to the output range, independent afterwards
RestrictOut(src, b, e) == [src EXCEPT !.outs = e - b, !.obase = src.obase + b]
TCopy == /\ IsEvent("copy")
         /\ LET src == G(Other(Ev.o))
                e == IF Ev.a.e = -1 /\ ~IsEmpty(src) THEN src.outs ELSE Ev.a.e
            IN IF IsEmpty(src) THEN Commit(Ev.o, Ok(Empty))
               ELSE IF Ev.a.b < 0 \/ e > src.outs \/ Ev.a.b >= e THEN (IF src.outs = 0 /\ Ev.a.b = 0 /\ e = 0 THEN Commit(Ev.o, Ok(src)) ELSE Commit(Ev.o, Inv(G(Ev.o))))
               ELSE Commit(Ev.o, Ok(RestrictOut(src, Ev.a.b, e)))
         /\ Unch
TCopyCtor == IsEvent("copyctor") /\ Commit(Ev.o, Ok(G(Other(Ev.o)))) /\ Unch
TAssign == IsEvent("assign") /\ Commit(Ev.o, Ok(G(Other(Ev.o)))) /\ Unch

\* documented misuse (C14): one of the two documented exception classes, and the object is untouched
\* (or empty, which is allowed only after a failed make or read)
TBad == /\ IsEvent("bad")
        /\ Ev.r \in {"invalid_argument", "runtime_error"}
        /\ LET g == G(Ev.o)
               isMakeRead == \E pre \in {"make_", "read_"} : SubSeq(Ev.a.which, 1, 5) = pre
           IN \/ Commit(Ev.o, [g |-> g, r |-> Ev.r])
              \/ isMakeRead /\ Commit(Ev.o, [g |-> Empty, r |-> Ev.r])
        /\ Unch

\* vector of the wrong size to loadNeededValues
TLoadWrong == IsEvent("loadwrong") /\ Ev.r = "runtime_error" /\ Commit(Ev.o, Run(G(Ev.o))) /\ Unch

TNext == TReset \/ TEnd \/ TMake \/ TLoad \/ TMerge \/ TClear \/ TUpdate \/ TAniso \/ TBegin \/ TFinish \/ TLoadC \/ TNop \/ TRtSwap
         \/ TSurp \/ TSurpL \/ TCand \/ TCandL \/ TTransform \/ TClearTransform \/ TConformal \/ TClearConformal \/ TClearLimits
         \/ TCopy \/ TCopyCtor \/ TAssign \/ TBad \/ TLoadWrong \/ TSetCoef \/ TRemove \/ TRemoveN

TSpec == TInit /\ [][TNext]_tvars

Track == TLCSet(42, IF l > TLCGet(42) THEN l ELSE TLCGet(42))
Accepted == IF TLCGet(42) = Len(TraceLog) + 1 THEN TRUE ELSE PrintT(<<"REJECTED_AT", TLCGet(42)>>) /\ FALSE

-----------------------------------------------------------------------------
(* invariants evaluated on every state of every recorded execution *)
GridInv(g) ==
    IsEmpty(g) \/
    /\ g.pts \cap g.need = {}                                              \* C07 disjoint
    /\ DOMAIN g.ep = g.pts \/ g.pts = {}                                   \* every loaded point has its value
    /\ \A p \in g.pts \cup g.need : Len(p) = g.dims
TInv == GridInv(gs[1]) /\ GridInv(gs[2])

LimitInv(g) == IsEmpty(g) \/ ~NestedFam(g) \/ \A p \in g.need : NeedWithin(g, p)
TLimits == LimitInv(gs[1]) /\ LimitInv(gs[2])
=============================================================================
