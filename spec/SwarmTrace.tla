----------------------------- MODULE SwarmTrace -----------------------------
(* Trace validation for C20: an ndjson trace recorded from the real            *)
(* ParticleSwarm / ParticleSwarmState (harness/swarm_replay.cpp) must be a     *)
(* behaviour of Swarm.tla.  Every event carries its arguments and the spec is  *)
(* deterministic, so the search is linear.  Steps the code takes without       *)
(* touching its environment (the objective call skipped for an empty batch,    *)
(* fold, update, move) are silent steps of the trace spec.  Several executions *)
(* are concatenated; a Reset event starts a new one.                           *)
EXTENDS Swarm, TLC, Json, IOUtils

TraceFile == IOEnv.TRACE
TraceLog == ndJsonDeserialize(TraceFile)

VARIABLE l
tvars == <<vars, l>>

ASSUME TLCSet(42, 0)
Ev == TraceLog[l]
IsEvent(e) == l <= Len(TraceLog) /\ Ev.e = e /\ l' = l + 1
Silent == l' = l
NextIs(e) == l + 1 <= Len(TraceLog) /\ TraceLog[l + 1].e = e

SetOf(s) == {s[m] : m \in 1..Len(s)}

\* a == b, naming the recorded field that differs from the specification (diagnostics only)
Same(field, a, b) == IF a = b THEN TRUE ELSE PrintT(<<"MISMATCH", l, field>>) /\ FALSE

TInit == /\ l = 1
         /\ InitWith([n |-> 0, d |-> 0, scale |-> 1, cells |-> {}], <<>>, <<>>, FALSE)

TReset ==
    /\ pc = "idle" /\ IsEvent("Reset")
    /\ Len(Ev.pos) = Ev.n /\ Len(Ev.vel) = Ev.n
    /\ ResetTo([n |-> Ev.n, d |-> Ev.d, scale |-> Ev.scale, cells |-> SetOf(Ev.cells)], Ev.pos, Ev.vel, Ev.ctor = "data")

\* entering ParticleSwarm; a state without positions or velocities makes it throw at once
TStart ==
    /\ IsEvent("Start")
    /\ IF posInit /\ velInit
         THEN StartCall(Ev.k, [wn |-> Ev.wn, c1n |-> Ev.c1n, c2n |-> Ev.c2n]) /\ ~NextIs("Threw")
         ELSE CallThrows /\ NextIs("Threw")

TThrew ==
    /\ IsEvent("Threw") /\ pc = "idle" /\ ~(posInit /\ velInit)
    /\ l > 1 /\ TraceLog[l - 1].e = "Start"
    /\ UNCHANGED vars

\* one call of the domain test: the point handed over and the verdict recorded by the environment
TIn ==
    /\ IsEvent("In") /\ pc = "dom"
    /\ Same("In.x", Ev.x, IF tgt = "pos" THEN pos[ci] ELSE best[ci])
    /\ DomTest
    /\ Same("In.ok", Ev.ok, IF tgt = "pos" THEN cin'[ci] ELSE bin'[ci])

\* the batched objective call: exactly the in-domain points, in order, and the values that came back
TObjPos ==
    /\ IsEvent("Obj") /\ pc = "eval" /\ tgt = "pos" /\ PosBatch # <<>>
    /\ EvalPos
    /\ Same("Obj.x", Ev.x, [m \in 1..Len(PosBatch) |-> pos[PosBatch[m]]])
    /\ Same("Obj.v", Ev.v, [m \in 1..Len(PosBatch) |-> cfv'[PosBatch[m]]])
TObjBest ==
    /\ IsEvent("Obj") /\ pc = "eval" /\ tgt = "best" /\ BestBatch # <<>>
    /\ EvalBest
    /\ Same("Obj.x", Ev.x, [m \in 1..Len(BestBatch) |-> best[BestBatch[m]]])
    /\ Same("Obj.v", Ev.v, [m \in 1..Len(BestBatch) |-> bfv'[BestBatch[m]]])
TNoObjPos  == Silent /\ pc = "eval" /\ tgt = "pos" /\ PosBatch = <<>> /\ EvalPos
TNoObjBest == Silent /\ pc = "eval" /\ tgt = "best" /\ BestBatch = <<>> /\ EvalBest

TFold == Silent /\ Fold
TUpd  == Silent /\ Upd
TRng  == IsEvent("Rng") /\ Draw(Ev.r)
TMove == Silent /\ Move

\* the state seen through the public getters after a call (End) or after an edit / construction (Get)
Seen ==
    /\ Same("flags", Ev.flags, <<posInit, velInit, bestInit, cacheInit>>)
    /\ Same("pos", Ev.pos, pos) /\ Same("vel", Ev.vel, vel)
    /\ Same("best", Ev.best, best) /\ Same("gbest", Ev.gbest, best[N + 1])
TEnd ==
    /\ (IsEvent("End") \/ IsEvent("Get")) /\ pc = "idle"
    /\ Seen
    /\ UNCHANGED vars

TEdit ==
    /\ IsEvent("Edit") /\ pc = "idle"
    /\ CASE Ev.k = "clearCache" -> ClearCache
         [] Ev.k = "clearBest"  -> ClearBest
         [] Ev.k = "setPos"     -> Len(Ev.a) = N /\ SetPos(Ev.a)
         [] Ev.k = "setVel"     -> Len(Ev.a) = N /\ SetVel(Ev.a)
         [] Ev.k = "setBest"    -> Len(Ev.a) = N + 1 /\ SetBest(Ev.a)
         [] OTHER -> FALSE

TInitBox == IsEvent("InitBox") /\ InitBox(Ev.lo, Ev.hi, Ev.r)

TNext == \/ TReset \/ TStart \/ TThrew \/ TIn \/ TObjPos \/ TObjBest \/ TNoObjPos \/ TNoObjBest
         \/ TFold \/ TUpd \/ TRng \/ TMove \/ TEnd \/ TEdit \/ TInitBox

TSpec == TInit /\ [][TNext]_tvars

\* progress register: longest matched prefix (workers = 1)
Track == TLCSet(42, IF l > TLCGet(42) THEN l ELSE TLCGet(42))
Accepted == IF TLCGet(42) = Len(TraceLog) + 1 THEN TRUE
            ELSE PrintT(<<"REJECTED_AT", TLCGet(42)>>) /\ FALSE

\* the clauses of C20, evaluated in every state of every recorded execution
TInv == (env.n > 0) => (TypeOK /\ OnlyInside /\ BestsVisited /\ SwarmBestIsMin /\ PersonalBestIsMin /\ Ordered /\ FlagsAfterCall)
TNonIncreasing == [][(env.n > 0 /\ env'.n > 0 /\ env' = env) => NonIncreasingStep]_tvars
TBoundaryTransparent == [][(env.n > 0 /\ env' = env) => BoundaryStep]_tvars
=============================================================================
