SPECIFICATION TSpec
CONSTANTS
  SCHEME = "either"
  READER = "strict"
  MAGIC = 1
  TAILU = 1
CONSTRAINT Track
INVARIANTS TRecoveredIsCheckpoint TNoPartialParse TNoThrow TNothingCheckpointedIsLost TRecomputeBound TFinishOK
POSTCONDITION Accepted
CHECK_DEADLOCK FALSE
