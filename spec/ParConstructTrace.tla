-------------------------- MODULE ParConstructTrace --------------------------
(* Trace validation for C18: an ndjson trace recorded from the real           *)
(* TasGrid::constructSurrogate (harness/parconstruct_trace.cpp, hooks in      *)
(* Addons/tsgConstructSurrogate.hpp and tsgCandidateManager.hpp) must be a    *)
(* behaviour of ParConstruct.tla, repaired design (cfg.guard = TRUE).         *)
(*                                                                            *)
(* One event per action, written while the mutex is held (worker done, wait   *)
(* predicate evaluations, collect, hand-out, refresh, unlock) or by the model *)
(* callback (entry / exit with thread id, points, values).  Steps that leave  *)
(* no event are silent steps of the trace spec: the loop tests, skipping a    *)
(* worker that is not done, and wake-ups of blocked threads (TLC infers a     *)
(* wake-up where the next event is a predicate evaluation of a blocked        *)
(* thread; whether it was a notification or a spurious wake-up cannot be      *)
(* observed).  Several executions per file, each starting with Reset.         *)
(*                                                                            *)
(* TSpec: full conformance, all invariants of ParConstruct in every state.    *)
(* CSpec: only the model-callback events and the final grid content are read: *)
(*        AtMostOnce, BudgetOK, NoSameThreadConcurrent, ValueAtItsPoint are   *)
(*        decided on what the callback saw, whatever the protocol did.        *)
EXTENDS ParConstruct, TLC, Json, IOUtils

TraceFile == IOEnv.TRACE
TraceLog == ndJsonDeserialize(TraceFile)

VARIABLE l
tvars == <<vars, l>>

ASSUME TLCSet(42, 0)
Ev == TraceLog[l]
More == l <= Len(TraceLog)
IsEvent(e) == More /\ Ev.e = e /\ l' = l + 1
Silent == l' = l
NextIs(e) == More /\ Ev.e = e

FlagName(n) == CASE n = 0 -> "done" [] n = 1 -> "computing" [] n = 2 -> "shutdown" [] OTHER -> "?"

Dummy == [nw |-> 0, budget |-> 0, batch |-> 1, par |-> TRUE, guard |-> TRUE, init |-> {}, eager |-> 1000, rnum |-> 1, rden |-> 5]
CfgOf(e) == [nw |-> e.nw, budget |-> e.budget, batch |-> e.batch, par |-> e.par, guard |-> TRUE,
             init |-> Range(e.init), eager |-> IF "eager" \in DOMAIN e THEN e.eager ELSE 1000, rnum |-> 1, rden |-> 5]

TInit == l = 1 /\ InitWith(Dummy)

Idle == cfg.nw = 0 \/ pcm = "finished"

TReset == /\ Idle /\ IsEvent("Reset")
          /\ ResetTo(CfgOf(Ev))

------------------------------------------------------------------------------
(* main thread *)

TRefresh ==
    /\ IsEvent("Refresh")
    /\ \/ MRefresh0(Ev.cand) \/ MRule(Ev.cand) \/ MRefresh2(Ev.cand) \/ MSeqRefresh(Ev.cand) \/ MSeqRule(Ev.cand)
    /\ Ev.run = numRunning
    /\ Ev.nl <= Cardinality(loaded')          \* the grid never shows more points than it was given

TLaunch ==
    /\ IsEvent("Launch") /\ Ev.id = cid
    /\ MLaunch
    /\ FlagName(Ev.flag) = flag'[cid] /\ Ev.pts = x'[cid]
    /\ Ev.launched = launched' /\ Ev.running = numRunning'

TMTest == Silent /\ MTest

TMCheck == IsEvent("MCheck") /\ MWaitCheck /\ Ev.cd = countDone
TMWake  == Silent /\ NextIs("MCheck") /\ MSpurious

TCollectSkip == Silent /\ MCollectSkip

StoreChecks(id) ==
    /\ Ev.pts = x[id] /\ Ev.vals = y[id]
    /\ Ev.ld = LoadRule(Ev.nl, Len(stored) + Len(x[id]))
    /\ Ev.nl <= Cardinality(loaded) /\ Ev.gl <= Cardinality(loaded')
    /\ Ev.ns = Len(stored') /\ Ev.done = numDone' /\ Ev.running = numRunning'

TCollect ==
    /\ IsEvent("Collect") /\ Ev.id = cid
    /\ MCollectTake(Ev.nl)
    /\ StoreChecks(cid)

THandout ==
    /\ IsEvent("Handout") /\ Ev.id = cid
    /\ MBudgetStop \/ MCheckout \/ MCheckout2
    /\ FlagName(Ev.flag) = flag'[cid]
    /\ Ev.flag = 1 => Ev.pts = x'[cid]
    /\ Ev.launched = launched' /\ Ev.running = numRunning'

TMUnlock == IsEvent("MUnlock") /\ MCollectEnd
TMNotify == IsEvent("MNotify") /\ MNotifyAll
TFlush   == IsEvent("Flush") /\ MFlush /\ Ev.ns = 0 /\ Ev.gl <= Cardinality(loaded')
TJoined  == IsEvent("Joined") /\ cfg.par /\ MJoin
TJoinSeq == Silent /\ ~cfg.par /\ MJoin

\* constructSurrogate returned
TEnd == /\ IsEvent("End") /\ pcm = "done"
        /\ pcm' = "returned"
        /\ UNCHANGED <<cfg, mgrv, stored, loaded, launched, x, y, flag, syncv, cid, anyDone, pcw, ghostv, race>>

\* content of the grid after the call: every visible point holds the value computed for it and the
\* surrogate reproduces it (pairs of <<point, stored value, evaluated value>>)
TFinal == /\ IsEvent("Final") /\ pcm = "returned"
          /\ Ev.nl = Len(Ev.pairs)
          \* (set expressions instead of quantifiers: TLC evaluates quantified conjuncts of an action recursively)
          /\ {[p |-> q[1], v |-> q[2]] : q \in Range(Ev.pairs)} \subseteq loaded
          /\ {q \in Range(Ev.pairs) : q[3] # q[2]} = {}
          /\ Cardinality({q[1] : q \in Range(Ev.pairs)}) = Len(Ev.pairs)
          /\ pcm' = "finished"
          /\ UNCHANGED <<cfg, mgrv, stored, loaded, launched, x, y, flag, syncv, cid, anyDone, pcw, ghostv, race>>

(* sequential mode *)
TSeqTest == Silent /\ MSeqTest
TSeqNext == /\ IsEvent("SeqNext")
            /\ MSeqNext \/ MSeqNext2
            /\ Ev.pts = x'[0] /\ launched' = Ev.launched + Len(Ev.pts)
TSeqStore == /\ IsEvent("SeqStore")
             /\ MSeqStore(Ev.nl)
             /\ StoreChecks(0)
TSeqRuleSkip == Silent /\ MSeqRuleSkip

------------------------------------------------------------------------------
(* model callback and worker threads *)

TModelBegin ==
    /\ IsEvent("ModelBegin") /\ Ev.tid \in W
    /\ IF cfg.par THEN WModelBegin(Ev.tid) ELSE Ev.tid = 0 /\ MSeqModelBegin
    /\ Ev.pts = x[Ev.tid]

TModelEnd ==
    /\ IsEvent("ModelEnd") /\ Ev.tid \in W
    /\ IF cfg.par THEN WModelEnd(Ev.tid, Ev.vals) ELSE Ev.tid = 0 /\ MSeqModelEnd(Ev.vals)
    /\ Ev.pts = x[Ev.tid]

TWDone   == IsEvent("WDone") /\ Ev.tid \in W /\ WDone(Ev.tid) /\ Ev.cd = countDone'
TWNotify == IsEvent("WNotify") /\ Ev.tid \in W /\ WNotify(Ev.tid)
TWCheck  == IsEvent("WCheck") /\ Ev.tid \in W /\ WWaitCheck(Ev.tid) /\ FlagName(Ev.flag) = flag[Ev.tid]
TWWake   == Silent /\ NextIs("WCheck") /\ Ev.tid \in W /\ WSpurious(Ev.tid)

TNext == \/ TReset \/ TRefresh \/ TLaunch \/ TMTest \/ TMCheck \/ TMWake \/ TCollectSkip \/ TCollect \/ THandout
         \/ TMUnlock \/ TMNotify \/ TFlush \/ TJoined \/ TJoinSeq \/ TEnd \/ TFinal
         \/ TSeqTest \/ TSeqNext \/ TSeqStore \/ TSeqRuleSkip
         \/ TModelBegin \/ TModelEnd \/ TWDone \/ TWNotify \/ TWCheck \/ TWWake

TSpec == TInit /\ [][TNext]_tvars

\* progress register: longest matched prefix (workers = 1)
Track == TLCSet(42, IF l > TLCGet(42) THEN l ELSE TLCGet(42))
Accepted == IF TLCGet(42) = Len(TraceLog) + 1 THEN TRUE
            ELSE PrintT(<<"REJECTED_AT", TLCGet(42)>>) /\ FALSE

\* the clauses of C18 and the coherence invariants of the design, in every state of every execution
Live == cfg.nw > 0 /\ pcm \notin {"returned", "finished"}
TAtMostOnce == Live => AtMostOnce
TBudgetOK == Live => BudgetOK
TNoSameThreadConcurrent == Live => NoSameThreadConcurrent
TValueAtItsPoint == Live => ValueAtItsPoint
TNoRace == Live => NoRace
TCoherent == Live => (FlagCoherent /\ ManagerCoherent /\ LaunchedCoherent /\ FinalOK)

------------------------------------------------------------------------------
(* callback layer: only what the model callback saw, and the final grid *)

CReset == IsEvent("Reset") /\ ResetTo(CfgOf(Ev))

CBegin == /\ IsEvent("ModelBegin") /\ Ev.tid \in W
          /\ CallBegin(Ev.tid, Ev.pts)
          /\ UNCHANGED <<cfg, mgrv, stored, loaded, launched, x, y, flag, syncv, pcm, cid, anyDone, pcw, race>>

CEnd == /\ IsEvent("ModelEnd") /\ Ev.tid \in W
        /\ CallEnd(Ev.tid)
        /\ loaded' = loaded \cup Range(Pairs(Ev.pts, Ev.vals))     \* what the model returned for these points
        /\ UNCHANGED <<cfg, mgrv, stored, launched, x, y, flag, syncv, pcm, cid, anyDone, pcw, race>>

\* the grid content: stored values go to `loaded` (must be among the returned values, at their points),
\* the values of the surrogate at the loaded points go to `stored`
CFinal == /\ IsEvent("Final")
          /\ loaded' = loaded \cup {[p |-> Ev.pairs[i][1], v |-> Ev.pairs[i][2]] : i \in 1..Len(Ev.pairs)}
          /\ stored' = [i \in 1..Len(Ev.pairs) |-> [p |-> Ev.pairs[i][1], v |-> Ev.pairs[i][3]]]
          /\ UNCHANGED <<cfg, mgrv, launched, x, y, flag, syncv, pcm, cid, anyDone, pcw, ghostv, race>>

COther == /\ More /\ Ev.e \notin {"Reset", "ModelBegin", "ModelEnd", "Final"}
          /\ l' = l + 1 /\ UNCHANGED vars

CNext == CReset \/ CBegin \/ CEnd \/ CFinal \/ COther
CSpec == TInit /\ [][CNext]_tvars
CAtMostOnce == cfg.nw > 0 => AtMostOnce
CBudgetOK == cfg.nw > 0 => BudgetOK
CNoSameThreadConcurrent == cfg.nw > 0 => NoSameThreadConcurrent
CValueAtItsPoint == cfg.nw > 0 => (\A r \in loaded : r.v = r.p) /\ Cardinality({r.p : r \in loaded}) = Cardinality(loaded)
\* the final surrogate reproduces the model at all loaded points
CSurrogateReproduces == cfg.nw > 0 => \A i \in 1..Len(stored) : stored[i].v = stored[i].p
=============================================================================
