SPECIFICATION LTSpec
CONSTRAINT Track
INVARIANT LTInv
POSTCONDITION Accepted
CHECK_DEADLOCK FALSE
