SPECIFICATION MCSpec
CONSTANTS
  NP = 2
  MAXIT = 2
  MAXCALLS = 2
  MAXEDITS = 1
  RNG = {0,1,2}
  DOMS = {1,2,3,4,5,6}
  COEFS = {1,2}
  EDITS = {"clearCache","clearBest","setPos","setVel","setBest"}
  EMIT = TRUE
VIEW GenView
ACTION_CONSTRAINT Emit
CHECK_DEADLOCK FALSE
