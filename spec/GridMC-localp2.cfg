SPECIFICATION MCSpec
CONSTANTS
  FAM = "localp"
  RULE = "localp"
  ORDER = 1
  D = 2
  OUTS = 1
  MAXDEPTH = 1
  MAXLEN = 4
  MAXPTS = 16
  COEF = TRUE
  EMIT = FALSE
VIEW AbstractView
INVARIANTS Disjoint ValuesAttached NeededWithinLimits OrderIndependent NothingDropped CandidatesNotLoaded
PROPERTIES LoadedMonotone UpdateKeepsLoaded FrameRefine ClearOnlyDropsNeeded LoadMakesNeededLoaded LimitsPersist RemoveOnlyDrops SetCoefKeepsPoints
CHECK_DEADLOCK FALSE
