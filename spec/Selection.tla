------------------------------ MODULE Selection ------------------------------
(* Tensor selection (MultiIndexManipulations::selectTensors) for every       *)
(* TypeDepth, anisotropic weights and level limits (-1 = unrestricted), the  *)
(* Moebius combination weights, nested point sets and polynomial spaces.     *)
EXTENDS Integers, Sequences, FiniteSets, TLC, MultiIndex, Rules1D

\* round(ln(n) * 10^6) for n = 1..300
LnTable == <<0,693147,1098612,1386294,1609438,1791759,1945910,2079442,2197225,2302585,2397895,2484907,2564949,2639057,2708050,2772589,2833213,2890372,2944439,2995732,3044522,3091042,3135494,3178054,3218876,3258097,3295837,3332205,3367296,3401197,3433987,3465736,3496508,3526361,3555348,3583519,3610918,3637586,3663562,3688879,3713572,3737670,3761200,3784190,3806662,3828641,3850148,3871201,3891820,3912023,3931826,3951244,3970292,3988984,4007333,4025352,4043051,4060443,4077537,4094345,4110874,4127134,4143135,4158883,4174387,4189655,4204693,4219508,4234107,4248495,4262680,4276666,4290459,4304065,4317488,4330733,4343805,4356709,4369448,4382027,4394449,4406719,4418841,4430817,4442651,4454347,4465908,4477337,4488636,4499810,4510860,4521789,4532599,4543295,4553877,4564348,4574711,4584967,4595120,4605170,4615121,4624973,4634729,4644391,4653960,4663439,4672829,4682131,4691348,4700480,4709530,4718499,4727388,4736198,4744932,4753590,4762174,4770685,4779123,4787492,4795791,4804021,4812184,4820282,4828314,4836282,4844187,4852030,4859812,4867534,4875197,4882802,4890349,4897840,4905275,4912655,4919981,4927254,4934474,4941642,4948760,4955827,4962845,4969813,4976734,4983607,4990433,4997212,5003946,5010635,5017280,5023881,5030438,5036953,5043425,5049856,5056246,5062595,5068904,5075174,5081404,5087596,5093750,5099866,5105945,5111988,5117994,5123964,5129899,5135798,5141664,5147494,5153292,5159055,5164786,5170484,5176150,5181784,5187386,5192957,5198497,5204007,5209486,5214936,5220356,5225747,5231109,5236442,5241747,5247024,5252273,5257495,5262690,5267858,5273000,5278115,5283204,5288267,5293305,5298317,5303305,5308268,5313206,5318120,5323010,5327876,5332719,5337538,5342334,5347108,5351858,5356586,5361292,5365976,5370638,5375278,5379897,5384495,5389072,5393628,5398163,5402677,5407172,5411646,5416100,5420535,5424950,5429346,5433722,5438079,5442418,5446737,5451038,5455321,5459586,5463832,5468060,5472271,5476464,5480639,5484797,5488938,5493061,5497168,5501258,5505332,5509388,5513429,5517453,5521461,5525453,5529429,5533389,5537334,5541264,5545177,5549076,5552960,5556828,5560682,5564520,5568345,5572154,5575949,5579730,5583496,5587249,5590987,5594711,5598422,5602119,5605802,5609472,5613128,5616771,5620401,5624018,5627621,5631212,5634790,5638355,5641907,5645447,5648974,5652489,5655992,5659482,5662960,5666427,5669881,5673323,5676754,5680173,5683580,5686975,5690359,5693732,5697093,5700444,5703782>>
Ln6(n) == LnTable[n]

LevelTypes      == {"level", "iptotal", "qptotal"}
CurvedTypes     == {"curved", "ipcurved", "qpcurved"}
HyperbolicTypes == {"hyperbolic", "iphyperbolic", "qphyperbolic"}
TensorTypes     == {"tensor", "iptensor", "qptensor"}
AllTypes        == LevelTypes \cup CurvedTypes \cup HyperbolicTypes \cup TensorTypes
ExactLevelTypes == {"level", "curved", "hyperbolic", "tensor"}
QuadratureTypes == {"qptotal", "qpcurved", "qptensor", "qphyperbolic"}

\* the rule exactness each family hands to the selection
Exactness(fam, rule, type, l) ==
    CASE fam = "global"   -> IF type \in ExactLevelTypes THEN l ELSE IF type \in QuadratureTypes THEN QExact(rule, l) ELSE IExact(rule, l)
      [] fam = "sequence" -> IF type \in QuadratureTypes THEN QExact(rule, l) ELSE l
      [] fam = "fourier"  -> IF type \in ExactLevelTypes THEN l ELSE IExact("fourier", l)
      [] OTHER -> l

\* e(i): 0 for the first index, 1 + exactness of the previous level otherwise
EOf(fam, rule, type, i) == IF i = 0 THEN 0 ELSE 1 + Exactness(fam, rule, type, i - 1)

WithinLimits(t, ll) == ll = <<>> \/ \A j \in 1..Len(t) : ll[j] = -1 \/ t[j] <= ll[j]

MinOf(s) == CHOOSE m \in Range(s) : \A x \in Range(s) : m <= x
Abs(x) == IF x < 0 THEN -x ELSE x

RECURSIVE SumSeq(_)
SumSeq(s) == IF s = <<>> THEN 0 ELSE s[1] + SumSeq(Tail(s))
RECURSIVE ProdSeq(_)
ProdSeq(s) == IF s = <<>> THEN 1 ELSE s[1] * ProdSeq(Tail(s))

\* first level whose exactness covers e (tensor types)
RECURSIVE FirstLevel(_, _, _, _, _)
FirstLevel(fam, rule, type, e, l) == IF Exactness(fam, rule, type, l) >= e THEN l ELSE FirstLevel(fam, rule, type, e, l + 1)

\* curved weight of an index: A + B / 10^6 with A = sum lin_j e_j (exact) and B = sum cur_j ln(1 + e_j).
\* B is carried as Bhi * 1000 + Blo in units of 10^-6 so that estimated weights of the order 10^4 do not overflow
\* TLC's 32-bit integers; each table look-up is off by at most 1/2 unit.  Indexes with a huge exactness are
\* outside without looking at the table: lin_j >= 1, so the weight is at least e - |cur| ln(1 + e).
LnHi(n) == Ln6(n) \div 1000
LnLo(n) == Ln6(n) % 1000
CurvedIn(fam, rule, type, t, lin, cur, noff) ==
    LET es == [j \in 1..Len(t) |-> EOf(fam, rule, type, t[j])]
    IN IF \E j \in 1..Len(t) : es[j] >= 299 THEN FALSE
       ELSE IF \E j \in 1..Len(t) : Abs(cur[j]) > 60000 \/ Abs(lin[j]) > 60000
            THEN Assert(FALSE, <<"anisotropic weights too large for exact integer arithmetic", lin, cur>>)
       ELSE LET A == SumSeq([j \in 1..Len(t) |-> lin[j] * es[j]])
                Bhi == SumSeq([j \in 1..Len(t) |-> cur[j] * LnHi(1 + es[j])])
                Blo == SumSeq([j \in 1..Len(t) |-> cur[j] * LnLo(1 + es[j])])
                slack == SumSeq([j \in 1..Len(t) |-> IF es[j] > 0 THEN Abs(cur[j]) ELSE 0])   \* ln(1) = 0 exactly; zero slack: exact comparison
                gap == noff - A
                D == Bhi - gap * 1000                    \* units of 10^-3
            IN IF gap > 2000000 THEN TRUE ELSE IF gap < -2000000 THEN FALSE
               ELSE IF D > 200000 THEN FALSE ELSE IF D < -200000 THEN TRUE
               ELSE LET v == D * 1000 + Blo              \* weight - offset in units of 10^-6
                    IN IF slack > 0 /\ Abs(v) <= slack
                       THEN Assert(FALSE, <<"ambiguous curved weight comparison", t, A, Bhi, Blo, noff>>)
                       ELSE v <= 0

\* a per-dimension bound never needs to exceed a non-negative level limit (WithinLimits filters the rest anyway)
ClipLim(b, ll, j) == IF ll # <<>> /\ ll[j] >= 0 /\ ll[j] < b THEN ll[j] ELSE b

\* largest index i (at most 60) with Pred(0..i) true, for monotone Pred; -1 if Pred(0) fails
RECURSIVE LastTrue(_, _)
LastTrue(Pred(_), i) == IF i > 60 THEN 60 ELSE IF Pred(i) THEN LastTrue(Pred, i + 1) ELSE i - 1
\* all tuples bounded per dimension by bnd
BoxUpTo(d, bnd) == IF \E j \in 1..d : bnd[j] < 0 THEN {} ELSE LET m == MaxEntry({bnd}) IN {t \in Cube(d, m) : \A j \in 1..d : t[j] <= bnd[j]}

\* region grown from the origin through children that satisfy Crit (generateGeneralMultiIndexSet), inside the cube 0..cap
RECURSIVE Grow(_, _, _, _)
Grow(region, frontier, Crit(_), cap) ==
    LET next == {q \in UNION {Succs(p) : p \in frontier} : (\A j \in 1..Len(q) : q[j] <= cap) /\ q \notin region /\ Crit(q)}
    IN IF next = {} THEN region ELSE Grow(region \cup next, next, Crit, cap)

\* (the origin is always selected: the enumeration of the library starts from it without testing it)
SelectTensors(fam, rule, d, depth, type, aw, ll) ==
    {[j \in 1..d |-> 0]} \cup
    IF type \in TensorTypes THEN
        LET maxe == [j \in 1..d |-> (IF aw = <<>> THEN 1 ELSE aw[j]) * depth]
            np   == [j \in 1..d |-> LET n == FirstLevel(fam, rule, type, maxe[j], 0) + 1
                                     IN IF ll # <<>> /\ ll[j] >= 0 /\ ll[j] + 1 < n THEN ll[j] + 1 ELSE n]
        IN {t \in Cube(d, MaxEntry({[j \in 1..d |-> np[j] - 1]})) : \A j \in 1..d : t[j] < np[j]}
    ELSE IF type \in LevelTypes THEN
        LET lin  == IF aw = <<>> THEN [j \in 1..d |-> 1] ELSE aw
            noff == depth * MinOf(lin)
            bnd  == [j \in 1..d |-> LET P(i) == lin[j] * EOf(fam, rule, type, i) <= noff IN ClipLim(LastTrue(P, 0), ll, j)]
        IN {t \in BoxUpTo(d, bnd) : WithinLimits(t, ll) /\ SumSeq([j \in 1..d |-> lin[j] * EOf(fam, rule, type, t[j])]) <= noff}
    ELSE IF type \in HyperbolicTypes THEN
        \* exponents are weights / min weight: exact only when all weights are equal (or absent)
        IF aw # <<>> /\ \E j \in 1..d : aw[j] # aw[1]
        THEN Assert(FALSE, "hyperbolic selection with unequal weights is not covered by the exact specification")
        ELSE LET bnd == [j \in 1..d |-> LET P(i) == 1 + EOf(fam, rule, type, i) <= depth IN ClipLim(LastTrue(P, 0), ll, j)]
             IN {t \in BoxUpTo(d, bnd) : WithinLimits(t, ll) /\ ProdSeq([j \in 1..d |-> 1 + EOf(fam, rule, type, t[j])]) <= depth}
    ELSE \* curved
        LET lin  == IF aw = <<>> THEN [j \in 1..d |-> 1] ELSE SubSeq(aw, 1, d)
            cur  == IF aw = <<>> THEN [j \in 1..d |-> 0] ELSE SubSeq(aw, d + 1, 2 * d)
            noff == depth * MinOf(lin)
            lower == \A j \in 1..d : lin[j] + cur[j] >= 0
            cap  == 2 * depth + 6
            In(t) == WithinLimits(t, ll) /\ CurvedIn(fam, rule, type, t, lin, cur, noff)
            unit(j, i) == [m \in 1..d |-> IF m = j THEN i ELSE 0]
            bnd  == [j \in 1..d |-> LET P(i) == CurvedIn(fam, rule, type, unit(j, i), lin, cur, noff) IN ClipLim(LastTrue(P, 0), ll, j)]
        IN IF lower THEN {t \in BoxUpTo(d, bnd) : In(t)}
           ELSE LET origin == [j \in 1..d |-> 0]
                    reg == Grow({origin}, {origin}, In, cap)
                IN IF \E t \in reg : \E j \in 1..d : t[j] = cap
                   THEN Assert(FALSE, "curved selection reached the exploration cap")
                   ELSE LowerClosure(reg, d)

\* combination-technique weight of a tensor in a lower set
TensorWeight(T, t) ==
    LET d == Len(t)
        Z == [1..d -> {0, 1}]
        plus  == Cardinality({z \in Z : [j \in 1..d |-> t[j] + z[j]] \in T /\ (SumSeq(z) % 2 = 0)})
        minus == Cardinality({z \in Z : [j \in 1..d |-> t[j] + z[j]] \in T /\ (SumSeq(z) % 2 = 1)})
    IN plus - minus
ActiveTensors(T) == {t \in T : TensorWeight(T, t) # 0}

\* points of a nested rule covered by a lower tensor set: the level vector of the point is a tensor
LevelVec(fam, rule, order, p) == [j \in 1..Len(p) |-> PointLevel(fam, rule, order, p[j])]
\* point indexes that first appear on level l
LevelRange(fam, rule, order, l) == (IF l = 0 THEN 0 ELSE LevelPoints(fam, rule, order, l - 1)) .. (LevelPoints(fam, rule, order, l) - 1)
\* cartesian product of up to four index sets as tuples
ProdSets(R) == CASE Len(R) = 1 -> {<<a>> : a \in R[1]}
                 [] Len(R) = 2 -> {<<a, b>> : a \in R[1], b \in R[2]}
                 [] Len(R) = 3 -> {<<a, b, c>> : a \in R[1], b \in R[2], c \in R[3]}
                 [] Len(R) = 4 -> {<<a, b, c, e>> : a \in R[1], b \in R[2], c \in R[3], e \in R[4]}
\* the points that belong to tensor t and to no smaller tensor
DeltaOf(fam, rule, order, t) == ProdSets([j \in 1..Len(t) |-> LevelRange(fam, rule, order, t[j])])
NestedPoints(fam, rule, order, T, d) == UNION {DeltaOf(fam, rule, order, t) : t \in T}

\* polynomial space spanned / integrated: union over tensors of the boxes 0..exact(t_j)
PolySpace(fam, rule, T, d, interp) ==
    IF T = {} THEN {}
    ELSE LET ex(l) == IF interp THEN IExact(rule, l) ELSE QExact(rule, l)
             maxe == ex(MaxEntry(T))
         IN {m \in Cube(d, maxe) : \E t \in T : \A j \in 1..d : m[j] <= ex(t[j])}
=============================================================================
