---------------------------- MODULE ParConstruct ----------------------------
(***************************************************************************)
(* TasGrid::constructCommon (Addons/tsgConstructSurrogate.hpp) together    *)
(* with CandidateManager and CompleteStorage (Addons/tsgCandidateManager). *)
(*                                                                         *)
(* One main thread and cfg.nw worker threads.  Every action is one         *)
(* lock-protected region of the code (or one wait-predicate evaluation,    *)
(* one notify, one model-callback entry / exit), in the order the code     *)
(* executes them:                                                          *)
(*                                                                         *)
(*  worker w (do_work):                                                    *)
(*    WModelBegin / WModelEnd   model(x[w], y[w], w), no lock held         *)
(*    WDone       { lock; work_flag[w] = done; count_done++; }             *)
(*    WNotify     until_someone_done.notify_one()                          *)
(*    WWaitCheck  { lock; predicate work_flag[w] != done of                *)
(*                  until_new_job.wait }: leave with the flag, or block    *)
(*    WSpurious   a blocked worker wakes up without notification           *)
(*  main, parallel mode:                                                   *)
(*    MRefresh0   refresh_candidates() before anything starts              *)
(*    MLaunch     one iteration of the initial launch loop                 *)
(*    MTest       while (manager.getNumRunning() > 0)                      *)
(*    MWaitCheck  { lock; predicate count_done > 0 }: block, or reset the  *)
(*                counter and keep the mutex for collect_finished()        *)
(*    MCollectSkip / MCollectTake / MBudgetStop / MRule / MCheckout /      *)
(*    MRefresh2 / MCheckout2    the body of collect_finished() for one id  *)
(*    MCollectEnd unlock, MNotifyAll until_new_job.notify_all()            *)
(*    MFlush, MJoin                                                        *)
(*  main, sequential mode: MSeq* (same manager / storage, thread id 0).    *)
(*                                                                         *)
(* The mutex is held by main across the steps of collect_finished();       *)
(* every other critical section neither blocks nor spans a callback and    *)
(* is a single action guarded by mutex = "free".                           *)
(*                                                                         *)
(* Environment inputs are action parameters so that TLC can enumerate them *)
(* (ParConstructMC) or read them from a recorded execution                 *)
(* (ParConstructTrace): the candidate list a refresh returns, the values   *)
(* the model returns, the number of points the grid reports as loaded.     *)
(* Points and values are opaque identifiers; the value of the model at     *)
(* point p is the identifier p.                                            *)
(***************************************************************************)
EXTENDS Integers, Sequences, FiniteSets

CONSTANT HUGE   \* what the unsigned subtraction max_num_points - total_num_launched yields below zero

VARIABLES
    cfg,        \* [nw, budget, batch, par, guard, init, eager, rnum, rden]
                \*   guard = TRUE : initial launch loop tests the budget (repaired design)
                \*   guard = FALSE: the loop as pinned (no test)
                \*   init  : set of points already loaded when the call starts
                \*   load rule: loaded < eager  or  stored/loaded > rnum/rden
    \* CandidateManager
    cand,       \* candidates in the order of importance
    status,     \* "free" | "running" | "done" per candidate
    runJobs,    \* running_jobs
    numRunning, numDone,
    \* CompleteStorage and the grid
    stored,     \* sequence of [p, v] waiting to be loaded
    loaded,     \* set of [p, v] handed to grid.loadConstructedPoints (plus the initial points)
    launched,   \* total_num_launched
    \* shared between main and the workers
    x, y,       \* per worker: the job (sequence of points) and its result (sequence of values)
    flag,       \* work_flag: "done" | "computing" | "shutdown"
    countDone,
    mutex,      \* "free" | "main"
    cvDone,     \* threads blocked in until_someone_done.wait (only main ever is)
    cvJob,      \* workers blocked in until_new_job.wait
    \* control state
    pcm, cid, anyDone, pcw,
    \* ghost variables for the properties
    called,     \* points the model has been called with
    dup,        \* points the model has been called with more than once
    active,     \* thread id -> number of model calls in progress with that id
    nsamp,      \* number of samples given to the model
    race        \* main touched x[id] / y[id] while worker id owned them

vars == <<cfg, cand, status, runJobs, numRunning, numDone, stored, loaded, launched, x, y, flag,
          countDone, mutex, cvDone, cvJob, pcm, cid, anyDone, pcw, called, dup, active, nsamp, race>>

mgrv   == <<cand, status, runJobs, numRunning, numDone>>
ghostv == <<called, dup, active, nsamp>>
syncv  == <<countDone, mutex, cvDone, cvJob>>

W == 0..(cfg.nw - 1)
Range(s) == {s[i] : i \in 1..Len(s)}
Min(a, b) == IF a < b THEN a ELSE b
Max(a, b) == IF a < b THEN b ELSE a
\* the subsequence of s at the positions in I (no recursion: candidate lists can be long)
SubSeqAt(s, I) ==
    LET J == I \cap (1..Len(s))
    IN  [k \in 1..Cardinality(J) |-> s[CHOOSE i \in J : Cardinality({j \in J : j < i}) = k - 1]]
Distinct(s) == Cardinality(Range(s)) = Len(s)
Pairs(ps, vs) == [i \in 1..Len(ps) |-> [p |-> ps[i], v |-> IF i <= Len(vs) THEN vs[i] ELSE 0]]
Delivered(ld) == {r.p : r \in ld}

\* max_num_points - total_num_launched in size_t arithmetic
Remaining == IF cfg.budget >= launched THEN cfg.budget - launched ELSE HUGE

\* complete.getNumStored() / grid.getNumLoaded() > rnum / rden, or fewer than `eager` loaded points
LoadRule(nl, ns) == nl < cfg.eager \/ cfg.rden * ns > cfg.rnum * nl
\* double(getNumDone()) / double(getNumCandidates()) > 0.2  (x/0 is +inf for x > 0, NaN for 0/0)
RefreshRule == 5 * numDone > Len(cand)

------------------------------------------------------------------------------
(* CandidateManager *)

FreeIdx == {i \in 1..Len(cand) : status[i] = "free"}

\* next(remaining_budget): the first free candidate is taken before the batch size is looked at
NextIdx(rem) ==
    LET tb == Min(rem, cfg.batch)
        n  == IF tb < 1 THEN 1 ELSE tb
        free == FreeIdx
        \* the n smallest free indexes (n <= batch size; linear in the number of candidates)
        Pick[k \in 0..n] == IF k = 0 THEN {}
                            ELSE LET rest == free \ Pick[k - 1]
                                 IN  IF rest = {} THEN Pick[k - 1]
                                     ELSE Pick[k - 1] \cup {CHOOSE i \in rest : \A j \in rest : i <= j}
    IN  Pick[n]

\* x[id] = manager.next(max_num_points - total_num_launched) and, if a job came out,
\* total_num_launched += its size; set_initial_guess(x[id], y[id])
TakeJob(id) ==
    LET tk == NextIdx(Remaining)
        ps == SubSeqAt(cand, tk)
    IN  /\ x' = [x EXCEPT ![id] = ps]
        /\ y' = [y EXCEPT ![id] = <<>>]
        /\ status' = [i \in 1..Len(status) |-> IF i \in tk THEN "running" ELSE status[i]]
        /\ runJobs' = runJobs \cup Range(ps)
        /\ numRunning' = numRunning + Len(ps)
        /\ launched' = launched + Len(ps)
        /\ race' = (race \/ pcw[id] \in {"model", "in_model", "lock1"})
        /\ UNCHANGED <<cand, numDone>>

\* complete(p)
MgrComplete(ps) ==
    /\ numDone' = numDone + Len(ps)
    /\ numRunning' = numRunning - Len(ps)
    /\ status' = [i \in 1..Len(status) |-> IF cand[i] \in Range(ps) THEN "done" ELSE status[i]]
    /\ runJobs' = runJobs \ Range(ps)
    /\ UNCHANGED cand

\* refresh_candidates(): load_complete(); manager = candidates(grid)
\* new: the list the grid returns; it never contains a point that has been loaded
Refresh(new) ==
    /\ loaded' = loaded \cup Range(stored)
    /\ stored' = <<>>
    /\ Distinct(new) /\ Range(new) \cap Delivered(loaded') = {}
    /\ cand' = new
    /\ numDone' = 0
    /\ status' = [i \in 1..Len(new) |-> IF new[i] \in runJobs THEN "running" ELSE "free"]
    /\ UNCHANGED <<runJobs, numRunning>>

------------------------------------------------------------------------------
Fresh(c) ==
    [cand |-> <<>>, status |-> <<>>, runJobs |-> {}, numRunning |-> 0, numDone |-> 0,
     stored |-> <<>>, loaded |-> {[p |-> q, v |-> q] : q \in c.init},
     launched |-> Cardinality(c.init),
     x |-> [w \in 0..(c.nw - 1) |-> <<>>], y |-> [w \in 0..(c.nw - 1) |-> <<>>],
     flag |-> [w \in 0..(c.nw - 1) |-> "done"],       \* std::vector<int> work_flag(n): zero = flag_done
     pcw |-> [w \in 0..(c.nw - 1) |-> "none"],
     active |-> [w \in 0..(c.nw - 1) |-> 0]]

InitWith(c) ==
    LET f == Fresh(c) IN
    /\ cfg = c
    /\ cand = f.cand /\ status = f.status /\ runJobs = f.runJobs /\ numRunning = 0 /\ numDone = 0
    /\ stored = f.stored /\ loaded = f.loaded /\ launched = f.launched
    /\ x = f.x /\ y = f.y /\ flag = f.flag
    /\ countDone = 0 /\ mutex = "free" /\ cvDone = {} /\ cvJob = {}
    /\ pcm = "start" /\ cid = 0 /\ anyDone = FALSE /\ pcw = f.pcw
    /\ called = {} /\ dup = {} /\ active = f.active /\ nsamp = 0 /\ race = FALSE

\* the same as an action (a new call of constructSurrogate)
ResetTo(c) ==
    LET f == Fresh(c) IN
    /\ cfg' = c
    /\ cand' = f.cand /\ status' = f.status /\ runJobs' = f.runJobs /\ numRunning' = 0 /\ numDone' = 0
    /\ stored' = f.stored /\ loaded' = f.loaded /\ launched' = f.launched
    /\ x' = f.x /\ y' = f.y /\ flag' = f.flag
    /\ countDone' = 0 /\ mutex' = "free" /\ cvDone' = {} /\ cvJob' = {}
    /\ pcm' = "start" /\ cid' = 0 /\ anyDone' = FALSE /\ pcw' = f.pcw
    /\ called' = {} /\ dup' = {} /\ active' = f.active /\ nsamp' = 0 /\ race' = FALSE

------------------------------------------------------------------------------
(* the model callback; tid is the thread id the callback receives *)

CallBegin(tid, ps) ==
    /\ dup' = dup \cup (Range(ps) \cap called)
              \cup {ps[i] : i \in {k \in 1..Len(ps) : \E m \in 1..Len(ps) : m # k /\ ps[m] = ps[k]}}
    /\ called' = called \cup Range(ps)
    /\ active' = [active EXCEPT ![tid] = @ + 1]
    /\ nsamp' = nsamp + Len(ps)

CallEnd(tid) ==
    /\ active' = [active EXCEPT ![tid] = @ - 1]
    /\ UNCHANGED <<called, dup, nsamp>>

------------------------------------------------------------------------------
(* worker w *)

WModelBegin(w) ==
    /\ pcw[w] = "model"
    /\ CallBegin(w, x[w])
    /\ pcw' = [pcw EXCEPT ![w] = "in_model"]
    /\ UNCHANGED <<cfg, mgrv, stored, loaded, launched, x, y, flag, syncv, pcm, cid, anyDone, race>>

\* vals: what the model wrote into y[w]
WModelEnd(w, vals) ==
    /\ pcw[w] = "in_model"
    /\ CallEnd(w)
    /\ y' = [y EXCEPT ![w] = vals]
    /\ pcw' = [pcw EXCEPT ![w] = "lock1"]
    /\ UNCHANGED <<cfg, mgrv, stored, loaded, launched, x, flag, syncv, pcm, cid, anyDone, race>>

WDone(w) ==
    /\ pcw[w] = "lock1" /\ mutex = "free"
    /\ flag' = [flag EXCEPT ![w] = "done"]
    /\ countDone' = countDone + 1
    /\ pcw' = [pcw EXCEPT ![w] = "notify"]
    /\ UNCHANGED <<cfg, mgrv, stored, loaded, launched, x, y, mutex, cvDone, cvJob, pcm, cid, anyDone, ghostv, race>>

WNotify(w) ==
    /\ pcw[w] = "notify"
    /\ cvDone' = {}
    /\ pcw' = [pcw EXCEPT ![w] = "lock2"]
    /\ UNCHANGED <<cfg, mgrv, stored, loaded, launched, x, y, flag, countDone, mutex, cvJob, pcm, cid, anyDone, ghostv, race>>

WWaitCheck(w) ==
    /\ \/ pcw[w] = "lock2"
       \/ pcw[w] = "waiting" /\ w \notin cvJob
    /\ mutex = "free"
    /\ IF flag[w] # "done"
         THEN /\ pcw' = [pcw EXCEPT ![w] = IF flag[w] = "computing" THEN "model" ELSE "exit"]
              /\ UNCHANGED cvJob
         ELSE /\ pcw' = [pcw EXCEPT ![w] = "waiting"]
              /\ cvJob' = cvJob \cup {w}
    /\ UNCHANGED <<cfg, mgrv, stored, loaded, launched, x, y, flag, countDone, mutex, cvDone, pcm, cid, anyDone, ghostv, race>>

WSpurious(w) ==
    /\ pcw[w] = "waiting" /\ w \in cvJob
    /\ cvJob' = cvJob \ {w}
    /\ UNCHANGED <<cfg, mgrv, stored, loaded, launched, x, y, flag, countDone, mutex, cvDone, pcm, cid, anyDone, pcw, ghostv, race>>

------------------------------------------------------------------------------
(* main thread, common prologue *)

MRefresh0(new) ==
    /\ pcm = "start"
    /\ Refresh(new)
    /\ pcm' = IF cfg.par THEN "launch" ELSE "s_test"
    /\ cid' = 0
    /\ UNCHANGED <<cfg, launched, x, y, flag, syncv, anyDone, pcw, ghostv, race>>

(* main thread, parallel mode *)

\* for(id...) { x[id] = manager.next(...); if (!x[id].empty()) {... start thread} else flag = shutdown }
MLaunch ==
    /\ pcm = "launch" /\ cid < cfg.nw
    /\ IF (~cfg.guard \/ launched < cfg.budget) /\ FreeIdx # {}
         THEN /\ TakeJob(cid)
              /\ flag' = [flag EXCEPT ![cid] = "computing"]
              /\ pcw' = [pcw EXCEPT ![cid] = "model"]         \* workers[id] = std::thread(do_work, id)
         ELSE /\ flag' = [flag EXCEPT ![cid] = "shutdown"]
              /\ x' = [x EXCEPT ![cid] = <<>>]
              /\ UNCHANGED <<mgrv, launched, y, pcw, race>>
    /\ cid' = cid + 1
    /\ pcm' = IF cid + 1 = cfg.nw THEN "test" ELSE "launch"
    /\ UNCHANGED <<cfg, stored, loaded, syncv, anyDone, ghostv>>

MTest ==
    /\ pcm = "test"
    /\ pcm' = IF numRunning > 0 THEN "lock" ELSE "flush"
    /\ UNCHANGED <<cfg, mgrv, stored, loaded, launched, x, y, flag, syncv, cid, anyDone, pcw, ghostv, race>>

\* unique_lock + one evaluation of the predicate of until_someone_done.wait
MWaitCheck ==
    /\ \/ pcm = "lock"
       \/ pcm = "waiting" /\ "main" \notin cvDone
    /\ mutex = "free"
    /\ IF countDone > 0
         THEN /\ countDone' = 0 /\ mutex' = "main" /\ pcm' = "collect" /\ cid' = 0 /\ anyDone' = FALSE
              /\ UNCHANGED cvDone
         ELSE /\ cvDone' = {"main"} /\ pcm' = "waiting"
              /\ UNCHANGED <<countDone, mutex, cid, anyDone>>
    /\ UNCHANGED <<cfg, mgrv, stored, loaded, launched, x, y, flag, cvJob, pcw, ghostv, race>>

MSpurious ==
    /\ pcm = "waiting" /\ "main" \in cvDone
    /\ cvDone' = {}
    /\ UNCHANGED <<cfg, mgrv, stored, loaded, launched, x, y, flag, countDone, mutex, cvJob, pcm, cid, anyDone, pcw, ghostv, race>>

MCollectSkip ==
    /\ pcm = "collect" /\ cid < cfg.nw /\ flag[cid] # "done"
    /\ cid' = cid + 1
    /\ UNCHANGED <<cfg, mgrv, stored, loaded, launched, x, y, flag, syncv, pcm, anyDone, pcw, ghostv, race>>

\* complete.add(x[id], y[id]); manager.complete(x[id]); load_complete() if the load rule says so
\* nl: grid.getNumLoaded() as seen by the load rule
StoreResult(id, nl) ==
    LET st == stored \o Pairs(x[id], y[id]) IN
    /\ MgrComplete(x[id])
    /\ IF LoadRule(nl, Len(st))
         THEN loaded' = loaded \cup Range(st) /\ stored' = <<>>
         ELSE stored' = st /\ UNCHANGED loaded
    /\ race' = (race \/ pcw[id] \in {"model", "in_model", "lock1"})

MCollectTake(nl) ==
    /\ pcm = "collect" /\ cid < cfg.nw /\ flag[cid] = "done"
    /\ StoreResult(cid, nl)
    /\ anyDone' = TRUE
    /\ pcm' = "c_budget"
    /\ UNCHANGED <<cfg, launched, x, y, flag, syncv, cid, pcw, ghostv>>

\* else-branch of  if (total_num_launched < max_num_points)
MBudgetStop ==
    /\ pcm = "c_budget" /\ ~(launched < cfg.budget)
    /\ flag' = [flag EXCEPT ![cid] = "shutdown"]
    /\ cid' = cid + 1 /\ pcm' = "collect"
    /\ UNCHANGED <<cfg, mgrv, stored, loaded, launched, x, y, syncv, anyDone, pcw, ghostv, race>>

\* refresh because enough of the current candidates have completed
MRule(new) ==
    /\ pcm = "c_budget" /\ launched < cfg.budget /\ RefreshRule
    /\ Refresh(new)
    /\ pcm' = "c_checkout"
    /\ UNCHANGED <<cfg, launched, x, y, flag, syncv, cid, anyDone, pcw, ghostv, race>>

AtCheckout == \/ pcm = "c_budget" /\ launched < cfg.budget /\ ~RefreshRule
              \/ pcm = "c_checkout"

\* checkout_sample() finds a job at once
MCheckout ==
    /\ AtCheckout /\ FreeIdx # {}
    /\ TakeJob(cid)
    /\ flag' = [flag EXCEPT ![cid] = "computing"]
    /\ cid' = cid + 1 /\ pcm' = "collect"
    /\ UNCHANGED <<cfg, stored, loaded, syncv, anyDone, pcw, ghostv>>

\* checkout_sample() finds nothing and refreshes
MRefresh2(new) ==
    /\ AtCheckout /\ FreeIdx = {}
    /\ Refresh(new)
    /\ pcm' = "c_checkout2"
    /\ UNCHANGED <<cfg, launched, x, y, flag, syncv, cid, anyDone, pcw, ghostv, race>>

\* second manager.next() of checkout_sample(): a job, or the worker is shut down
MCheckout2 ==
    /\ pcm = "c_checkout2"
    /\ IF FreeIdx # {}
         THEN /\ TakeJob(cid)
              /\ flag' = [flag EXCEPT ![cid] = "computing"]
         ELSE /\ flag' = [flag EXCEPT ![cid] = "shutdown"]
              /\ x' = [x EXCEPT ![cid] = <<>>]
              /\ race' = (race \/ pcw[cid] \in {"model", "in_model", "lock1"})
              /\ UNCHANGED <<mgrv, launched, y>>
    /\ cid' = cid + 1 /\ pcm' = "collect"
    /\ UNCHANGED <<cfg, stored, loaded, syncv, anyDone, pcw, ghostv>>

\* end of the critical section of the main loop (checkpoint() is not part of this model)
MCollectEnd ==
    /\ pcm = "collect" /\ cid = cfg.nw
    /\ mutex' = "free"
    /\ pcm' = "notify"
    /\ UNCHANGED <<cfg, mgrv, stored, loaded, launched, x, y, flag, countDone, cvDone, cvJob, cid, anyDone, pcw, ghostv, race>>

MNotifyAll ==
    /\ pcm = "notify"
    /\ cvJob' = {}
    /\ pcm' = "test"
    /\ UNCHANGED <<cfg, mgrv, stored, loaded, launched, x, y, flag, countDone, mutex, cvDone, cid, anyDone, pcw, ghostv, race>>

MFlush ==
    /\ pcm = "flush"
    /\ loaded' = loaded \cup Range(stored) /\ stored' = <<>>
    /\ pcm' = "join"
    /\ UNCHANGED <<cfg, mgrv, launched, x, y, flag, syncv, cid, anyDone, pcw, ghostv, race>>

MJoin ==
    /\ pcm = "join" /\ \A w \in W : pcw[w] \in {"none", "exit"}
    /\ pcm' = "done"
    /\ UNCHANGED <<cfg, mgrv, stored, loaded, launched, x, y, flag, syncv, cid, anyDone, pcw, ghostv, race>>

------------------------------------------------------------------------------
(* main thread, sequential mode: x[0], y[0] are the local x, y; thread id 0 *)

MSeqTest ==
    /\ pcm = "s_test"
    /\ pcm' = IF launched < cfg.budget /\ Len(cand) > 0 THEN "s_next" ELSE "flush"
    /\ UNCHANGED <<cfg, mgrv, stored, loaded, launched, x, y, flag, syncv, cid, anyDone, pcw, ghostv, race>>

MSeqNext ==
    /\ pcm = "s_next" /\ FreeIdx # {}
    /\ TakeJob(0)
    /\ pcm' = "s_model"
    /\ UNCHANGED <<cfg, stored, loaded, flag, syncv, cid, anyDone, pcw, ghostv>>

MSeqRefresh(new) ==
    /\ pcm = "s_next" /\ FreeIdx = {}
    /\ Refresh(new)
    /\ pcm' = "s_next2"
    /\ UNCHANGED <<cfg, launched, x, y, flag, syncv, cid, anyDone, pcw, ghostv, race>>

MSeqNext2 ==
    /\ pcm = "s_next2"
    /\ IF FreeIdx # {}
         THEN TakeJob(0) /\ pcm' = "s_model"
         ELSE /\ x' = [x EXCEPT ![0] = <<>>] /\ pcm' = "s_test"
              /\ UNCHANGED <<mgrv, launched, y, race>>
    /\ UNCHANGED <<cfg, stored, loaded, flag, syncv, cid, anyDone, pcw, ghostv>>

MSeqModelBegin ==
    /\ pcm = "s_model"
    /\ CallBegin(0, x[0])
    /\ pcm' = "s_in_model"
    /\ UNCHANGED <<cfg, mgrv, stored, loaded, launched, x, y, flag, syncv, cid, anyDone, pcw, race>>

MSeqModelEnd(vals) ==
    /\ pcm = "s_in_model"
    /\ CallEnd(0)
    /\ y' = [y EXCEPT ![0] = vals]
    /\ pcm' = "s_store"
    /\ UNCHANGED <<cfg, mgrv, stored, loaded, launched, x, flag, syncv, cid, anyDone, pcw, race>>

MSeqStore(nl) ==
    /\ pcm = "s_store"
    /\ StoreResult(0, nl)
    /\ pcm' = "s_rule"
    /\ UNCHANGED <<cfg, launched, x, y, flag, syncv, cid, anyDone, pcw, ghostv>>

MSeqRule(new) ==
    /\ pcm = "s_rule" /\ RefreshRule
    /\ Refresh(new)
    /\ pcm' = "s_test"
    /\ UNCHANGED <<cfg, launched, x, y, flag, syncv, cid, anyDone, pcw, ghostv, race>>

MSeqRuleSkip ==
    /\ pcm = "s_rule" /\ ~RefreshRule
    /\ pcm' = "s_test"
    /\ UNCHANGED <<cfg, mgrv, stored, loaded, launched, x, y, flag, syncv, cid, anyDone, pcw, ghostv, race>>

------------------------------------------------------------------------------
(* The clauses of property C18 as state predicates. *)

\* the model is called at most once per grid point
AtMostOnce == dup = {}

\* never more than max_num_points samples, counting the points the grid already had
BudgetOK == Cardinality(cfg.init) + nsamp <= Max(cfg.budget, Cardinality(cfg.init))

\* the code's own counter says the same
LaunchedCoherent == launched = Cardinality(cfg.init) + Cardinality(runJobs) + Len(stored)
                               + Cardinality(loaded) - Cardinality(cfg.init)

\* no two concurrent model calls with one thread id
NoSameThreadConcurrent == \A t \in W : active[t] <= 1

\* each returned value is stored / loaded at the point it was computed for
ValueAtItsPoint == /\ \A r \in loaded : r.v = r.p
                   /\ \A i \in 1..Len(stored) : stored[i].v = stored[i].p
                   /\ Cardinality({r.p : r \in loaded}) = Cardinality(loaded)     \* one value per point

\* x[id] / y[id] are never touched by main while worker id owns them, and the flag protocol says who owns them
NoRace == ~race
FlagCoherent == \A w \in W :
                  /\ pcw[w] \in {"model", "in_model", "lock1"} => flag[w] = "computing"
                  /\ flag[w] = "done" /\ pcw[w] # "none" => pcw[w] \in {"notify", "lock2", "waiting"}
                  /\ pcw[w] = "exit" => flag[w] = "shutdown"

ManagerCoherent == /\ numRunning = Cardinality(runJobs)
                   /\ Len(status) = Len(cand)
                   /\ \A i \in 1..Len(cand) : status[i] = "running" => cand[i] \in runJobs
                   /\ countDone <= cfg.nw

\* on return everything that was computed is in the grid and every thread is gone
FinalOK == pcm = "done" =>
              /\ stored = <<>> /\ runJobs = {} /\ numRunning = 0
              /\ \A p \in called : [p |-> p, v |-> p] \in loaded
              /\ \A w \in W : pcw[w] \in {"none", "exit"}
              /\ cvJob = {} /\ cvDone = {} /\ mutex = "free"

\* sequential mode: a refresh by the 20% rule always comes before the candidates run out, so the
\* "need more candidates" branch of the sequential loop (MSeqRefresh, MSeqNext2) is never taken
SeqNextFindsJob == pcm = "s_next" => FreeIdx # {}

Safety == AtMostOnce /\ BudgetOK /\ NoSameThreadConcurrent /\ ValueAtItsPoint /\ NoRace
          /\ FlagCoherent /\ ManagerCoherent /\ FinalOK

=============================================================================
