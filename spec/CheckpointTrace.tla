--------------------------- MODULE CheckpointTrace ---------------------------
(* Trace validation for C17.  A trace is the event log of one or more crash     *)
(* histories of the REAL constructSurrogate (harness/ckpt_crash.cpp under       *)
(* harness/ckpt_shim.so): every file-system operation on the two checkpoint     *)
(* files with its arguments (file, mode, byte counts, size found at open),      *)
(* every sample the model produced, the kill (operation, torn length), every    *)
(* process start, and what the last life returned.  The log must be a           *)
(* behaviour of Checkpoint.tla: each logged operation has to be the operation   *)
(* the specification performs next on the file the specification performs it    *)
(* on, the sizes seen at open() have to be the sizes of the modelled files,     *)
(* a sample may only be computed when the specification's process does not      *)
(* hold it (so losing checkpointed work shows as an unmatched `call`), and the  *)
(* final verdict has to be a normal return with an interpolating surrogate on   *)
(* exactly the samples the specification holds.  The invariants of              *)
(* Checkpoint.tla are evaluated in every state.  Units are bytes.               *)
(* Several histories are concatenated; a Reset event starts a new one.          *)
EXTENDS Checkpoint, TLC, Json, IOUtils

TraceFile == IOEnv.TRACE
TraceLog == ndJsonDeserialize(TraceFile)

VARIABLE l
tvars == <<vars, l>>

ASSUME TLCSet(42, 0)
Ev == TraceLog[l]
IsEv(e) == l <= Len(TraceLog) /\ Ev.e = e /\ l' = l + 1
IsFs(op) == IsEv("fs") /\ Ev.op = op
Silent == l' = l
SetOf(s) == {s[m] : m \in 1..Len(s)}
SizeOf(f) == IF f.ex THEN Present(f) ELSE 0 - 1
Outcomes == {"ok", "partial", "fail", "wipe", "escape"}

\* length of the state being serialised by the write session that starts before event i on file f:
\* the bytes the process asked to write until it closed the file (or was killed doing so); a session
\* that was killed before its last write is longer than what was asked for so far
RECURSIVE SessSize(_, _)
SessSize(i, f) ==
    IF i > Len(TraceLog) THEN 1
    ELSE LET e == TraceLog[i] IN
         IF e.e = "fs" THEN
              IF e.op = "write" THEN (IF e.f = f THEN e.n + SessSize(i + 1, f) ELSE 1)
              ELSE IF e.op = "read" THEN SessSize(i + 1, f)
              ELSE IF e.op = "close" THEN (IF e.f = f /\ e.m = "w" THEN 0 ELSE 1)
              ELSE 1
         ELSE IF e.e = "call" THEN SessSize(i + 1, f)
         ELSE IF e.e = "kill" THEN (IF e.op = "close" /\ e.f = f THEN 0 ELSE 1)
         ELSE 1

TInit == l = 1 /\ Init0([budget |-> 0, batch |-> 1, par |-> FALSE, exact |-> TRUE])

TReset ==
    /\ IsEv("Reset")
    /\ env' = [budget |-> Ev.budget, batch |-> Ev.batch, par |-> Ev.par, exact |-> Ev.exact]
    /\ main' = NoFile /\ old' = NoFile /\ pc' = "dead"
    /\ have' = {} /\ pending' = {} /\ from' = "none" /\ wiped' = FALSE /\ rec' = {}
    /\ computed' = {} /\ completed' = {} /\ lastDone' = {} /\ mayRedo' = {} /\ redo' = {}
    /\ crashes' = 0 /\ partial' = FALSE

\* a process is started on the same file name
TStart == IsEv("start") /\ Restart

\* ---- recovery: which file is opened, whether it exists, how long it is
TRecMain ==
    /\ IsFs("open") /\ Ev.f = "main" /\ Ev.m = "r"
    /\ Ev.ok = (IF main.ex THEN 1 ELSE 0) /\ Ev.sz = SizeOf(main)
    /\ \E o \in Outcomes : RecoverMain(o)

TRecOld ==
    /\ IsFs("open") /\ Ev.f = "old" /\ Ev.m = "r"
    /\ Ev.ok = (IF old.ex THEN 1 ELSE 0) /\ Ev.sz = SizeOf(old)
    /\ \E o \in Outcomes : RecoverOld(o)

\* reads never return more than the modelled file holds
TRead ==
    /\ IsFs("read") /\ pc # "dead"
    /\ Ev.r <= (IF FileOf(Ev.f).ex THEN Present(FileOf(Ev.f)) ELSE 0)
    /\ UNCHANGED vars

\* the recovery's read descriptors are closed when its scope ends
TCloseRecovery ==
    /\ IsFs("close") /\ Ev.m = "r" /\ pc \in {"rec_old", "init_open", "loop", "threw"}
    /\ UNCHANGED vars

\* ---- sessions on main: initial checkpoint and rewrite
TInitOpen ==
    /\ IsFs("open") /\ Ev.f = "main" /\ Ev.m = "w" /\ Ev.tr = 1 /\ Ev.ok = 1 /\ Ev.sz = SizeOf(main)
    /\ InitOpen(SessSize(l + 1, "main"))

TCkOpenM ==
    /\ IsFs("open") /\ Ev.f = "main" /\ Ev.m = "w" /\ Ev.tr = 1 /\ Ev.ok = 1 /\ Ev.sz = SizeOf(main)
    /\ CkOpenM(SessSize(l + 1, "main"))

TWriteMain ==
    /\ IsFs("write") /\ Ev.k = 0 /\ Ev.f = "main" /\ Ev.w = Ev.n /\ pc \in {"init_write", "ck_write"}
    /\ WriteMain(Ev.n)

TCloseMain == IsFs("close") /\ Ev.m = "w" /\ Ev.f = "main" /\ CloseMain

\* ---- model calls and the copy main -> TARGET
TCall == IsEv("call") /\ Call(Ev.s)

\* parallel mode: a worker may still log a finished sample between the kill record and the death of the
\* process (SIGKILL is not instantaneous); the sample was obtained after the last checkpoint and is lost
TCallDying ==
    /\ IsEv("call") /\ pc = "dead" /\ env.par
    /\ computed' = computed \cup {Ev.s} /\ mayRedo' = mayRedo \cup ({Ev.s} \ lastDone)
    /\ UNCHANGED <<env, main, old, pc, have, pending, from, wiped, rec, completed, lastDone, redo, crashes, partial>>

TCollect ==
    /\ Silent /\ l <= Len(TraceLog) /\ Ev.e = "fs" /\ Ev.op = "open" /\ Ev.m = "r"
    /\ \E C \in SUBSET pending : Collect(C)

TCkOpenR ==
    /\ IsFs("open") /\ Ev.f = "main" /\ Ev.m = "r" /\ Ev.ok = 1 /\ Ev.sz = SizeOf(main)
    /\ CkOpenR

\* the file opened for the backup copy is a logged argument
TCkOpenW ==
    /\ IsFs("open") /\ Ev.m = "w" /\ Ev.f = CopyTarget /\ Ev.tr = 1 /\ Ev.ok = 1 /\ Ev.sz = SizeOf(FileOf(CopyTarget))
    /\ CkOpenW

TCopyWrite ==
    /\ IsFs("write") /\ Ev.k = 0 /\ Ev.f = CopyTarget /\ Ev.w = Ev.n /\ pc = "ck_copy"
    /\ CopyWrite(Ev.n)

TCopyClose == IsFs("close") /\ Ev.m = "w" /\ Ev.f = CopyTarget /\ pc = "ck_copy" /\ CopyClose

TCkCloseR == IsFs("close") /\ Ev.m = "r" /\ Ev.f = "main" /\ CkCloseR

\* ---- the kill
TWriteKilled ==
    /\ IsFs("write") /\ Ev.k = 1 /\ Ev.w < Ev.n
    /\ pc \in {"init_write", "ck_write"} => Ev.f = "main"
    /\ pc = "ck_copy" => Ev.f = CopyTarget
    /\ pc \in {"init_write", "ck_write", "ck_copy"}
    /\ IF Ev.w > 0 THEN CrashInWrite(Ev.n, Ev.w) ELSE Crash

TKillAfterWrite == IsEv("kill") /\ Ev.op = "write" /\ pc = "dead" /\ UNCHANGED vars

TKill == IsEv("kill") /\ Ev.op # "write" /\ Crash

\* ---- constructSurrogate returned: normal return, interpolating surrogate, on the samples the specification holds
TEnd ==
    /\ IsEv("end") /\ Ev.threw = 0 /\ Ev.interp = 1
    /\ SetOf(Ev.loaded) \subseteq have
    /\ env.exact => SetOf(Ev.loaded) = have
    /\ Finish

TNext == \/ TReset \/ TStart \/ TRecMain \/ TRecOld \/ TRead \/ TCloseRecovery
         \/ TInitOpen \/ TCkOpenM \/ TWriteMain \/ TCloseMain
         \/ TCall \/ TCallDying \/ TCollect \/ TCkOpenR \/ TCkOpenW \/ TCopyWrite \/ TCopyClose \/ TCkCloseR
         \/ TWriteKilled \/ TKillAfterWrite \/ TKill \/ TEnd

TSpec == TInit /\ [][TNext]_tvars

\* progress register: longest matched prefix (workers = 1); register 43 keeps what the specification's process
\* held in the deepest state reached (diagnostics for the report, not part of the verdict)
ASSUME TLCSet(43, [held |-> {}, budget |-> 0, pc |-> "none", rec |-> {}])
Track == IF l > TLCGet(42)
           THEN TLCSet(42, l) /\ TLCSet(43, [held |-> have \cup pending, budget |-> env.budget, pc |-> pc, rec |-> rec])
           ELSE TRUE
Accepted == IF TLCGet(42) = Len(TraceLog) + 1 THEN TRUE
            ELSE PrintT(<<"REJECTED_AT", TLCGet(42), TLCGet(43)>>) /\ FALSE

\* the clauses of C17, evaluated in every state of every recorded history
On == env.budget > 0
TRecoveredIsCheckpoint     == On => RecoveredIsCheckpoint
TNoPartialParse            == On => NoPartialParse
TNoThrow                   == On => NoThrow
TNothingCheckpointedIsLost == On => NothingCheckpointedIsLost
TRecomputeBound            == On => RecomputeBound
TFinishOK                  == On => FinishOK
=============================================================================
