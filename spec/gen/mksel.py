import math
logs=",".join(str(round(math.log(n)*1e6)) for n in range(1,301))
sel=open('/verif/spec/gen/Selection.tmpl').read().replace('@@LOGS@@',logs)
open('/verif/spec/Selection.tla','w').write(sel)
