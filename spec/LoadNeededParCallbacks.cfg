SPECIFICATION LCSpec
CONSTRAINT Track
INVARIANTS LCAtMostOnce LCNoSameThreadConcurrent LCExactlyOnceValueAtItsPoint
POSTCONDITION Accepted
CHECK_DEADLOCK FALSE
