SPECIFICATION TSpec
CONSTANT HUGE = 2000000
CONSTRAINT Track
INVARIANTS TAtMostOnce TBudgetOK TNoSameThreadConcurrent TValueAtItsPoint TNoRace TCoherent
POSTCONDITION Accepted
CHECK_DEADLOCK FALSE
