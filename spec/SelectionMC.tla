----------------------------- MODULE SelectionMC -----------------------------
(* Design-level checks of Selection.tla over small bounds:                    *)
(*  - for every lower set of tensors the combination weights sum to one, the  *)
(*    active tensors are exactly the ones with a non-zero weight, and the     *)
(*    declared polynomial space is the union of the tensor boxes;             *)
(*  - every selection (type, depth, anisotropic weights, level limits, rule   *)
(*    exactness) is a lower set that obeys the limits, -1 meaning free.       *)
EXTENDS Selection

CONSTANTS DIMS, MAXIDX, MAXDEPTH

VARIABLES T, sel

LowerSets == {S \in SUBSET Cube(DIMS, MAXIDX) : S # {} /\ IsLower(S)}

Rules == {"clenshaw-curtis", "leja", "rleja-odd", "gauss-legendre", "gauss-patterson", "fourier"}
Fams(rule) == IF rule = "fourier" THEN {"fourier"} ELSE IF rule = "leja" THEN {"global", "sequence"} ELSE {"global"}
WeightChoices(type) == IF type \in CurvedTypes THEN {<<>>, [j \in 1..(2 * DIMS) |-> IF j <= DIMS THEN j ELSE 1], [j \in 1..(2 * DIMS) |-> IF j <= DIMS THEN 2 ELSE 0]}
                       ELSE IF type \in HyperbolicTypes THEN {<<>>, [j \in 1..DIMS |-> 2]}
                       ELSE {<<>>, [j \in 1..DIMS |-> j], [j \in 1..DIMS |-> 3 - (j % 2)]}
LimitChoices == {<<>>, [j \in 1..DIMS |-> IF j = 1 THEN -1 ELSE 1], [j \in 1..DIMS |-> IF j = 1 THEN 0 ELSE 2], [j \in 1..DIMS |-> 1]}

Selections == [rule : Rules, type : AllTypes, depth : 0..MAXDEPTH, lim : LimitChoices, wi : 1..3]

Init == T \in LowerSets /\ sel \in Selections
Next == UNCHANGED <<T, sel>>
Spec == Init /\ [][Next]_<<T, sel>>

\* one selection per state (the pair <<T, sel>> only serves to enumerate both families of checks)
SelOf(s) == LET fam == CHOOSE f \in Fams(s.rule) : TRUE
                W == WeightChoices(s.type)
                aw == CHOOSE w \in W : Cardinality({v \in W : Len(v) < Len(w) \/ (Len(v) = Len(w) /\ v # w /\ \E k \in 1..Len(v) : v[k] < w[k] /\ \A m \in 1..(k-1) : v[m] = w[m])}) = (s.wi - 1) % Cardinality(W)
            IN SelectTensors(fam, s.rule, DIMS, s.depth, s.type, aw, s.lim)

SumWeights(S) == LET RECURSIVE Acc(_)
                     Acc(R) == IF R = {} THEN 0 ELSE LET t == CHOOSE x \in R : TRUE IN TensorWeight(S, t) + Acc(R \ {t})
                 IN Acc(S)

WeightsSumToOne == SumWeights(T) = 1
ActiveAreNonZero == ActiveTensors(T) = {t \in T : TensorWeight(T, t) # 0} /\ ActiveTensors(T) # {}
\* the maximal tensors are active with weight one
MaximalActive == \A t \in T : (\A q \in T : LeqAll(t, q) => q = t) => TensorWeight(T, t) = 1
SpaceIsUnionOfBoxes == \A interp \in BOOLEAN :
    PolySpace("global", "clenshaw-curtis", T, DIMS, interp) = UNION {PolySpace("global", "clenshaw-curtis", {t}, DIMS, interp) : t \in T}
SelectionIsLower == IsLower(SelOf(sel))
SelectionWithinLimits == \A t \in SelOf(sel) : WithinLimits(t, sel.lim)
SelectionHasOrigin == [j \in 1..DIMS |-> 0] \in SelOf(sel)
=============================================================================
