----------------------------- MODULE SelectionMC -----------------------------
(* Design-level checks of Selection.tla over small bounds:                    *)
(*  - for every lower set of tensors the combination weights sum to one, the  *)
(*    maximal tensors carry weight one, and the declared polynomial space is  *)
(*    the union of the tensor boxes;                                          *)
(*  - every selection (type, depth, anisotropic weights, level limits, rule   *)
(*    exactness) is a lower set that obeys the limits (-1 = free), contains   *)
(*    the origin and grows with the depth.                                    *)
(* A state is either a lower set (mode "T") or a selection request (mode "S").*)
EXTENDS Selection

CONSTANTS DIMS, MAXIDX, MAXDEPTH

VARIABLES T, sel, mode

LowerSets == {S \in SUBSET Cube(DIMS, MAXIDX) : S # {} /\ IsLower(S)}

Rules == {"clenshaw-curtis", "leja", "rleja-odd", "gauss-legendre", "gauss-patterson", "fourier"}
FamOf(rule) == IF rule = "fourier" THEN "fourier" ELSE "global"
WeightChoices(type) == IF type \in CurvedTypes THEN {<<>>, [j \in 1..(2 * DIMS) |-> IF j <= DIMS THEN j ELSE 1], [j \in 1..(2 * DIMS) |-> IF j <= DIMS THEN 2 ELSE 0]}
                       ELSE IF type \in HyperbolicTypes THEN {<<>>, [j \in 1..DIMS |-> 2]}
                       ELSE {<<>>, [j \in 1..DIMS |-> j], [j \in 1..DIMS |-> 3 - (j % 2)]}
LimitChoices == {<<>>, [j \in 1..DIMS |-> IF j = 1 THEN -1 ELSE 1], [j \in 1..DIMS |-> IF j = 1 THEN 0 ELSE 2], [j \in 1..DIMS |-> 1]}

Selections == UNION {{[rule |-> r, type |-> t, depth |-> dp, lim |-> l, aw |-> w] : r \in Rules, dp \in 0..MAXDEPTH, l \in LimitChoices, w \in WeightChoices(t)} : t \in AllTypes}
Dummy == [rule |-> "leja", type |-> "level", depth |-> 0, lim |-> <<>>, aw |-> <<>>]
Origin == [j \in 1..DIMS |-> 0]

Init == \/ mode = "T" /\ T \in LowerSets /\ sel = Dummy
        \/ mode = "S" /\ sel \in Selections /\ T = {Origin}
Next == UNCHANGED <<T, sel, mode>>
Spec == Init /\ [][Next]_<<T, sel, mode>>

SelOf(s) == SelectTensors(FamOf(s.rule), s.rule, DIMS, s.depth, s.type, s.aw, s.lim)
\* sequence grids select with their own exactness as well
SelSeq(s) == IF s.rule = "leja" THEN SelectTensors("sequence", s.rule, DIMS, s.depth, s.type, s.aw, s.lim) ELSE {Origin}

RECURSIVE SumW(_, _)
SumW(S, R) == IF R = {} THEN 0 ELSE LET t == CHOOSE x \in R : TRUE IN TensorWeight(S, t) + SumW(S, R \ {t})

WeightsSumToOne == mode = "T" => SumW(T, T) = 1
MaximalActive == mode = "T" => \A t \in T : (\A q \in T : LeqAll(t, q) => q = t) => TensorWeight(T, t) = 1
ActiveNonEmpty == mode = "T" => ActiveTensors(T) # {} /\ ActiveTensors(T) \subseteq T
SpaceIsUnionOfBoxes == mode = "T" => \A interp \in BOOLEAN :
    PolySpace("global", "clenshaw-curtis", T, DIMS, interp) = UNION {PolySpace("global", "clenshaw-curtis", {t}, DIMS, interp) : t \in T}
SelectionIsLower == mode = "S" => IsLower(SelOf(sel)) /\ IsLower(SelSeq(sel))
SelectionWithinLimits == mode = "S" => \A t \in SelOf(sel) \cup SelSeq(sel) : t = Origin \/ WithinLimits(t, sel.lim)
SelectionHasOrigin == mode = "S" => Origin \in SelOf(sel)
SelectionMonotone == (mode = "S" /\ sel.depth > 0) => SelOf([sel EXCEPT !.depth = sel.depth - 1]) \subseteq SelOf(sel)
=============================================================================
