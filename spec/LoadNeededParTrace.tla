------------------------- MODULE LoadNeededParTrace -------------------------
(* Trace validation for the threaded TasGrid::loadNeededValues (C18): the     *)
(* ndjson trace recorded by harness/parconstruct_trace.cpp (mode=ln; hook     *)
(* ln_checkout emitted under checked_out_lock, model callback entry / exit,   *)
(* values found in the grid afterwards) must be a behaviour of                *)
(* LoadNeededPar.tla; the invariants are evaluated in every state.            *)
(* LCSpec reads only the callback events and the final grid.                  *)
EXTENDS LoadNeededPar, TLC, Json, IOUtils, Sequences

TraceFile == IOEnv.TRACE
TraceLog == ndJsonDeserialize(TraceFile)

VARIABLE l
ltvars == <<lvars, l>>

ASSUME TLCSet(42, 0)
Ev == TraceLog[l]
More == l <= Len(TraceLog)
IsEvent(e) == More /\ Ev.e = e /\ l' = l + 1
Silent == l' = l
Threaded == lcfg.par /\ lcfg.nt > 0

LTInit == l = 1 /\ LInitWith([nt |-> 0, ns |-> 0, par |-> TRUE]) 
LIdle == (lcfg.ns = 0 /\ pcl = "spawn") \/ pcl = "finished"
LTReset == LIdle /\ IsEvent("Reset") /\ LResetTo([nt |-> Ev.nt, ns |-> Ev.ns, par |-> Ev.par])

LTSpawn == Silent /\ lcfg.ns > 0 /\ Spawn
LTCheckout == /\ IsEvent("Checkout") /\ Ev.tid \in T
              /\ Find(Ev.tid)
              /\ Ev.s = sample'[Ev.tid] /\ Ev.n = lcfg.ns
LTBegin == /\ IsEvent("ModelBegin")
           /\ IF Threaded THEN Ev.tid \in T /\ ModelBegin(Ev.tid) /\ Ev.s = sample[Ev.tid]
                          ELSE Ev.tid = 0 /\ SeqBegin /\ Ev.s = si
LTEndCall == /\ IsEvent("ModelEnd")
             /\ IF Threaded THEN Ev.tid \in T /\ ModelEnd(Ev.tid, Ev.v) /\ Ev.s = sample[Ev.tid]
                            ELSE Ev.tid = 0 /\ SeqEnd(Ev.v) /\ Ev.s = si
LTJoin == Silent /\ (JoinLoad \/ SeqLoad)
LTReturn == /\ IsEvent("End") /\ pcl = "done" /\ pcl' = "returned"
            /\ UNCHANGED <<lcfg, checked, sample, pct, vals, grid, si, cnt, lactive>>
\* the values found in the grid, in the order of the samples
LTFinal == /\ IsEvent("Final") /\ pcl = "returned"
           /\ Ev.nl = lcfg.ns /\ Len(Ev.vals) = lcfg.ns
           /\ {s \in S : Ev.vals[s + 1] # grid[s]} = {}
           /\ pcl' = "finished"
           /\ UNCHANGED <<lcfg, checked, sample, pct, vals, grid, si, cnt, lactive>>

LTNext == LTReset \/ LTSpawn \/ LTCheckout \/ LTBegin \/ LTEndCall \/ LTJoin \/ LTReturn \/ LTFinal
LTSpec == LTInit /\ [][LTNext]_ltvars

Track == TLCSet(42, IF l > TLCGet(42) THEN l ELSE TLCGet(42))
Accepted == IF TLCGet(42) = Len(TraceLog) + 1 THEN TRUE
            ELSE PrintT(<<"REJECTED_AT", TLCGet(42)>>) /\ FALSE
LTInv == (lcfg.ns > 0 /\ pcl \notin {"returned", "finished"}) => LSafety

------------------------------------------------------------------------------
(* callback layer *)
LCReset == IsEvent("Reset") /\ LResetTo([nt |-> Ev.nt, ns |-> Ev.ns, par |-> Ev.par])
LCBegin == /\ IsEvent("ModelBegin") /\ Ev.tid \in TIds /\ Ev.s \in S
           /\ cnt' = [cnt EXCEPT ![Ev.s] = @ + 1] /\ lactive' = [lactive EXCEPT ![Ev.tid] = @ + 1]
           /\ UNCHANGED <<lcfg, checked, sample, pct, vals, grid, pcl, si>>
LCEnd == /\ IsEvent("ModelEnd") /\ Ev.tid \in TIds
         /\ lactive' = [lactive EXCEPT ![Ev.tid] = @ - 1]
         /\ UNCHANGED <<lcfg, checked, sample, pct, vals, grid, pcl, si, cnt>>
LCFinal == /\ IsEvent("Final") /\ Len(Ev.vals) = lcfg.ns
           /\ grid' = [s \in S |-> Ev.vals[s + 1]] /\ pcl' = "done"
           /\ UNCHANGED <<lcfg, checked, sample, pct, vals, si, cnt, lactive>>
LCOther == More /\ Ev.e \notin {"Reset", "ModelBegin", "ModelEnd", "Final"} /\ l' = l + 1 /\ UNCHANGED lvars
LCNext == LCReset \/ LCBegin \/ LCEnd \/ LCFinal \/ LCOther
LCSpec == LTInit /\ [][LCNext]_ltvars
LCAtMostOnce == LAtMostOnce
LCNoSameThreadConcurrent == LNoSameThreadConcurrent
LCExactlyOnceValueAtItsPoint == LFinalOK
=============================================================================
