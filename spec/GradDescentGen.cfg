SPECIFICATION MCSpec
CONSTANTS
  RestoreOnEarlyReturn = TRUE
  MODES = {"adapt", "const"}
  CAPS = {0,1,2,3,4,5,6}
  UNIT = 64
  INCS = {0,1}
  DECS = {1}
  E0N = {1}
  E0OFF = 1
  GN = {0,192}
  GOFF = 64
  DFN = {64,112,136}
  DFOFF = 128
  TOLN = {0,65}
  PROJS = {TRUE,FALSE}
  BOX = 96
  X0N = {0,64}
  X0OFF = 0
  EMIT = TRUE
VIEW AbstractView
ACTION_CONSTRAINT Emit
CHECK_DEADLOCK FALSE
