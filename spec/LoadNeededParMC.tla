--------------------------- MODULE LoadNeededParMC ---------------------------
(* all interleavings of NT worker threads over NS samples *)
EXTENDS LoadNeededPar, TLC
CONSTANTS NT, NS, LPAR

LMCInit == LInitWith([nt |-> NT, ns |-> NS, par |-> LPAR])
WorkerL(t) == Find(t) \/ ModelBegin(t) \/ ModelEnd(t, sample[t])
MainL == Spawn \/ JoinLoad \/ SeqBegin \/ SeqEnd(si) \/ SeqLoad
LTerminated == pcl = "done" /\ UNCHANGED lvars
LMCNext == MainL \/ (\E t \in 0..(NT - 1) : WorkerL(t)) \/ LTerminated
LMCSpec == LMCInit /\ [][LMCNext]_lvars
LFairSpec == LMCSpec /\ WF_lvars(MainL) /\ \A t \in 0..(NT - 1) : WF_lvars(WorkerL(t))
LTermination == <>(pcl = "done")
=============================================================================
