------------------------------- MODULE Dream -------------------------------
(***************************************************************************)
(* One call of TasDREAM::SampleDREAM as a step machine over an exact       *)
(* integer lattice.  Everything the caller supplies (random numbers,       *)
(* differential weight, independent update, domain test, probability       *)
(* function) is environment input to the actions, so TLC can enumerate it  *)
(* (DreamMC) or take it from a recorded execution (DreamTrace).            *)
(*                                                                         *)
(* Random numbers are k/4 with k in 0..4 (both endpoints included).        *)
(* Chain states are integer vectors, pdf values are small integers:        *)
(* regular form positive values, logarithmic form any integers.            *)
(*                                                                         *)
(* Structure follows the code (DREAM/tsgDreamSample.hpp):                  *)
(*   StartRun   : optional initial pdf evaluation, history pre-allocation  *)
(*   Propose(i) : draw j, k, clamp BOTH, x = s_i + w (s_k - s_j) + update, *)
(*                domain test                                              *)
(*   EvalBatch  : one pdf call with all in-domain proposals (none if none) *)
(*   Decide(i)  : accept without draw if better, else draw and compare     *)
(*   Commit     : install new state, save history when past the burn-up    *)
(***************************************************************************)
EXTENDS Integers, Sequences, FiniteSets

VARIABLES env,      \* [n, d, pdf : set of [x, v], logform, upd, mag]
          st,       \* chain states: sequence of n integer vectors
          pv,       \* cached pdf values of the chains
          pvReady,  \* pdf cache initialised
          hist, phist, acc,   \* saved history, its pdf values, accepted counter
          pc,       \* "idle" | "prop" | "eval" | "dec" | "commit"
          ci,       \* chain currently processed (1-based)
          burn, coll,         \* iterations left to burn / to collect in this run
          prop,     \* proposals of this iteration: sequence of [ok, x]
          vals,     \* pdf values of the in-domain proposals, in order
          vi,       \* next unread entry of vals
          newst, newpv, accn, \* state under construction
          pick,     \* ghost: last <<j, k>> used (1-based)
          wanted    \* ghost: number of samples the completed runs should have appended

vars == <<env, st, pv, pvReady, hist, phist, acc, pc, ci, burn, coll, prop, vals, vi, newst, newpv, accn, pick, wanted>>

Dom     == {r.x : r \in env.pdf}
PdfOf(x) == (CHOOSE r \in env.pdf : r.x = x).v
VAdd(a, b) == [m \in 1..Len(a) |-> a[m] + b[m]]
VSub(a, b) == [m \in 1..Len(a) |-> a[m] - b[m]]
VMul(w, a) == [m \in 1..Len(a) |-> w * a[m]]
Zero       == [m \in 1..env.d |-> 0]

\* (size_t)(r * n) with r = r4/4, clamped to the last chain: 1-based index
ChainOf(r4) == LET f == (r4 * env.n) \div 4 IN (IF f >= env.n THEN env.n - 1 ELSE f) + 1

\* largest non-positive integer difference that is still >= log(r4/4)
LogFloor(r4) == CASE r4 = 0 -> -1000000 [] r4 = 1 -> -1 [] OTHER -> 0

\* accept test for a proposal that is not strictly better (new <= old)
Keeps(new, old, r4) == IF env.logform THEN new - old >= LogFloor(r4)
                                       ELSE 4 * new >= r4 * old

\* built-in uniform update with magnitude mag: x += mag (2 r - 1) per dimension
UniformDelta(ru) == [m \in 1..env.d |-> (env.mag * (2 * ru[m] - 4)) \div 4]

--------------------------------------------------------------------------
InitWith(e, s0) ==
    /\ env = e /\ st = s0 /\ pv = <<>> /\ pvReady = FALSE
    /\ hist = <<>> /\ phist = <<>> /\ acc = 0
    /\ pc = "idle" /\ ci = 0 /\ burn = 0 /\ coll = 0
    /\ prop = <<>> /\ vals = <<>> /\ vi = 1 /\ newst = <<>> /\ newpv = <<>> /\ accn = 0
    /\ pick = <<1, 1>> /\ wanted = 0

\* SampleDREAM(b, c, ...) is entered.  The pdf cache is filled on first use only.
StartRun(b, c) ==
    /\ pc = "idle" /\ b >= 0 /\ c >= 0
    /\ IF pvReady THEN UNCHANGED <<pv, pvReady>>
                  ELSE pv' = [m \in 1..env.n |-> PdfOf(st[m])] /\ pvReady' = TRUE
    /\ burn' = b /\ coll' = c
    /\ wanted' = wanted + c * env.n
    /\ IF b + c > 0 THEN pc' = "prop" /\ ci' = 1 ELSE pc' = "idle" /\ ci' = 0
    /\ prop' = <<>> /\ newst' = <<>> /\ newpv' = <<>> /\ accn' = 0 /\ vals' = <<>> /\ vi' = 1
    /\ UNCHANGED <<env, st, hist, phist, acc, pick>>

\* the proposal of chain ci; delta is what the independent update added
Propose(rj, rk, w, delta) ==
    /\ pc = "prop"
    /\ LET j == ChainOf(rj)
           k == ChainOf(rk)
           x == VAdd(VAdd(st[ci], VMul(w, VSub(st[k], st[j]))), delta)
       IN /\ pick' = <<j, k>>
          /\ prop' = Append(prop, [ok |-> x \in Dom, x |-> x])
    /\ IF ci = env.n THEN pc' = "eval" /\ ci' = 0 ELSE pc' = "prop" /\ ci' = ci + 1
    /\ UNCHANGED <<env, st, pv, pvReady, hist, phist, acc, burn, coll, vals, vi, newst, newpv, accn, wanted>>

Cands == SelectSeq(prop, LAMBDA p : p.ok)

\* one batched pdf call, skipped when every proposal left the domain
EvalBatch ==
    /\ pc = "eval"
    /\ vals' = [m \in 1..Len(Cands) |-> PdfOf(Cands[m].x)]
    /\ vi' = 1 /\ pc' = "dec" /\ ci' = 1
    /\ UNCHANGED <<env, st, pv, pvReady, hist, phist, acc, burn, coll, prop, newst, newpv, accn, pick, wanted>>

NeedsDraw == pc = "dec" /\ prop[ci].ok /\ ~(vals[vi] > pv[ci])

\* r4 is only read when NeedsDraw holds
Decide(r4) ==
    /\ pc = "dec"
    /\ LET p    == prop[ci]
           keep == p.ok /\ (vals[vi] > pv[ci] \/ Keeps(vals[vi], pv[ci], r4))
       IN /\ newst' = Append(newst, IF keep THEN p.x ELSE st[ci])
          /\ newpv' = Append(newpv, IF keep THEN vals[vi] ELSE pv[ci])
          /\ accn'  = IF keep THEN accn + 1 ELSE accn
          /\ vi'    = IF p.ok THEN vi + 1 ELSE vi
    /\ IF ci = env.n THEN pc' = "commit" /\ ci' = 0 ELSE pc' = "dec" /\ ci' = ci + 1
    /\ UNCHANGED <<env, st, pv, pvReady, hist, phist, acc, burn, coll, prop, vals, pick, wanted>>

Commit ==
    /\ pc = "commit"
    /\ st' = newst /\ pv' = newpv
    /\ IF burn > 0
         THEN burn' = burn - 1 /\ UNCHANGED <<hist, phist, acc, coll>>
         ELSE /\ hist' = hist \o newst /\ phist' = phist \o newpv /\ acc' = acc + accn
              /\ coll' = coll - 1 /\ UNCHANGED burn
    /\ IF burn' + coll' > 0 THEN pc' = "prop" /\ ci' = 1 ELSE pc' = "idle" /\ ci' = 0
    /\ prop' = <<>> /\ newst' = <<>> /\ newpv' = <<>> /\ accn' = 0 /\ vals' = <<>> /\ vi' = 1
    /\ UNCHANGED <<env, pvReady, pick, wanted>>

--------------------------------------------------------------------------
(* The clauses of property C15 as state predicates of the specification.  *)

\* chain indexes used for the differential update are chains
IndexInRange == pick[1] \in 1..env.n /\ pick[2] \in 1..env.n

\* every chain state and every recorded sample satisfies the domain test
InDomain == /\ \A m \in 1..Len(st) : st[m] \in Dom
            /\ \A m \in 1..Len(hist) : hist[m] \in Dom

\* cached and recorded probability values are the probability function at those samples
PdfCoherent == /\ pvReady => \A m \in 1..env.n : pv[m] = PdfOf(st[m])
               /\ Len(phist) = Len(hist)
               /\ \A m \in 1..Len(hist) : phist[m] = PdfOf(hist[m])

\* a finished run with num_collect = c appended exactly c * chains samples
HistoryLength == pc = "idle" => Len(hist) = wanted

\* accepted counter never exceeds the number of recorded samples
AcceptedBound == acc <= Len(hist)

=============================================================================
