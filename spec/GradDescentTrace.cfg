SPECIFICATION TSpec
CONSTANTS
  RestoreOnEarlyReturn = TRUE
CONSTRAINT Track
INVARIANT TInv
POSTCONDITION Accepted
CHECK_DEADLOCK FALSE
