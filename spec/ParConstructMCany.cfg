\* any initial candidate list, one later arbitrary change (re-ranking / new / vanished candidates), safety only
SPECIFICATION MCSpec
CONSTANTS
  HUGE = 1000000
  NW = 2
  NP = 4
  BUDGET = 3
  BATCH = 1
  PAR = TRUE
  GUARD = TRUE
  INIT0 = 0
  EAGER = 1000
  RNUM = 1
  RDEN = 5
  REORDER = TRUE
  MAXCHG = 1
  SPURIOUS = TRUE
  INITFULL = FALSE
INVARIANTS SeqNextFindsJob AtMostOnce BudgetOK NoSameThreadConcurrent ValueAtItsPoint NoRace FlagCoherent ManagerCoherent LaunchedCoherent FinalOK NoStuck
