-------------------------- MODULE GradDescentTrace --------------------------
(* Trace validation for C19: an ndjson trace recorded from the real            *)
(* TasOptimization::GradientDescent (harness/gd_trace.cpp) must be a behaviour  *)
(* of GradDescent.tla.  The callbacks log every objective / gradient /          *)
(* projection call with argument and answer; the steps the code takes without   *)
(* touching its environment (swap, step-size updates, cap checks, the descent   *)
(* test, acceptance, loop exit) are silent steps.  In exact mode the outcome of  *)
(* the descent and stationarity tests is computed by the specification; in      *)
(* float mode it is inferred from what is called next.                          *)
(* A Reset event starts a family: the same call repeated for several caps.      *)
(* The values of the returned points are kept per family (fam) so the clause    *)
(* "no larger than with any smaller cap" is decided across real executions.     *)
(* The clauses that compare the return event with the specification state are   *)
(* named: the first one that fails is printed as CLAUSE <name> <line>.          *)
EXTENDS GradDescent, TLC, Json, IOUtils

TraceFile == IOEnv.TRACE
TraceLog == ndJsonDeserialize(TraceFile)

VARIABLES l,      \* next trace line
          fam     \* cap -> [f, fs] of the points returned so far in this family
tvars == <<vars, l, fam>>

ASSUME TLCSet(42, 0)
Ev == TraceLog[l]
HasNext == l + 1 <= Len(TraceLog)
NextE == IF HasNext THEN TraceLog[l + 1].e ELSE "EOF"
CurE == IF l <= Len(TraceLog) THEN TraceLog[l].e ELSE "EOF"
IsEvent(e) == l <= Len(TraceLog) /\ Ev.e = e /\ l' = l + 1
Silent == l' = l
Clause(name, cond) == IF cond THEN TRUE ELSE PrintT(<<"CLAUSE", name, l>>) /\ FALSE

EmptyFam == [c \in {} |-> 0]
TInit == l = 1 /\ fam = EmptyFam /\ InitIdle

TReset == pc = "idle" /\ IsEvent("Reset") /\ fam' = EmptyFam /\ UNCHANGED vars

ParOf(e) == [mode |-> e.mode, exact |-> e.exact, dy |-> e.dy, cap |-> e.cap, inc |-> e.inc, dec |-> e.dec,
             tol |-> e.tol, proj |-> e.hasproj, unit |-> e.unit]
TCall ==
    /\ IsEvent("Call") /\ UNCHANGED fam
    /\ IF Ev.mode = "const" THEN CEnter(ParOf(Ev), Ev.x, Ev.step) ELSE Enter(ParOf(Ev), Ev.x, Ev.step)

\* ---- adaptive / projected
TFunc0 == IsEvent("Func") /\ pc = "f0" /\ Ev.x = sx /\ EvalStart(Ev.v) /\ UNCHANGED fam
TGrad0 == IsEvent("Grad") /\ pc = "g0" /\ Ev.x = sx /\ GradStart(Ev.g) /\ UNCHANGED fam
TSwap == Silent /\ Swap /\ UNCHANGED fam
TOptimistic == Silent /\ Optimistic /\ UNCHANGED fam
TLoopExit == Silent /\ LoopExit /\ UNCHANGED fam
TEarlyReturn == Silent /\ EarlyReturn /\ UNCHANGED fam
TBeginAttempt == Silent /\ BeginAttempt /\ UNCHANGED fam
TProj == par.proj /\ IsEvent("Proj") /\ Project(Ev.z, Ev.p) /\ UNCHANGED fam
\* the identity overload: the trial point is the argument of the next objective call
TProjSilent ==
    /\ ~par.proj /\ pc = "proj" /\ Silent /\ CurE = "Func" /\ UNCHANGED fam
    /\ LET z == IF par.exact /\ ZOnLattice THEN ZExact ELSE Ev.x IN Project(z, z)
TFuncCand == IsEvent("Func") /\ pc = "func" /\ Ev.x = cx /\ EvalCand(Ev.v) /\ UNCHANGED fam
\* a passed attempt is followed by the gradient at the new point, a failed one by a new trial or the return
TTest == /\ Silent /\ pc = "test" /\ UNCHANGED fam
         /\ Test(IF par.exact THEN DescentOK ELSE CurE = "Grad")
TAccept == Silent /\ Accept /\ UNCHANGED fam
TGradNew == /\ IsEvent("Grad") /\ pc = "grad" /\ Ev.x = sx /\ UNCHANGED fam
            /\ GradNew(Ev.g, IF par.exact THEN ResidualOK(Ev.g) ELSE NextE = "Return")

\* ---- constant step
TCGrad0 == IsEvent("Grad") /\ pc = "cg0" /\ Ev.x = sx /\ CGrad0(Ev.g) /\ UNCHANGED fam
TCLoopExit == Silent /\ CLoopExit /\ UNCHANGED fam
\* the new point is the argument of the next gradient call
TCStep == /\ Silent /\ pc = "ctop" /\ CurE = "Grad" /\ UNCHANGED fam
          /\ CStep(IF par.exact /\ CStepOnLattice THEN CStepExact ELSE Ev.x)
TCGrad == /\ IsEvent("Grad") /\ pc = "cgrad" /\ Ev.x = sx /\ UNCHANGED fam
          /\ CGrad(Ev.g, IF par.exact THEN SmallExact(Ev.g) ELSE Ev.small)

\* ---- the return event: status, state.getX(), step size, and the observer's value of the returned point
Smaller == {c \in DOMAIN fam : c < par.cap}
TReturn ==
    /\ IsEvent("Return") /\ Return
    /\ Clause("Ret:err", Ev.err = 0)
    /\ Clause("Ret:iterations", Ev.it = it)
    /\ Clause("Ret:x-is-last-accepted", Ev.x = last)
    /\ Clause("Ret:x-is-state", Ev.x = sx)
    /\ Clause("Ret:x-from-projection-or-start", par.mode = "adapt" => (Ev.x = xstart \/ Ev.x \in projs))
    /\ Clause("Ret:stepsize", par.dy => (Ev.sp /\ Ev.se = step))
    /\ Clause("Ret:value-of-returned-point", par.mode = "adapt" => Ev.fret = flast)
    /\ Clause("Ret:no-worse-than-start", par.mode = "adapt" => (par.exact => Leq(Ev.fret, fstart)) /\ (0 \in DOMAIN fam => Leq(Ev.fret, fam[0].fs)))
    /\ Clause("Ret:no-worse-than-smaller-cap", par.mode = "adapt" => \A c \in Smaller : Leq(Ev.fret, fam[c].fs))
    /\ fam' = [c \in DOMAIN fam \cup {par.cap} |-> IF c = par.cap THEN [f |-> Ev.fret, fs |-> Ev.fs] ELSE fam[c]]

TNext == \/ TReset \/ TCall \/ TFunc0 \/ TGrad0 \/ TSwap \/ TOptimistic \/ TLoopExit \/ TEarlyReturn \/ TBeginAttempt
         \/ TProj \/ TProjSilent \/ TFuncCand \/ TTest \/ TAccept \/ TGradNew
         \/ TCGrad0 \/ TCLoopExit \/ TCStep \/ TCGrad \/ TReturn

TSpec == TInit /\ [][TNext]_tvars

\* progress register: longest matched prefix (workers = 1)
Track == TLCSet(42, IF l > TLCGet(42) THEN l ELSE TLCGet(42))
Accepted == IF TLCGet(42) = Len(TraceLog) + 1 THEN TRUE
            ELSE PrintT(<<"REJECTED_AT", TLCGet(42)>>) /\ FALSE

\* the clauses of C19 that are state predicates, evaluated in every state of every recorded execution
TInv == IterBound /\ ReturnsLastAccepted /\ Provenance /\ ProvenanceRet /\ BestShape /\ CapMonotone /\ NoWorseThanStart /\ ConstCount
=============================================================================
