------------------------------ MODULE OmpRegion ------------------------------
(***************************************************************************)
(* The OpenMP idioms TASMANIAN relies on, as interleaving models.          *)
(*                                                                         *)
(* Idiom A ("private buffers, critical append, sort/unique"):              *)
(*   #pragma omp parallel { local list; #pragma omp for ... local.append;  *)
(*                          #pragma omp critical { shared.append(local) } }*)
(*   followed by MultiIndexSet(shared) which sorts and removes duplicates  *)
(*   (selectFlaggedChildren, getRefinementCanidates, repeatAddIndexes,     *)
(*   completeSetToLower).                                                  *)
(* Idiom B ("per-thread maximum, critical merge"): getMaxIndexes.          *)
(*                                                                         *)
(* The loop iterations are distributed over the threads in ANY way (the    *)
(* schedule is not fixed) and the critical sections run in ANY order.      *)
(* The result must not depend on either.  With SORTED = FALSE the final    *)
(* sort is dropped (a deliberately broken variant): OrderIndependent fails.*)
(***************************************************************************)
EXTENDS Integers, Sequences, FiniteSets, TLC

CONSTANTS THREADS,     \* set of thread ids
          ITEMS,       \* loop iterations 1..ITEMS; iteration i produces the values Produces(i)
          SORTED       \* TRUE: the shared list is sorted and de-duplicated after the region

VARIABLES owner,       \* iteration -> thread that executed it (or 0: not yet executed)
          local,       \* thread -> sequence of produced values (private buffer)
          localmax,    \* thread -> running maximum (idiom B)
          shared,      \* shared list (idiom A)
          sharedmax,   \* shared maximum (idiom B)
          merged,      \* threads that have executed their critical section
          lock         \* holder of the critical section or 0

vars == <<owner, local, localmax, shared, sharedmax, merged, lock>>

\* what iteration i appends: two values, one of them shared with the next iteration (duplicates across threads)
Produces(i) == <<i, i + 1>>
AllValues == UNION {{Produces(i)[1], Produces(i)[2]} : i \in 1..ITEMS}
Max(S) == CHOOSE m \in S : \A x \in S : x <= m

Init == /\ owner = [i \in 1..ITEMS |-> 0]
        /\ local = [t \in THREADS |-> <<>>] /\ localmax = [t \in THREADS |-> 0]
        /\ shared = <<>> /\ sharedmax = 0 /\ merged = {} /\ lock = 0

\* a thread picks up any not yet executed iteration (any schedule), as long as it has not entered its critical section
Work(t, i) == /\ owner[i] = 0 /\ t \notin merged /\ lock # t
              /\ owner' = [owner EXCEPT ![i] = t]
              /\ local' = [local EXCEPT ![t] = local[t] \o Produces(i)]
              /\ localmax' = [localmax EXCEPT ![t] = IF Produces(i)[2] > localmax[t] THEN Produces(i)[2] ELSE localmax[t]]
              /\ UNCHANGED <<shared, sharedmax, merged, lock>>

\* the implicit barrier of "omp for": a thread reaches the critical section only when all iterations are taken
AllTaken == \A i \in 1..ITEMS : owner[i] # 0
Enter(t) == AllTaken /\ lock = 0 /\ t \notin merged /\ lock' = t /\ UNCHANGED <<owner, local, localmax, shared, sharedmax, merged>>
Merge(t) == /\ lock = t
            /\ shared' = shared \o local[t]
            /\ sharedmax' = IF localmax[t] > sharedmax THEN localmax[t] ELSE sharedmax
            /\ merged' = merged \cup {t} /\ lock' = 0
            /\ UNCHANGED <<owner, local, localmax>>

Next == \E t \in THREADS : (\E i \in 1..ITEMS : Work(t, i)) \/ Enter(t) \/ Merge(t)
Spec == Init /\ [][Next]_vars /\ WF_vars(Next)

Done == merged = THREADS

\* sort + unique of a sequence = the set of its values listed in increasing order
RECURSIVE SortSet(_)
SortSet(S) == IF S = {} THEN <<>> ELSE LET m == CHOOSE x \in S : \A y \in S : x <= y IN <<m>> \o SortSet(S \ {m})
Result == IF SORTED THEN SortSet({shared[k] : k \in 1..Len(shared)}) ELSE shared

\* the observable result of the region is the same for every schedule and every order of the critical sections
OrderIndependent == Done => Result = SortSet(AllValues)
MaxIndependent == Done => sharedmax = Max(AllValues)
MutualExclusion == lock \in THREADS \cup {0}
NothingLost == Done => {shared[k] : k \in 1..Len(shared)} = AllValues
Terminates == <>Done
=============================================================================
