SPECIFICATION TSpec
CONSTRAINT Track
INVARIANT TInv
PROPERTIES TNonIncreasing TBoundaryTransparent
POSTCONDITION Accepted
CHECK_DEADLOCK FALSE
