----------------------------- MODULE Checkpoint -----------------------------
(***************************************************************************)
(* Checkpoint / restart of TasGrid::constructSurrogate (property C17).     *)
(*                                                                         *)
(* Two files, `main` (= <name>) and `old` (= <name>_old).  A file is a     *)
(* sequence of blocks (the chunks that write(2) really landed) of one      *)
(* serialised state `st` (a set of samples) whose full length is `size`;   *)
(* it is a COMPLETE checkpoint iff all `size` units are present, the       *)
(* trailing sample block included.                                         *)
(*                                                                         *)
(* One life of the process mirrors the system calls the code issues        *)
(* (observed with harness/ckpt_shim.c):                                    *)
(*   recovery      open main (r) .. [open old (r) ..]                      *)
(*   initial ckpt  open main (w,trunc)  write*  close                      *)
(*   per batch     model calls, then                                       *)
(*     copy        open main (r)  open TARGET (w,trunc)  write*  close  close *)
(*     rewrite     open main (w,trunc)  write*  close                      *)
(* Every action below is exactly one of these operations, so `Crash`       *)
(* (enabled in every live state) kills between any two of them, and        *)
(* `CrashInWrite` kills inside a write leaving a strict prefix.            *)
(*                                                                         *)
(* SCHEME  "documented": TARGET = old, initial checkpoint always written   *)
(*         "either"    : documented or repaired (trace validation)         *)
(*         "coded"     : TARGET = main (the file the pinned code opens)    *)
(*         "repaired"  : documented, but a state recovered from main is    *)
(*                       not written over main again without a backup      *)
(* READER  "strict": a file parses iff it is complete; a failed parse      *)
(*                   leaves the caller's grid alone                        *)
(*         "coded" : the pinned reader - a failed parse after the magic    *)
(*                   clears the grid ("wipe"), may leave by an exception   *)
(*                   the recovery does not catch ("escape"), and a file    *)
(*                   torn inside the trailing sample block may be taken    *)
(*                   as complete ("partial")                               *)
(*                                                                         *)
(* Everything the environment decides (sample identities, lengths of the   *)
(* writes, torn lengths, how many finished samples the main thread         *)
(* collects in parallel mode) is a parameter of the actions: CheckpointMC  *)
(* enumerates them, CheckpointTrace takes them from a recorded execution.  *)
(***************************************************************************)
EXTENDS Integers, Sequences, FiniteSets

CONSTANTS SCHEME, READER,
          MAGIC,    \* units before which a parse fails without touching the grid   (READER = "coded")
          TAILU     \* units of the trailing sample block                            (READER = "coded")

VARIABLES env,        \* [budget, batch, par]
          main, old,  \* the two files
          pc,         \* "dead" | "rec_main" | "rec_old" | "init_open" | "init_write" | "loop" | "ck_openr" |
                      \* "ck_openw" | "ck_copy" | "ck_closer" | "ck_openm" | "ck_write" | "done" | "threw"
          have,       \* samples the live process holds (grid + not-yet-loaded storage)
          pending,    \* samples the model returned that the main thread has not collected yet
          from,       \* "none" | "main" | "old" : where this life recovered from
          wiped,      \* the failed parse of main cleared the caller's grid
          rec,        \* ghost: the state this life started from
          computed,   \* ghost: every sample the model ever produced (all lives)
          completed,  \* ghost: states of all checkpoints that completed
          lastDone,   \* ghost: state of the last checkpoint that completed
          mayRedo,    \* ghost: at the last crash, the samples obtained after lastDone
          redo,       \* ghost: samples this life computed although an earlier life had them
          crashes,    \* ghost: number of crashes so far
          partial     \* ghost: a torn file was accepted as a checkpoint

vars == <<env, main, old, pc, have, pending, from, wiped, rec, computed, completed, lastDone, mayRedo, redo, crashes, partial>>

NoFile == [ex |-> FALSE, st |-> {}, size |-> 0, blocks |-> <<>>]

RECURSIVE SumSeq(_)
SumSeq(s) == IF s = <<>> THEN 0 ELSE Head(s) + SumSeq(Tail(s))
Present(f)  == SumSeq(f.blocks)
Complete(f) == f.ex /\ f.size > 0 /\ Present(f) = f.size

CopyTarget == IF SCHEME = "coded" THEN "main" ELSE "old"
FileOf(n)  == IF n = "main" THEN main ELSE old
Fresh(st, sz) == [ex |-> TRUE, st |-> st, size |-> sz, blocks |-> <<>>]
Landed(f, n)  == [f EXCEPT !.blocks = Append(@, n)]

Live == pc \notin {"dead", "done", "threw"}
Running == pc \in {"init_open", "init_write", "loop", "ck_openr", "ck_openw", "ck_copy", "ck_closer", "ck_openm", "ck_write", "done"}

\* what is still to be written in the current session
LeftMain == main.size - Present(main)                     \* rewriting main (init_write, ck_write)
LeftCopy == Present(main) - Present(FileOf(CopyTarget))   \* copying main -> TARGET (ck_copy)

--------------------------------------------------------------------------
Init0(e) ==
    /\ env = e /\ main = NoFile /\ old = NoFile /\ pc = "dead"
    /\ have = {} /\ pending = {} /\ from = "none" /\ wiped = FALSE /\ rec = {}
    /\ computed = {} /\ completed = {} /\ lastDone = {} /\ mayRedo = {} /\ redo = {}
    /\ crashes = 0 /\ partial = FALSE

\* a fresh process calls constructSurrogate with the caller's grid and the same file name
Restart ==
    /\ pc = "dead"
    /\ pc' = "rec_main" /\ have' = {} /\ pending' = {} /\ from' = "none" /\ wiped' = FALSE /\ rec' = {} /\ redo' = {}
    /\ UNCHANGED <<env, main, old, computed, completed, lastDone, mayRedo, crashes, partial>>

\* ---- the reader
ParseOutcomes(f) ==
    IF Complete(f) THEN {"ok"}
    ELSE IF READER = "strict" THEN {"fail"}
    ELSE IF ~f.ex \/ Present(f) < MAGIC THEN {"fail"}
    ELSE IF Present(f) < f.size - TAILU THEN {"wipe", "escape"}
    ELSE {"escape", "partial"}

\* after a recovery from main the repaired scheme goes straight on (main already holds this state and old may
\* be unusable); the documented scheme writes the initial checkpoint over main.  "either" leaves the choice open:
\* trace validation accepts both protocols and judges the outcome.
AfterRecovery(src) ==
    IF src # "main" THEN {"init_open"}
    ELSE CASE SCHEME = "repaired" -> {"loop"}
           [] SCHEME = "either"   -> {"loop", "init_open"}
           [] OTHER               -> {"init_open"}

Adopt(f, src) == /\ have' = f.st /\ rec' = f.st /\ from' = src /\ pc' \in AfterRecovery(src)

\* open main for reading and parse it
RecoverMain(o) ==
    /\ pc = "rec_main" /\ o \in ParseOutcomes(main)
    /\ CASE o = "ok"      -> Adopt(main, "main") /\ UNCHANGED <<wiped, partial>>
         [] o = "partial" -> Adopt(main, "main") /\ partial' = TRUE /\ UNCHANGED wiped
         [] o = "fail"    -> pc' = "rec_old" /\ UNCHANGED <<have, rec, from, wiped, partial>>
         [] o = "wipe"    -> pc' = "rec_old" /\ wiped' = TRUE /\ UNCHANGED <<have, rec, from, partial>>
         [] o = "escape"  -> pc' = "threw" /\ UNCHANGED <<have, rec, from, wiped, partial>>
    /\ UNCHANGED <<env, main, old, pending, computed, completed, lastDone, mayRedo, redo, crashes>>

\* main was unusable: open old for reading and parse it; if that fails too start over from the caller's grid
RecoverOld(o) ==
    /\ pc = "rec_old" /\ o \in ParseOutcomes(old)
    /\ CASE o = "ok"      -> Adopt(old, "old") /\ UNCHANGED <<wiped, partial>>
         [] o = "partial" -> Adopt(old, "old") /\ partial' = TRUE /\ UNCHANGED wiped
         [] o = "fail"    -> /\ pc' = IF wiped THEN "threw" ELSE "init_open"
                             /\ UNCHANGED <<have, rec, from, wiped, partial>>
         [] o = "wipe"    -> pc' = "threw" /\ wiped' = TRUE /\ UNCHANGED <<have, rec, from, partial>>
         [] o = "escape"  -> pc' = "threw" /\ UNCHANGED <<have, rec, from, wiped, partial>>
    /\ UNCHANGED <<env, main, old, pending, computed, completed, lastDone, mayRedo, redo, crashes>>

\* ---- the initial checkpoint: open main (w, truncate), sz = length of the serialised state
InitOpen(sz) ==
    /\ pc = "init_open" /\ sz > 0
    /\ main' = Fresh(have, sz) /\ pc' = "init_write"
    /\ UNCHANGED <<env, old, have, pending, from, wiped, rec, computed, completed, lastDone, mayRedo, redo, crashes, partial>>

\* one write(2) of n units to main (initial checkpoint or rewrite); when the last unit has landed the
\* checkpoint has completed (no reordering below write/close: what was written is on the disk)
WriteMain(n) ==
    /\ pc \in {"init_write", "ck_write"} /\ n > 0 /\ n <= LeftMain
    /\ main' = Landed(main, n)
    /\ IF n = LeftMain THEN completed' = completed \cup {main.st} /\ lastDone' = main.st
                        ELSE UNCHANGED <<completed, lastDone>>
    /\ UNCHANGED <<env, old, pc, have, pending, from, wiped, rec, computed, mayRedo, redo, crashes, partial>>

\* close main after the last write
CloseMain ==
    /\ pc \in {"init_write", "ck_write"} /\ LeftMain = 0
    /\ pc' = "loop"
    /\ UNCHANGED <<env, main, old, have, pending, from, wiped, rec, computed, completed, lastDone, mayRedo, redo, crashes, partial>>

\* ---- the model produced sample s
Call(s) ==
    /\ IF env.par THEN pc \in {"loop", "ck_openr", "ck_openw", "ck_copy", "ck_closer", "ck_openm", "ck_write"}
                  ELSE pc = "loop" /\ Cardinality(pending) < env.batch
    /\ Cardinality(have \cup pending) < env.budget
    /\ s \notin have \cup pending
    /\ pending' = pending \cup {s}
    /\ computed' = computed \cup {s}
    /\ redo' = IF s \in computed THEN redo \cup {s} ELSE redo
    /\ UNCHANGED <<env, main, old, pc, have, from, wiped, rec, completed, lastDone, mayRedo, crashes, partial>>

\* the main thread takes the finished samples C and starts a checkpoint
Collect(C) ==
    /\ pc = "loop" /\ C # {} /\ C \subseteq pending
    /\ ~env.par => C = pending
    /\ have' = have \cup C /\ pending' = pending \ C /\ pc' = "ck_openr"
    /\ UNCHANGED <<env, main, old, from, wiped, rec, computed, completed, lastDone, mayRedo, redo, crashes, partial>>

\* ---- the checkpoint proper
CkOpenR ==      \* open main for reading
    /\ pc = "ck_openr" /\ pc' = "ck_openw"
    /\ UNCHANGED <<env, main, old, have, pending, from, wiped, rec, computed, completed, lastDone, mayRedo, redo, crashes, partial>>

CkOpenW ==      \* open TARGET for writing: truncates it
    /\ pc = "ck_openw" /\ pc' = "ck_copy"
    /\ IF CopyTarget = "old" THEN old' = Fresh(main.st, main.size) /\ UNCHANGED main
                             ELSE main' = Fresh(main.st, main.size) /\ UNCHANGED old
    /\ UNCHANGED <<env, have, pending, from, wiped, rec, computed, completed, lastDone, mayRedo, redo, crashes, partial>>

CopyWrite(n) == \* one write(2) of n units of main's present content to TARGET
    /\ pc = "ck_copy" /\ n > 0 /\ n <= LeftCopy
    /\ IF CopyTarget = "old" THEN old' = Landed(old, n) /\ UNCHANGED main
                             ELSE main' = Landed(main, n) /\ UNCHANGED old
    /\ UNCHANGED <<env, pc, have, pending, from, wiped, rec, computed, completed, lastDone, mayRedo, redo, crashes, partial>>

CopyClose ==    \* close TARGET
    /\ pc = "ck_copy" /\ LeftCopy = 0 /\ pc' = "ck_closer"
    /\ UNCHANGED <<env, main, old, have, pending, from, wiped, rec, computed, completed, lastDone, mayRedo, redo, crashes, partial>>

CkCloseR ==     \* close the read side
    /\ pc = "ck_closer" /\ pc' = "ck_openm"
    /\ UNCHANGED <<env, main, old, have, pending, from, wiped, rec, computed, completed, lastDone, mayRedo, redo, crashes, partial>>

CkOpenM(sz) ==  \* open main (w, truncate) for the new state
    /\ pc = "ck_openm" /\ sz > 0
    /\ main' = Fresh(have, sz) /\ pc' = "ck_write"
    /\ UNCHANGED <<env, old, have, pending, from, wiped, rec, computed, completed, lastDone, mayRedo, redo, crashes, partial>>

\* the budget is exhausted and everything is collected: constructSurrogate removes the backup (the main file holds
\* the last saved state; a later run that deletes only the main file to start over must not pick this one up) and returns
Finish ==
    /\ pc = "loop" /\ pending = {} /\ Cardinality(have) = env.budget
    /\ pc' = "done"
    /\ old' = IF SCHEME = "coded" THEN old ELSE NoFile
    /\ UNCHANGED <<env, main, have, pending, from, wiped, rec, computed, completed, lastDone, mayRedo, redo, crashes, partial>>

\* ---- the process dies
Die ==
    /\ pc' = "dead" /\ crashes' = crashes + 1
    /\ mayRedo' = computed \ lastDone
    /\ have' = {} /\ pending' = {} /\ redo' = {}
    /\ UNCHANGED <<env, from, wiped, rec, computed, completed, lastDone, partial>>

Crash == Live /\ pc # "dead" /\ Die /\ UNCHANGED <<main, old>>

\* killed inside a write of n units: only the first t (0 < t < n) units reach the file
CrashInWrite(n, t) ==
    /\ t > 0 /\ t < n
    /\ \/ /\ pc \in {"init_write", "ck_write"} /\ n <= LeftMain
          /\ main' = Landed(main, t) /\ UNCHANGED old
       \/ /\ pc = "ck_copy" /\ n <= LeftCopy
          /\ IF CopyTarget = "old" THEN old' = Landed(old, t) /\ UNCHANGED main
                                   ELSE main' = Landed(main, t) /\ UNCHANGED old
    /\ Die

--------------------------------------------------------------------------
(* The clauses of C17 as state predicates.                                 *)

\* a later call recovers from one of the two files, or starts from the caller's grid: never from anything else
RecoveredIsCheckpoint == Running => rec \in completed \cup {{}}

\* never a partial parse: a torn file is never taken for a checkpoint
NoPartialParse == ~partial

\* the restart itself succeeds
NoThrow == pc # "threw"

\* whatever a completed checkpoint held is still held after any number of crashes
NothingCheckpointedIsLost == Running => lastDone \subseteq have

\* re-computes at most the samples obtained after the last checkpoint that had completed before the crash
RecomputeBound == redo \subseteq mayRedo

\* finishes within the original budget, with everything computed in this life on board
FinishOK == pc = "done" => Cardinality(have) = env.budget /\ pending = {}

=============================================================================
