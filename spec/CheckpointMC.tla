---------------------------- MODULE CheckpointMC ----------------------------
(* Exhaustive exploration of Checkpoint.tla for small constants: every kill   *)
(* point between and inside the file-system operations (torn prefixes of      *)
(* every write), up to MAXCRASH crashes, every outcome the modelled reader    *)
(* can produce.  Samples are numbered in the order the (deterministic)        *)
(* sequential construction asks for them: a life always computes the          *)
(* smallest sample it does not hold.                                          *)
(*                                                                            *)
(* The history variable h (hidden from the VIEW) records where each crash     *)
(* happened in structural coordinates; with EMIT the ACTION_CONSTRAINT prints *)
(* one crash history per abstract crash edge (Gen configuration) - these are  *)
(* the crash points checks/c17.py replays on the real code.                   *)
EXTENDS Checkpoint, TLC, Json

CONSTANTS BUDGET, BATCH, NCHUNK, UNITS, MAXCRASH, EMIT

VARIABLES h,      \* crash descriptors so far
          ck,     \* checkpoints started in this life (0 = the initial one)
          wj      \* writes completed in the current session

mcvars == <<vars, h, ck, wj>>

SIZE == NCHUNK * UNITS
Env0 == [budget |-> BUDGET, batch |-> BATCH, par |-> FALSE]

NextSample == CHOOSE s \in 1..BUDGET : s \notin (have \cup pending) /\ \A r \in 1..(s - 1) : r \in (have \cup pending)

\* structural coordinates of the operation the process would perform next
Where ==
    CASE pc = "rec_main"   -> [ph |-> "rec",   op |-> "openmain"]
      [] pc = "rec_old"    -> [ph |-> "rec",   op |-> "openold"]
      [] pc = "init_open"  -> [ph |-> "init",  op |-> "open"]
      [] pc = "init_write" -> [ph |-> "init",  op |-> IF LeftMain > 0 THEN "write" ELSE "close"]
      [] pc = "loop"       -> [ph |-> "copy",  op |-> "openr"]     \* dies before the next checkpoint starts
      [] pc = "ck_openr"   -> [ph |-> "copy",  op |-> "openr"]
      [] pc = "ck_openw"   -> [ph |-> "copy",  op |-> "openw"]
      [] pc = "ck_copy"    -> [ph |-> "copy",  op |-> IF LeftCopy > 0 THEN "write" ELSE "closew"]
      [] pc = "ck_closer"  -> [ph |-> "copy",  op |-> "closer"]
      [] pc = "ck_openm"   -> [ph |-> "write", op |-> "open"]
      [] pc = "ck_write"   -> [ph |-> "write", op |-> IF LeftMain > 0 THEN "write" ELSE "close"]
      [] OTHER             -> [ph |-> "none",  op |-> "none"]

Desc(t) == [life |-> crashes + 1, ck |-> IF pc = "loop" THEN ck + 1 ELSE ck, ph |-> Where.ph, op |-> Where.op,
            j |-> wj + 1, of |-> NCHUNK, t |-> t, tof |-> UNITS, got |-> Cardinality(pending)]

MCInit == Init0(Env0) /\ h = <<>> /\ ck = 0 /\ wj = 0

Step(A) == A /\ UNCHANGED <<h, ck, wj>>

MCNext ==
    \/ Restart /\ ck' = 0 /\ wj' = 0 /\ UNCHANGED h
    \/ \E o \in {"ok", "partial", "fail", "wipe", "escape"} : Step(RecoverMain(o))
    \/ \E o \in {"ok", "partial", "fail", "wipe", "escape"} : Step(RecoverOld(o))
    \/ InitOpen(SIZE) /\ wj' = 0 /\ UNCHANGED <<h, ck>>
    \/ WriteMain(UNITS) /\ wj' = wj + 1 /\ UNCHANGED <<h, ck>>
    \/ Step(CloseMain)
    \/ Step(Call(NextSample))
    \/ /\ Cardinality(pending) = (IF BUDGET - Cardinality(have) < BATCH THEN BUDGET - Cardinality(have) ELSE BATCH)
       /\ Collect(pending) /\ ck' = ck + 1 /\ UNCHANGED <<h, wj>>
    \/ Step(CkOpenR)
    \/ CkOpenW /\ wj' = 0 /\ UNCHANGED <<h, ck>>
    \/ CopyWrite(UNITS) /\ wj' = wj + 1 /\ UNCHANGED <<h, ck>>
    \/ Step(CopyClose)
    \/ Step(CkCloseR)
    \/ CkOpenM(SIZE) /\ wj' = 0 /\ UNCHANGED <<h, ck>>
    \/ Step(Finish)
    \/ /\ crashes < MAXCRASH
       /\ \/ Crash /\ h' = Append(h, Desc(0))
          \/ \E t \in 1..(UNITS - 1) : CrashInWrite(UNITS, t) /\ h' = Append(h, Desc(t))
       /\ UNCHANGED <<ck, wj>>

MCSpec == MCInit /\ [][MCNext]_mcvars

AbstractView == <<vars, ck, wj>>

Emit == (EMIT /\ pc # "dead" /\ pc' = "dead") => PrintT(<<"CRASHES", ToJson(h')>>)

\* a life can always go on until constructSurrogate returns (unless the crash budget of the model is what stops it)
NoStuck == (pc \notin {"done", "threw"}) => ENABLED MCNext
=============================================================================
