SPECIFICATION TSpec
CONSTRAINT Track
INVARIANT TInv TLimits
POSTCONDITION Accepted
CHECK_DEADLOCK FALSE
