SPECIFICATION TSpec
CONSTRAINT Track
INVARIANT TInv
POSTCONDITION Accepted
CHECK_DEADLOCK FALSE
