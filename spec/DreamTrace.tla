----------------------------- MODULE DreamTrace -----------------------------
(* Trace validation for C15: an ndjson trace recorded from the real          *)
(* SampleDREAM (harness/dream_replay.cpp) must be a behaviour of Dream.tla.   *)
(* Every event carries its arguments, so the search is linear.  Steps the     *)
(* code takes without touching its environment (decisions without a draw,     *)
(* the commit, the skipped pdf call) are silent steps of the trace spec.      *)
(* Several executions are concatenated; a Reset event starts a new one.       *)
EXTENDS Dream, TLC, Json, IOUtils

TraceFile == IOEnv.TRACE
TraceLog == ndJsonDeserialize(TraceFile)

VARIABLE l
tvars == <<vars, l>>

ASSUME TLCSet(42, 0)
Ev == TraceLog[l]
IsEvent(e) == l <= Len(TraceLog) /\ Ev.e = e /\ l' = l + 1
Silent == l' = l

SetOf(s) == {s[m] : m \in 1..Len(s)}

TInit == /\ l = 1
         /\ InitWith([n |-> 0, d |-> 0, pdf |-> {}, logform |-> FALSE, upd |-> "user", mag |-> 0], <<>>)

TReset ==
    /\ pc = "idle" /\ IsEvent("Reset")
    /\ LET e == [n |-> Ev.n, d |-> Ev.d, pdf |-> SetOf(Ev.pdf), logform |-> Ev.logform, upd |-> Ev.upd, mag |-> Ev.mag]
       IN  /\ env' = e /\ st' = Ev.s0
           /\ \A m \in 1..Len(Ev.s0) : Ev.s0[m] \in {r.x : r \in e.pdf}    \* initial state inside the domain
    /\ pv' = <<>> /\ pvReady' = FALSE /\ hist' = <<>> /\ phist' = <<>> /\ acc' = 0
    /\ pc' = "idle" /\ ci' = 0 /\ burn' = 0 /\ coll' = 0
    /\ prop' = <<>> /\ vals' = <<>> /\ vi' = 1 /\ newst' = <<>> /\ newpv' = <<>> /\ accn' = 0
    /\ pick' = <<1, 1>> /\ wanted' = 0

\* the user replaces the chain states between two runs: the cached probability values are those of the old positions
TSetState ==
    /\ pc = "idle" /\ IsEvent("SetState")
    /\ st' = Ev.st /\ pv' = <<>> /\ pvReady' = FALSE
    /\ \A m \in 1..Len(Ev.st) : Ev.st[m] \in {r.x : r \in env.pdf}
    /\ UNCHANGED <<env, hist, phist, acc, pc, ci, burn, coll, prop, vals, vi, newst, newpv, accn, pick, wanted>>

\* entering SampleDREAM; when the pdf cache is cold the next event is the initial pdf call
TStart ==
    /\ IsEvent("Start") /\ StartRun(Ev.b, Ev.c)
    /\ ~pvReady => /\ l + 1 <= Len(TraceLog)
                   /\ TraceLog[l + 1].e = "Pdf"
                   /\ TraceLog[l + 1].x = st /\ TraceLog[l + 1].v = pv'

\* the initial pdf call itself (already accounted for by TStart)
TInitialPdf ==
    /\ IsEvent("Pdf") /\ l > 1 /\ TraceLog[l - 1].e = "Start"
    /\ UNCHANGED vars

Delta ==
    CASE env.upd = "user"    -> [m \in 1..env.d |-> Ev.out[m] - Ev.in[m]]
      [] env.upd = "none"    -> Zero
      [] env.upd = "uniform" -> IF env.mag = 0 THEN Zero ELSE UniformDelta(Ev.ru)   \* magnitude 0: no draws at all
      [] env.upd = "gauss"   -> Zero      \* only radius draws equal to one are generated: update is exactly zero

TProp ==
    /\ IsEvent("Prop") /\ pc = "prop"
    /\ Ev.i = ci - 1 /\ Ev.n = env.n
    /\ env.upd = "uniform" => Len(Ev.ru) = (IF env.mag = 0 THEN 0 ELSE env.d)
    /\ env.upd \in {"none", "user"} => Len(Ev.ru) = 0
    /\ Propose(Ev.rj, Ev.rk, Ev.w, Delta)
    /\ Ev.j = pick'[1] - 1 /\ Ev.k = pick'[2] - 1                 \* the indexes the code used are the clamped ones
    /\ Ev.out = prop'[ci].x /\ Ev.ok = prop'[ci].ok                  \* the proposal and its domain verdict
    /\ env.upd = "user" => Ev.in = VAdd(st[ci], VMul(Ev.w, VSub(st[pick'[2]], st[pick'[1]])))

TEvalPdf ==
    /\ IsEvent("Pdf") /\ pc = "eval" /\ Cands # <<>>
    /\ EvalBatch
    /\ Ev.x = [m \in 1..Len(Cands) |-> Cands[m].x]      \* only in-domain proposals reach the pdf
    /\ Ev.v = vals'

TEvalNone == Silent /\ pc = "eval" /\ Cands = <<>> /\ EvalBatch

TDecideDraw == IsEvent("Acc") /\ NeedsDraw /\ Decide(Ev.r)
TDecideSilent == Silent /\ pc = "dec" /\ ~NeedsDraw /\ Decide(0)
TCommit == Silent /\ Commit

TEnd ==
    /\ IsEvent("End") /\ pc = "idle"
    /\ Ev.st = st /\ Ev.pv = pv /\ Ev.hist = hist /\ Ev.phist = phist /\ Ev.acc = acc
    /\ UNCHANGED vars

TNext == TReset \/ TSetState \/ TStart \/ TInitialPdf \/ TProp \/ TEvalPdf \/ TEvalNone \/ TDecideDraw \/ TDecideSilent \/ TCommit \/ TEnd

TSpec == TInit /\ [][TNext]_tvars

\* progress register: longest matched prefix (workers = 1)
Track == TLCSet(42, IF l > TLCGet(42) THEN l ELSE TLCGet(42))
Accepted == IF TLCGet(42) = Len(TraceLog) + 1 THEN TRUE
            ELSE PrintT(<<"REJECTED_AT", TLCGet(42)>>) /\ FALSE

\* the clauses of C15, evaluated in every state of every recorded execution
TInv == (env.n > 0) => (IndexInRange /\ InDomain /\ PdfCoherent /\ HistoryLength /\ AcceptedBound)
=============================================================================
