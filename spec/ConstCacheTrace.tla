--------------------------- MODULE ConstCacheTrace ---------------------------
(* Conformance for C12.  Input: ndjson written by harness/const_threads_trace  *)
(* (one object per execution): the hook events of the sequential preparation   *)
(* of the grid, and for every thread the list of const calls it made, each     *)
(* with the hook events it emitted (thread-local sequence numbers) and the     *)
(* `eq` bit (concurrent result = result of the same call made alone).          *)
(*                                                                             *)
(* (i)   Grammar: every recorded call must be a behaviour of the per-operation *)
(*       access grammar of ConstCache.tla (which calls may touch which cell,   *)
(*       in which order, build iff the check said absent, no gaps in the       *)
(*       sequence numbers); the shape of the events also tells which           *)
(*       discipline (pinned / locked / local / dcl) the code implements.       *)
(* (ii)  The operations - not the recorded access lists - are then executed by *)
(*       the ConstCache model from the cache state the preparation left        *)
(*       behind: TLC explores ALL interleavings of the recorded per-thread     *)
(*       programs; what a thread does after its check depends on what it       *)
(*       observes in that interleaving.  NoConflict / ResultsSequential are    *)
(*       evaluated in every state.  The recorded run itself must be one of the *)
(*       explored behaviours (same check outcomes): Witnessed.                 *)
(* (iii) every recorded `eq` bit must be true (for calls whose result when run *)
(*       alone is well defined: `det`, two identical twins agree on it).        *)
(* Calls without cache segments touch immutable data only; they commute with   *)
(* every step and are left out of the model programs.                          *)
EXTENDS ConstCache, Json, IOUtils

Execs == ndJsonDeserialize(IOEnv.TRACE)
NE == Len(Execs)

VARIABLES e,      \* the execution being explored
          agree   \* all checks so far observed what the recorded run observed
tvars == <<vars, e, agree>>

-----------------------------------------------------------------------------
\* (i) grammar

CacheFamilies == {"wavelet"}                  \* families with a hooked cache cell
HookId == [giw |-> 2, gqw |-> 1, gdw |-> 3, int |-> 1]
QueryOps == {"giw", "gqw", "gdw"}             \* exactly one cache segment
MaybeOps == {"int"}                           \* integrate goes through the quadrature weights under a conformal map

Pre(ev, pat) == /\ Len(ev) >= Len(pat)
                /\ \A i \in 1..Len(pat) : ev[i].n = pat[i] /\ ev[i].c = ev[1].c
                /\ ev[1].c \in Cells

BadSeg == [disc |-> "bad", cell |-> 0, saw |-> "none", len |-> 1, o |-> 0]
MkSeg(d, ev, sw, len, oi) == [disc |-> d, cell |-> ev[1].c, saw |-> sw, len |-> len, o |-> ev[oi].o]

\* "unlocked" + present cannot be told apart between pinned / local / dcl: resolved per execution below
OneSeg(ev) ==
    CASE Pre(ev, <<"chk", "ub", "ue">>) /\ ev[1].p = 1 /\ ev[2].o = ev[3].o                  -> MkSeg("unlocked", ev, "present", 3, 2)
      [] Pre(ev, <<"chk", "bb", "be", "ub", "ue">>) /\ ev[1].p = 0 /\ ev[4].o = ev[5].o      -> MkSeg("pinned", ev, "absent", 5, 4)
      [] Pre(ev, <<"lk", "chk", "ul", "ub", "ue">>) /\ ev[2].p = 1 /\ ev[4].o = ev[5].o      -> MkSeg("locked", ev, "present", 5, 4)
      [] Pre(ev, <<"lk", "chk", "bb", "be", "ul", "ub", "ue">>) /\ ev[2].p = 0 /\ ev[6].o = ev[7].o -> MkSeg("locked", ev, "absent", 7, 6)
      [] Pre(ev, <<"chk", "lbb", "lbe">>) /\ ev[1].p = 0                                     -> MkSeg("local", ev, "absent", 3, 1)
      [] Pre(ev, <<"chk", "lk", "bb", "be", "ul", "ub", "ue">>) /\ ev[1].p = 0 /\ ev[6].o = ev[7].o -> MkSeg("dcl", ev, "absent", 7, 6)
      [] OTHER -> BadSeg

RECURSIVE ParseSegs(_)
ParseSegs(ev) ==
    IF ev = <<>> THEN <<>>
    ELSE LET s == OneSeg(ev) IN
         IF s.disc = "bad" THEN <<s>> ELSE <<s>> \o ParseSegs(SubSeq(ev, s.len + 1, Len(ev)))

NT(x) == Len(Execs[x].threads)
Calls(x, t) == Execs[x].threads[t]
Parsed == [x \in 1..NE |-> [t \in 1..NT(x) |-> [k \in 1..Len(Calls(x, t)) |-> ParseSegs(Calls(x, t)[k].ev)]]]

SeqOK(x, t, k) ==
    LET c == Calls(x, t)[k] IN
    /\ c.s0 = (IF k = 1 THEN 0 ELSE Calls(x, t)[k - 1].s1 + 1)
    /\ c.s1 = c.s0 + Len(c.ev) + 1
    /\ \A i \in 1..Len(c.ev) : c.ev[i].s = c.s0 + i
    /\ c.k = k

ShapeOK(x, t, k) == \A j \in 1..Len(Parsed[x][t][k]) : Parsed[x][t][k][j].disc # "bad"

OpGrammarOK(x, t, k) ==
    LET c == Calls(x, t)[k]  sg == Parsed[x][t][k] IN
    IF Execs[x].fam \notin CacheFamilies THEN c.ev = <<>>
    ELSE CASE c.op \in QueryOps -> Len(sg) = 1 /\ sg[1].o = HookId[c.op]
           [] c.op \in MaybeOps -> sg = <<>> \/ (Len(sg) = 1 /\ sg[1].o = HookId[c.op])
           [] OTHER -> c.ev = <<>>

OpErr(x, t, k) == IF ~SeqOK(x, t, k) THEN "seq"
                  ELSE IF ~ShapeOK(x, t, k) THEN "shape"
                  ELSE IF ~OpGrammarOK(x, t, k) THEN "opgrammar" ELSE "ok"

OpErrs(x) == {r \in UNION {{<<t, k, OpErr(x, t, k)>> : k \in 1..Len(Calls(x, t))} : t \in 1..NT(x)} : r[3] # "ok"}

\* the sequential preparation (thread 0) leaves the cell absent or present
RECURSIVE PrepFold(_, _, _)
PrepFold(ev, i, s) ==
    IF i > Len(ev) \/ s = "bad" THEN s
    ELSE LET v == ev[i]
             nx == CASE v.s # i - 1 -> "bad"
                     [] v.n = "chk" -> IF v.p = (IF s = "present" THEN 1 ELSE 0) /\ s # "building" THEN s ELSE "bad"
                     [] v.n = "bb"  -> IF s = "absent" THEN "building" ELSE "bad"
                     [] v.n = "be"  -> IF s = "building" THEN "present" ELSE "bad"
                     [] v.n \in {"ub", "ue"} -> IF s = "present" THEN s ELSE "bad"
                     [] v.n = "inv" -> IF s = "building" THEN "bad" ELSE "absent"
                     [] v.n \in {"lk", "ul"} -> s
                     [] OTHER -> "bad"
         IN PrepFold(ev, i + 1, nx)
PrepState == [x \in 1..NE |-> PrepFold(Execs[x].prep, 1, "absent")]

ExecErr(x) ==
    IF ~Execs[x].complete THEN <<"crash", Execs[x].sig>>
    ELSE IF NT(x) > Cardinality(Threads) \/ NT(x) # Execs[x].nt THEN <<"threads", NT(x)>>
    ELSE IF \E t \in 1..NT(x) : Len(Calls(x, t)) > 10 THEN <<"toolong", 0>>
    ELSE IF PrepState[x] \notin {"absent", "present"} THEN <<"prep", 0>>
    ELSE IF OpErrs(x) # {} THEN CHOOSE r \in OpErrs(x) : \A q \in OpErrs(x) : r[1] < q[1] \/ (r[1] = q[1] /\ r[2] <= q[2])
    ELSE <<"ok">>
GErr == [x \in 1..NE |-> ExecErr(x)]
GOK(x) == GErr[x] = <<"ok">>

\* (iii) the recorded result bits
NotEq == [x \in 1..NE |-> IF GOK(x) THEN UNION {{<<t, k>> : k \in {kk \in 1..Len(Calls(x, t)) : Calls(x, t)[kk].det /\ ~Calls(x, t)[kk].eq}} : t \in 1..NT(x)} ELSE {}]

-----------------------------------------------------------------------------
\* (ii) the model programs

SegSet(x) == UNION {UNION {{Parsed[x][t][k][j] : j \in 1..Len(Parsed[x][t][k])} : k \in 1..Len(Calls(x, t))} : t \in 1..NT(x)}
UnlockedDisc(x) ==
    LET ds == {s.disc : s \in {q \in SegSet(x) : q.disc \in {"pinned", "local", "dcl"}}} IN
    IF Cardinality(ds) = 1 THEN CHOOSE d \in ds : TRUE ELSE "pinned"
DiscOf(x, s) == IF s.disc = "unlocked" THEN UnlockedDisc(x) ELSE s.disc

RECURSIVE CacheCalls(_, _, _)
CacheCalls(x, t, k) ==      \* indexes of the calls of thread t that have cache segments
    IF k > Len(Calls(x, t)) THEN <<>>
    ELSE (IF Parsed[x][t][k] # <<>> THEN <<k>> ELSE <<>>) \o CacheCalls(x, t, k + 1)

ProgOf(x) ==
    [t \in Threads |->
        IF ~GOK(x) \/ t > NT(x) THEN <<>>
        ELSE LET ks == CacheCalls(x, t, 1) IN
             [i \in 1..Len(ks) |-> [id |-> ks[i],
                                    segs |-> [j \in 1..Len(Parsed[x][t][ks[i]]) |->
                                                 [disc |-> DiscOf(x, Parsed[x][t][ks[i]][j]), cell |-> Parsed[x][t][ks[i]][j].cell]]]]]
Progs == [x \in 1..NE |-> ProgOf(x)]

RecSaw(x, t, opi, j) == Parsed[x][t][Progs[x][t][opi].id][j].saw

ASSUME \A x \in 1..NE : TLCSet(100 + x, FALSE)

TInit == \E x \in 1..NE :
    /\ e = x /\ agree = TRUE
    /\ InitWith(Progs[x], [c \in Cells |-> IF GOK(x) THEN PrepState[x] ELSE "absent"])

TNext ==
    /\ Next
    /\ e' = e
    /\ agree' = (agree /\ \A t \in Threads : (pc'[t] # pc[t] /\ pc'[t].at = "c1") => saw'[t] = RecSaw(e, t, pc'[t].op, pc'[t].seg))

TSpec == TInit /\ [][TNext]_tvars

\* the recorded run is one of the explored behaviours (workers = 1)
Track == IF Done /\ agree THEN TLCSet(100 + e, TRUE) ELSE TRUE
Witnessed == \A x \in 1..NE : TLCGet(100 + x) \/ ~GOK(x) \/ (PrintT(<<"NO_WITNESS", Execs[x].x>>) /\ FALSE)

-----------------------------------------------------------------------------
\* verdicts (each prints what python needs to name the offending call)

Grammar == GOK(e) \/ (PrintT(<<"REJECTED", Execs[e].x, GErr[e]>>) /\ FALSE)

ResultsRecorded ==
    NotEq[e] = {} \/ (LET r == CHOOSE r \in NotEq[e] : TRUE IN PrintT(<<"RESULT_DIFFERS", Execs[e].x, r[1], r[2]>>) /\ FALSE)

ConflictInfo == LET r == CHOOSE r \in Conflicts : TRUE IN
                <<r[3], r[1], CurOp(r[1]).id, pc[r[1]].at, r[2], CurOp(r[2]).id, pc[r[2]].at>>
NoConflictT == NoConflict \/ (PrintT(<<"CONFLICT", Execs[e].x, ConflictInfo>>) /\ FALSE)

ResultsSequentialT == ResultsSequential \/ (PrintT(<<"MODEL_RESULT_BAD", Execs[e].x>>) /\ FALSE)
=============================================================================
