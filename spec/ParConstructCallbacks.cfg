SPECIFICATION CSpec
CONSTANT HUGE = 2000000
CONSTRAINT Track
INVARIANTS CAtMostOnce CBudgetOK CNoSameThreadConcurrent CValueAtItsPoint
POSTCONDITION Accepted
CHECK_DEADLOCK FALSE
