SPECIFICATION CSpec
CONSTANT HUGE = 2000000
CONSTRAINT Track
INVARIANTS CAtMostOnce CBudgetOK CNoSameThreadConcurrent CValueAtItsPoint CSurrogateReproduces
POSTCONDITION Accepted
CHECK_DEADLOCK FALSE
