---------------------------- MODULE LoadNeededPar ----------------------------
(***************************************************************************)
(* The threaded TasGrid::loadNeededValues (Addons/tsgLoadNeededValues.hpp):*)
(* nt worker threads share the work queue checked_out[0..ns-1] under one   *)
(* mutex.  Each worker keeps a private cursor `sample` that only moves     *)
(* forward:                                                                *)
(*   do { { lock; while (sample < n && checked_out[sample]) sample++;      *)
(*          if (sample < n) checked_out[sample] = true; }                  *)
(*        if (sample < n) model(x[sample], y[sample], thread_id);          *)
(*   } while (sample < n);                                                 *)
(* main joins all workers and calls grid.loadNeededPoints(values).         *)
(* With num_threads = 0 (or the sequential template) main calls the model  *)
(* itself for i = 0..n-1 with thread id 0.                                 *)
(* One action per critical section / callback entry / callback exit.       *)
(* The value of the model at sample s is the identifier s.                 *)
(***************************************************************************)
EXTENDS Integers, FiniteSets

VARIABLES lcfg,     \* [nt, ns, par]
          checked,  \* checked_out
          sample,   \* private cursor of every worker
          pct,      \* "find" | "model" | "in_model" | "exit" per worker
          vals,     \* the values array: sample -> value or NoVal
          grid,     \* what loadNeededPoints received (empty function before)
          pcl,      \* main: "spawn" | "join" | "seq" | "seq_in" | "done"
          si,       \* sequential cursor
          cnt,      \* ghost: number of model calls per sample
          lactive   \* ghost: model calls in progress per thread id

lvars == <<lcfg, checked, sample, pct, vals, grid, pcl, si, cnt, lactive>>

NoVal == 0 - 1
T == 0..(lcfg.nt - 1)
S == 0..(lcfg.ns - 1)
TIds == 0..((IF lcfg.nt > 0 THEN lcfg.nt ELSE 1) - 1)

LFresh(c) == [checked |-> [s \in 0..(c.ns - 1) |-> FALSE],
              sample  |-> [t \in 0..(c.nt - 1) |-> 0],
              pct     |-> [t \in 0..(c.nt - 1) |-> "idle"],
              vals    |-> [s \in 0..(c.ns - 1) |-> NoVal],
              cnt     |-> [s \in 0..(c.ns - 1) |-> 0],
              lactive |-> [t \in 0..((IF c.nt > 0 THEN c.nt ELSE 1) - 1) |-> 0]]

LInitWith(c) ==
    LET f == LFresh(c) IN
    /\ lcfg = c /\ checked = f.checked /\ sample = f.sample /\ pct = f.pct /\ vals = f.vals
    /\ grid = <<>> /\ pcl = "spawn" /\ si = 0 /\ cnt = f.cnt /\ lactive = f.lactive

LResetTo(c) ==
    LET f == LFresh(c) IN
    /\ lcfg' = c /\ checked' = f.checked /\ sample' = f.sample /\ pct' = f.pct /\ vals' = f.vals
    /\ grid' = <<>> /\ pcl' = "spawn" /\ si' = 0 /\ cnt' = f.cnt /\ lactive' = f.lactive

\* main creates the workers (or takes the sequential branch); nothing to do for an empty grid
Spawn ==
    /\ pcl = "spawn"
    /\ IF lcfg.ns = 0 THEN pcl' = "done" /\ UNCHANGED pct
       ELSE IF lcfg.par /\ lcfg.nt > 0
            THEN pcl' = "join" /\ pct' = [t \in T |-> "find"]
            ELSE pcl' = "seq" /\ UNCHANGED pct
    /\ UNCHANGED <<lcfg, checked, sample, vals, grid, si, cnt, lactive>>

\* the critical section: advance the private cursor to the first sample that is not checked out, take it
Find(t) ==
    /\ pct[t] = "find"
    /\ LET rest == {s \in S : s >= sample[t] /\ ~checked[s]}
           nx   == IF rest = {} THEN lcfg.ns ELSE CHOOSE s \in rest : \A r \in rest : s <= r
       IN  /\ sample' = [sample EXCEPT ![t] = nx]
           /\ IF nx < lcfg.ns
                THEN checked' = [checked EXCEPT ![nx] = TRUE] /\ pct' = [pct EXCEPT ![t] = "model"]
                ELSE UNCHANGED checked /\ pct' = [pct EXCEPT ![t] = "exit"]
    /\ UNCHANGED <<lcfg, vals, grid, pcl, si, cnt, lactive>>

ModelBegin(t) ==
    /\ pct[t] = "model"
    /\ cnt' = [cnt EXCEPT ![sample[t]] = @ + 1]
    /\ lactive' = [lactive EXCEPT ![t] = @ + 1]
    /\ pct' = [pct EXCEPT ![t] = "in_model"]
    /\ UNCHANGED <<lcfg, checked, sample, vals, grid, pcl, si>>

\* v: what the model wrote into y = values + sample * num_outputs
ModelEnd(t, v) ==
    /\ pct[t] = "in_model"
    /\ vals' = [vals EXCEPT ![sample[t]] = v]
    /\ lactive' = [lactive EXCEPT ![t] = @ - 1]
    /\ pct' = [pct EXCEPT ![t] = "find"]
    /\ UNCHANGED <<lcfg, checked, sample, grid, pcl, si, cnt>>

\* join all workers, then grid.loadNeededPoints(values)
JoinLoad ==
    /\ pcl = "join" /\ \A t \in T : pct[t] = "exit"
    /\ grid' = vals /\ pcl' = "done"
    /\ UNCHANGED <<lcfg, checked, sample, pct, vals, si, cnt, lactive>>

SeqBegin ==
    /\ pcl = "seq" /\ si < lcfg.ns
    /\ cnt' = [cnt EXCEPT ![si] = @ + 1] /\ lactive' = [lactive EXCEPT ![0] = @ + 1]
    /\ pcl' = "seq_in"
    /\ UNCHANGED <<lcfg, checked, sample, pct, vals, grid, si>>

SeqEnd(v) ==
    /\ pcl = "seq_in"
    /\ vals' = [vals EXCEPT ![si] = v] /\ lactive' = [lactive EXCEPT ![0] = @ - 1]
    /\ si' = si + 1 /\ pcl' = "seq"
    /\ UNCHANGED <<lcfg, checked, sample, pct, grid, cnt>>

SeqLoad ==
    /\ pcl = "seq" /\ si = lcfg.ns
    /\ grid' = vals /\ pcl' = "done"
    /\ UNCHANGED <<lcfg, checked, sample, pct, vals, si, cnt, lactive>>

------------------------------------------------------------------------------
\* the model is called at most once per sample, and never twice at a time with one thread id
LAtMostOnce == \A s \in S : cnt[s] <= 1
LNoSameThreadConcurrent == \A t \in TIds : lactive[t] <= 1
\* a sample is computed only after it was checked out, by the one thread that took it
LCheckedFirst == \A s \in S : cnt[s] > 0 => (checked[s] \/ ~(lcfg.par /\ lcfg.nt > 0))
LDistinctSamples == \A t, u \in T : (t # u /\ pct[t] \in {"model", "in_model"} /\ pct[u] \in {"model", "in_model"}) => sample[t] # sample[u]
\* on return every sample was computed exactly once and the grid holds its value at its place
LFinalOK == (pcl = "done" /\ lcfg.ns > 0) =>
               /\ \A s \in S : cnt[s] = 1
               /\ grid = [s \in S |-> s]
LSafety == LAtMostOnce /\ LNoSameThreadConcurrent /\ LCheckedFirst /\ LDistinctSamples /\ LFinalOK
=============================================================================
