SPECIFICATION Spec
CONSTANTS
  D = 2
  MAXW = 3
  MAXLIM = 2
  MAXMG = 4
  START = 2
  CAP = 40
  EXITRULE = "pinned"
INVARIANTS Terminates NeedWithinLimits SaturatedProposesNothing
PROPERTIES EventuallyDone
CHECK_DEADLOCK FALSE
