--------------------------- MODULE GradDescentMC ---------------------------
(* Exhaustive exploration of GradDescent.tla in exact mode, one dimension:    *)
(* every iteration cap in CAPS, every step parameter, every objective value    *)
(* the environment may answer for a trial point (relative to the current      *)
(* value: DFS), every gradient (GS), identity or box projection, every        *)
(* tolerance.  Whether an attempt passes is computed by the descent test, so  *)
(* all pass / fail patterns that some objective can produce are covered.      *)
(* Numbers are numerators over UNIT.  cfg files cannot hold negative numbers: *)
(* sets are given shifted by the *OFF constants.                              *)
(* History variable h (hidden by the VIEW) + ACTION_CONSTRAINT Emit print one *)
(* environment script per abstract return state (Gen configuration).          *)
EXTENDS GradDescent, TLC, Json

CONSTANTS MODES,            \* subset of {"adapt", "const"}
          CAPS, UNIT,
          INCS, DECS,       \* exponents of the increase / decrease coefficients
          E0N, E0OFF,       \* initial step exponents  e - E0OFF
          GN, GOFF,         \* gradients               n - GOFF
          DFN, DFOFF,       \* value differences       n - DFOFF
          TOLN,             \* tolerances              n - 1   (so 0 stands for a negative tolerance)
          PROJS,            \* subset of BOOLEAN: with a box projection / plain
          BOX,              \* the box is [-BOX, BOX]
          X0N, X0OFF,       \* starting points         n - X0OFF
          EMIT

VARIABLES h, started

E0S == {n - E0OFF : n \in E0N}
GS  == {n - GOFF : n \in GN}
DFS == {n - DFOFF : n \in DFN}
TOLS == {n - 1 : n \in TOLN}
X0S == {n - X0OFF : n \in X0N}

Clamp(n) == IF n > BOX THEN BOX ELSE IF n < 0 - BOX THEN 0 - BOX ELSE n
Par(mode, cap, inc, dec, tol, pj) ==
    [mode |-> mode, exact |-> TRUE, dy |-> TRUE, cap |-> cap, inc |-> inc, dec |-> dec, tol |-> tol, proj |-> pj, unit |-> UNIT]

MCInit == InitIdle /\ h = <<>> /\ started = FALSE

MCEnter ==
    /\ ~started /\ started' = TRUE /\ "adapt" \in MODES
    /\ \E cap \in CAPS, inc \in INCS, dec \in DECS, e0 \in E0S, tol \in TOLS, pj \in PROJS, xs \in X0S :
          /\ pj => Clamp(xs) = xs                      \* feasible starting point
          /\ Enter(Par("adapt", cap, inc, dec, tol, pj), <<<<xs>>>>, e0)
          /\ h' = <<[a |-> "call", mode |-> "adapt", cap |-> cap, inc |-> inc, dec |-> dec, e0 |-> e0, tol |-> tol,
                     proj |-> pj, box |-> BOX, x0 |-> xs, unit |-> UNIT]>>
MCCEnter ==
    /\ ~started /\ started' = TRUE /\ "const" \in MODES
    /\ \E cap \in CAPS, e0 \in E0S, tol \in TOLS, xs \in X0S :
          /\ CEnter(Par("const", cap, 0, 0, tol, FALSE), <<<<xs>>>>, e0)
          /\ h' = <<[a |-> "call", mode |-> "const", cap |-> cap, inc |-> 0, dec |-> 0, e0 |-> e0, tol |-> tol,
                     proj |-> FALSE, box |-> BOX, x0 |-> xs, unit |-> UNIT]>>

MCEvalStart == EvalStart(<<0>>) /\ h' = Append(h, [a |-> "f", v |-> 0]) /\ UNCHANGED started
MCGradStart == \E g \in GS : GradStart(<<<<g>>>>) /\ h' = Append(h, [a |-> "g", v |-> g]) /\ UNCHANGED started
MCSwap == Swap /\ UNCHANGED <<h, started>>
MCOptimistic == Optimistic /\ UNCHANGED <<h, started>>
MCLoopExit == LoopExit /\ UNCHANGED <<h, started>>
MCEarlyReturn == EarlyReturn /\ UNCHANGED <<h, started>>
MCBeginAttempt == BeginAttempt /\ UNCHANGED <<h, started>>
MCProject ==
    /\ pc = "proj" /\ ZOnLattice
    /\ Project(ZExact, IF par.proj THEN <<<<Clamp(ZExact[1][1])>>>> ELSE ZExact)
    /\ UNCHANGED <<h, started>>
MCEvalCand == /\ pc = "func"
              /\ \E df \in DFS : EvalCand(<<fx0[1] + df>>) /\ h' = Append(h, [a |-> "f", v |-> fx0[1] + df])
              /\ UNCHANGED started
MCTestPass == pc = "test" /\ DescentOK /\ Test(TRUE) /\ UNCHANGED <<h, started>>
MCTestFail == pc = "test" /\ ~DescentOK /\ Test(FALSE) /\ UNCHANGED <<h, started>>
MCAccept == Accept /\ UNCHANGED <<h, started>>
MCGradStop == /\ pc = "grad"
              /\ \E g \in GS : ResidualOK(<<<<g>>>>) /\ GradNew(<<<<g>>>>, TRUE) /\ h' = Append(h, [a |-> "g", v |-> g])
              /\ UNCHANGED started
MCGradGo   == /\ pc = "grad"
              /\ \E g \in GS : ~ResidualOK(<<<<g>>>>) /\ GradNew(<<<<g>>>>, FALSE) /\ h' = Append(h, [a |-> "g", v |-> g])
              /\ UNCHANGED started
MCReturn == Return /\ UNCHANGED <<h, started>>

MCCGrad0 == \E g \in GS : CGrad0(<<<<g>>>>) /\ h' = Append(h, [a |-> "g", v |-> g]) /\ UNCHANGED started
MCCLoopExit == CLoopExit /\ UNCHANGED <<h, started>>
MCCStep == pc = "ctop" /\ Continue /\ CStepOnLattice /\ CStep(CStepExact) /\ UNCHANGED <<h, started>>
MCCGradSmall == /\ pc = "cgrad"
                /\ \E g \in GS : SmallExact(<<<<g>>>>) /\ CGrad(<<<<g>>>>, TRUE) /\ h' = Append(h, [a |-> "g", v |-> g])
                /\ UNCHANGED started
MCCGradBig   == /\ pc = "cgrad"
                /\ \E g \in GS : ~SmallExact(<<<<g>>>>) /\ CGrad(<<<<g>>>>, FALSE) /\ h' = Append(h, [a |-> "g", v |-> g])
                /\ UNCHANGED started

MCNext == \/ MCEnter \/ MCCEnter \/ MCEvalStart \/ MCGradStart \/ MCSwap \/ MCOptimistic \/ MCLoopExit
          \/ MCEarlyReturn \/ MCBeginAttempt \/ MCProject \/ MCEvalCand \/ MCTestPass \/ MCTestFail \/ MCAccept
          \/ MCGradStop \/ MCGradGo \/ MCReturn
          \/ MCCGrad0 \/ MCCLoopExit \/ MCCStep \/ MCCGradSmall \/ MCCGradBig

MCSpec == MCInit /\ [][MCNext]_<<vars, h, started>>

AbstractView == <<vars, started>>
Emit == (EMIT /\ pc = "ret") => PrintT(<<"SCRIPT", ToJson(h')>>)

\* the call can always be completed, unless the next trial point leaves the lattice (those paths are cut)
NoStuck == (started /\ pc # "idle") =>
              \/ ENABLED MCNext
              \/ pc = "proj" /\ ~ZOnLattice
              \/ pc = "ctop" /\ ~CStepOnLattice
\* counts the cut paths (printed by the check as a vacuity guard)
OffLattice == (pc = "proj" /\ ~ZOnLattice) \/ (pc = "ctop" /\ Continue /\ ~CStepOnLattice)
=============================================================================
