\* the design AS PINNED (initial launch loop without budget test): TLC must report BudgetOK violated (spec-level sanity mutant)
SPECIFICATION MCSpec
CONSTANTS
  HUGE = 1000000
  NW = 3
  NP = 5
  BUDGET = 2
  BATCH = 1
  PAR = TRUE
  GUARD = FALSE
  INIT0 = 0
  EAGER = 1000
  RNUM = 1
  RDEN = 5
  REORDER = TRUE
  MAXCHG = 1
  SPURIOUS = TRUE
  INITFULL = TRUE
INVARIANTS SeqNextFindsJob AtMostOnce BudgetOK NoSameThreadConcurrent ValueAtItsPoint NoRace FlagCoherent ManagerCoherent LaunchedCoherent FinalOK NoStuck
