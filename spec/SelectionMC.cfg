SPECIFICATION Spec
CONSTANTS
  DIMS = 2
  MAXIDX = 2
  MAXDEPTH = 3
INVARIANTS WeightsSumToOne MaximalActive ActiveNonEmpty SpaceIsUnionOfBoxes SelectionIsLower SelectionWithinLimits SelectionHasOrigin SelectionMonotone
CHECK_DEADLOCK FALSE
