SPECIFICATION Spec
CONSTANTS
  DIMS = 2
  MAXIDX = 2
  MAXDEPTH = 3
INVARIANTS WeightsSumToOne ActiveAreNonZero MaximalActive SpaceIsUnionOfBoxes SelectionIsLower SelectionWithinLimits SelectionHasOrigin
CHECK_DEADLOCK FALSE
