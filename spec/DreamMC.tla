------------------------------ MODULE DreamMC ------------------------------
(* Exhaustive exploration of Dream.tla for small constants: every random     *)
(* stream over RNG (endpoints 0 and 1 included), every differential weight,  *)
(* every independent update, every split of the iterations into runs.        *)
(* The history variable h is hidden from the VIEW; the ACTION_CONSTRAINT of  *)
(* the Gen configuration prints one environment script per abstract edge.    *)
EXTENDS Dream, TLC, Json

CONSTANTS N,        \* chains
          HALF,     \* domain = -HALF..HALF (1-D), pdf table below
          RNG,      \* numerators over 4
          WS,       \* differential weights
          DMAX,     \* independent updates (1-D) are DLOW..DMAX
          DLOW0,    \* TRUE: only non-negative updates
          MAXIT,    \* bound on iterations over all runs
          LOGFORM,
          EMIT      \* print environment scripts (Gen configuration)

VARIABLES h, iters, lastdraw   \* lastdraw: raw numerators drawn in this iteration (keeps 1/2 and 1 apart in the Gen view)

\* a unimodal table with ties and a zero-free range; log form uses negative values too
DELTAS == IF DLOW0 THEN 0..DMAX ELSE (0 - DMAX)..DMAX
LO == 0 - HALF
HI == HALF
PdfTable == {[x |-> <<p>>, v |-> IF LOGFORM THEN 0 - (p * p) ELSE 1 + (HI - LO) - (IF p < 0 THEN 0 - p ELSE p)] : p \in LO..HI}
Env0 == [n |-> N, d |-> 1, pdf |-> PdfTable, logform |-> LOGFORM, upd |-> "user", mag |-> 0]
S0   == [m \in 1..N |-> <<LO + ((m - 1) % (HI - LO + 1))>>]

MCInit == InitWith(Env0, S0) /\ h = <<>> /\ iters = 0 /\ lastdraw = <<>>

MCNext ==
    \/ \E b \in 0..MAXIT, c \in 0..MAXIT :
          /\ iters + b + c <= MAXIT /\ b + c > 0
          /\ StartRun(b, c) /\ h' = Append(h, [a |-> "run", b |-> b, c |-> c]) /\ iters' = iters + b + c /\ UNCHANGED lastdraw
    \/ \E rj \in RNG, rk \in RNG, w \in WS, dl \in DELTAS :
          /\ Propose(rj, rk, w, <<dl>>)
          /\ h' = Append(h, [a |-> "prop", rj |-> rj, rk |-> rk, w |-> w, dl |-> dl]) /\ UNCHANGED iters /\ lastdraw' = lastdraw \o <<rj, rk>>
    \/ EvalBatch /\ UNCHANGED <<h, iters, lastdraw>>
    \/ /\ NeedsDraw
       /\ \E r \in RNG : Decide(r) /\ h' = Append(h, [a |-> "acc", r |-> r]) /\ lastdraw' = Append(lastdraw, r)
       /\ UNCHANGED iters
    \/ ~NeedsDraw /\ Decide(0) /\ UNCHANGED <<h, iters, lastdraw>>
    \/ Commit /\ UNCHANGED <<h, iters>> /\ lastdraw' = <<>>

MCSpec == MCInit /\ [][MCNext]_<<vars, h, iters, lastdraw>>

AbstractView == <<vars, iters>>
GenView == <<vars, iters, lastdraw>>
Emit == (EMIT /\ pc = "commit") => PrintT(<<"SCRIPT", ToJson(h')>>)

\* the run can always be completed (no stuck state except the exhausted budget)
NoStuck == (pc # "idle") => ENABLED MCNext
=============================================================================
