SPECIFICATION MCSpec
CONSTANTS
  N = 3
  HALF = 1
  RNG = {0,1,2,3,4}
  WS = {0,1}
  DMAX = 1
  DLOW0 = FALSE
  MAXIT = 2
  LOGFORM = FALSE
  EMIT = FALSE
VIEW AbstractView
INVARIANTS IndexInRange InDomain PdfCoherent HistoryLength AcceptedBound NoStuck
CHECK_DEADLOCK FALSE
