---------------------------- MODULE GradDescent ----------------------------
(***************************************************************************)
(* One call of TasOptimization::GradientDescent as a step machine.         *)
(*   adaptive / projected variant (DREAM/Optimization/tsgGradientDescent   *)
(*   .cpp, first overload; the second one is the first with the identity   *)
(*   as projection) and the constant-step variant (third overload).        *)
(*                                                                         *)
(* Everything the caller supplies (objective values, gradients, projection *)
(* results) is environment input to the actions, so TLC can enumerate it   *)
(* (GradDescentMC) or take it from a recorded execution                    *)
(* (GradDescentTrace).                                                     *)
(*                                                                         *)
(* Numbers.  A number is a tuple of integers ordered lexicographically:    *)
(*   <<n>>      exact mode: the dyadic value n / par.unit                  *)
(*   <<a,b,c>>  float mode: an order-preserving key of an IEEE double      *)
(* Points are tuples of numbers.  Step sizes are powers of two, kept as    *)
(* exponents (par.dy); increase / decrease coefficients are 2^inc, 2^dec.  *)
(* In exact mode the descent test, the trial point and the stationarity    *)
(* test are computed here in integer arithmetic (the double computation of *)
(* the code is exact on these inputs); in float mode their outcome is an   *)
(* input (the trace specification infers it from what is called next).     *)
(*                                                                         *)
(* Structure follows the code:                                             *)
(*   Enter, EvalStart, GradStart : copy x0, f(x), grad(x), step /= inc     *)
(*   Swap          : loop test holds: swap (x0,state.x) (fx0,fx) (gx0,gx)  *)
(*   Optimistic    : step *= inc                                           *)
(*   BeginAttempt / EarlyReturn : cap check at the head of the line search *)
(*   Project, EvalCand : z0 = x0 - step gx0, xStep = proj(z0), f(xStep)    *)
(*   Test(pass)    : descent inequality, step /= dec, iterations++         *)
(*   Accept        : state.x = xStep, step *= dec                          *)
(*   GradNew       : grad(state.x), stationarity residual against tol      *)
(*   LoopExit, Return                                                      *)
(*   CEnter, CGrad0, CLoopExit/CStep, CGrad : constant-step loop           *)
(***************************************************************************)
EXTENDS Integers, Sequences, FiniteSets

CONSTANT RestoreOnEarlyReturn   \* TRUE: the design.  FALSE: negative control (early return keeps the swapped vectors)

VARIABLES par,     \* [mode, exact, dy, cap, inc, dec, tol, proj, unit]
          pc, it, stop,
          sx,      \* contents of state.x (for the constant variant: the user's vector)
          x0, fx, fx0, gx, gx0,   \* the locals of the same names
          step,    \* state.adaptive_stepsize as an exponent (meaningful when par.dy)
          cz, cx, cf,             \* z0, xStep, fxStep of the current attempt
          xstart, fstart,         \* ghost: the starting point and its value
          last, flast,            \* ghost: last iterate that passed the descent test (or the start) and its value
          projs,                  \* ghost: results returned by the projection so far
          best,                   \* ghost: best[k+1] = value of the last accepted iterate once k attempts are done
          nacc,                   \* ghost: number of accepted iterates
          smalls                  \* ghost (constant step): after step k the gradient norm was within the tolerance

vars == <<par, pc, it, stop, sx, x0, fx, fx0, gx, gx0, step, cz, cx, cf,
          xstart, fstart, last, flast, projs, best, nacc, smalls>>

NONE == <<>>

--------------------------------------------------------------------------
(* numbers *)
RECURSIVE LexLeq(_, _)
LexLeq(a, b) == IF a = <<>> \/ b = <<>> THEN TRUE
                ELSE IF a[1] < b[1] THEN TRUE
                ELSE IF a[1] > b[1] THEN FALSE
                ELSE LexLeq(Tail(a), Tail(b))
Leq(a, b) == Len(a) = Len(b) /\ LexLeq(a, b)

RECURSIVE Sum(_)
Sum(s) == IF s = <<>> THEN 0 ELSE Head(s) + Sum(Tail(s))
Ints(x)   == [i \in 1..Len(x) |-> x[i][1]]          \* exact point -> numerators
Pt(s)     == [i \in 1..Len(s) |-> <<s[i]>>]         \* numerators -> exact point
Dot(a, b) == Sum([i \in 1..Len(a) |-> a[i] * b[i]])
Pow2(k)   == 2 ^ k
Max(a, b) == IF a > b THEN a ELSE b

\* n * 2^e for integers; only defined on the lattice
Divisible(n, e) == IF e >= 0 THEN TRUE ELSE n % Pow2(0 - e) = 0
Shift(n, e) == IF e >= 0 THEN n * Pow2(e) ELSE n \div Pow2(0 - e)

StepMul(s, k) == IF par.dy THEN s + k ELSE s
StepDiv(s, k) == IF par.dy THEN s - k ELSE s

--------------------------------------------------------------------------
(* exact-mode arithmetic: all values are numerators over par.unit *)

\* trial point z0 = x0 - gx0 * 2^step
ZOnLattice == \A i \in 1..Len(x0) : Divisible(gx0[i][1], step)
ZExact == Pt([i \in 1..Len(x0) |-> x0[i][1] - Shift(gx0[i][1], step)])

\* the descent inequality  f(xs) - f(x0) - <gx0, d> <= |d|^2 / (2 step),  d = xs - x0   (evaluated at pc = "test")
\* multiplied by 2 unit^2:  2 unit (fs - f0) - 2 <g,d>  <=  <d,d> / 2^step
DescentOK ==
    LET d   == [i \in 1..Len(cx) |-> cx[i][1] - x0[i][1]]
        lhs == 2 * par.unit * (cf[1] - fx0[1]) - 2 * Dot(Ints(gx0), d)
        dd  == Dot(d, d)
    IN IF step >= 0 THEN lhs * Pow2(step) <= dd ELSE lhs <= dd * Pow2(0 - step)

\* || (x0 - x) / 2^step + g - gx0 ||_2 <= tol   (evaluated at pc = "grad", x = state.x = sx)
ResidualOK(g) ==
    IF par.tol < 0 THEN FALSE ELSE
    LET sub == [i \in 1..Len(sx) |->
                  IF step >= 0 THEN (x0[i][1] - sx[i][1]) + (g[i][1] - gx0[i][1]) * Pow2(step)
                               ELSE (x0[i][1] - sx[i][1]) * Pow2(0 - step) + (g[i][1] - gx0[i][1])]
    IN IF step >= 0 THEN Dot(sub, sub) <= par.tol * par.tol * Pow2(2 * step)
                    ELSE Dot(sub, sub) <= par.tol * par.tol

\* constant step: x - g * 2^step and || g ||_2 <= tol
CStepOnLattice == \A i \in 1..Len(sx) : Divisible(gx[i][1], step)
CStepExact == Pt([i \in 1..Len(sx) |-> sx[i][1] - Shift(gx[i][1], step)])
SmallExact(g) == par.tol >= 0 /\ Dot(Ints(g), Ints(g)) <= par.tol * par.tol

--------------------------------------------------------------------------
InitIdle ==
    /\ par = [mode |-> "adapt", exact |-> FALSE, dy |-> FALSE, cap |-> 0, inc |-> 0, dec |-> 0, tol |-> 0, proj |-> FALSE, unit |-> 1]
    /\ pc = "idle" /\ it = 0 /\ stop = FALSE
    /\ sx = NONE /\ x0 = NONE /\ fx = NONE /\ fx0 = NONE /\ gx = NONE /\ gx0 = NONE /\ step = 0
    /\ cz = NONE /\ cx = NONE /\ cf = NONE
    /\ xstart = NONE /\ fstart = NONE /\ last = NONE /\ flast = NONE
    /\ projs = {} /\ best = <<>> /\ nacc = 0 /\ smalls = <<>>

\* ------------------------------------------------ adaptive / projected variant
Enter(p, x, s) ==
    /\ pc = "idle" /\ p.mode = "adapt"
    /\ par' = p /\ pc' = "f0" /\ it' = 0 /\ stop' = FALSE
    /\ sx' = x /\ x0' = x /\ fx' = NONE /\ fx0' = NONE /\ gx' = NONE /\ gx0' = NONE /\ step' = s
    /\ cz' = NONE /\ cx' = NONE /\ cf' = NONE
    /\ xstart' = x /\ fstart' = NONE /\ last' = x /\ flast' = NONE
    /\ projs' = {} /\ best' = <<>> /\ nacc' = 0 /\ smalls' = <<>>

EvalStart(f) ==
    /\ pc = "f0" /\ pc' = "g0"
    /\ fx' = f /\ fstart' = f /\ flast' = f /\ best' = <<f>>
    /\ UNCHANGED <<par, it, stop, sx, x0, fx0, gx, gx0, step, cz, cx, cf, xstart, last, projs, nacc, smalls>>

GradStart(g) ==
    /\ pc = "g0" /\ pc' = "top"
    /\ gx' = g
    /\ step' = StepDiv(step, par.inc)                 \* "offset the first iteration"
    /\ UNCHANGED <<par, it, stop, sx, x0, fx, fx0, gx0, cz, cx, cf, xstart, fstart, last, flast, projs, best, nacc, smalls>>

Continue == ~stop /\ it < par.cap

Swap ==
    /\ pc = "top" /\ Continue /\ pc' = "opt"
    /\ sx' = x0 /\ x0' = sx /\ fx' = fx0 /\ fx0' = fx /\ gx' = gx0 /\ gx0' = gx
    /\ UNCHANGED <<par, it, stop, step, cz, cx, cf, xstart, fstart, last, flast, projs, best, nacc, smalls>>

Optimistic ==
    /\ pc = "opt" /\ pc' = "ls"
    /\ step' = StepMul(step, par.inc)
    /\ UNCHANGED <<par, it, stop, sx, x0, fx, fx0, gx, gx0, cz, cx, cf, xstart, fstart, last, flast, projs, best, nacc, smalls>>

LoopExit ==
    /\ pc = "top" /\ ~Continue /\ pc' = "ret"
    /\ UNCHANGED <<par, it, stop, sx, x0, fx, fx0, gx, gx0, step, cz, cx, cf, xstart, fstart, last, flast, projs, best, nacc, smalls>>

\* head of the do-while: the iteration cap was reached by a failed attempt
EarlyReturn ==
    /\ pc = "ls" /\ it >= par.cap /\ pc' = "ret"
    /\ IF RestoreOnEarlyReturn THEN sx' = x0 /\ x0' = sx      \* state.x is the last accepted iterate again
                               ELSE UNCHANGED <<sx, x0>>
    /\ UNCHANGED <<par, it, stop, fx, fx0, gx, gx0, step, cz, cx, cf, xstart, fstart, last, flast, projs, best, nacc, smalls>>

BeginAttempt ==
    /\ pc = "ls" /\ it < par.cap /\ pc' = "proj"
    /\ UNCHANGED <<par, it, stop, sx, x0, fx, fx0, gx, gx0, step, cz, cx, cf, xstart, fstart, last, flast, projs, best, nacc, smalls>>

\* the projection is called with z and answers p (without a user projection p = z)
Project(z, p) ==
    /\ pc = "proj" /\ pc' = "func"
    /\ par.exact => ZOnLattice /\ z = ZExact
    /\ ~par.proj => p = z
    /\ cz' = z /\ cx' = p /\ projs' = projs \cup {p}
    /\ UNCHANGED <<par, it, stop, sx, x0, fx, fx0, gx, gx0, step, cf, xstart, fstart, last, flast, best, nacc, smalls>>

EvalCand(f) ==
    /\ pc = "func" /\ pc' = "test"
    /\ cf' = f
    /\ UNCHANGED <<par, it, stop, sx, x0, fx, fx0, gx, gx0, step, cz, cx, xstart, fstart, last, flast, projs, best, nacc, smalls>>

Test(pass) ==
    /\ pc = "test"
    /\ par.exact => pass = DescentOK
    /\ step' = StepDiv(step, par.dec)
    /\ it' = it + 1
    /\ best' = Append(best, IF pass THEN cf ELSE flast)
    /\ pc' = IF pass THEN "acc" ELSE "ls"
    /\ UNCHANGED <<par, stop, sx, x0, fx, fx0, gx, gx0, cz, cx, cf, xstart, fstart, last, flast, projs, nacc, smalls>>

Accept ==
    /\ pc = "acc" /\ pc' = "grad"
    /\ sx' = cx /\ fx' = cf
    /\ step' = StepMul(step, par.dec)                 \* "offset the do-while loop"
    /\ last' = cx /\ flast' = cf /\ nacc' = nacc + 1
    /\ UNCHANGED <<par, it, stop, x0, fx0, gx, gx0, cz, cx, cf, xstart, fstart, projs, best, smalls>>

GradNew(g, st) ==
    /\ pc = "grad" /\ pc' = "top"
    /\ par.exact => st = ResidualOK(g)
    /\ gx' = g /\ stop' = st
    /\ UNCHANGED <<par, it, sx, x0, fx, fx0, gx0, step, cz, cx, cf, xstart, fstart, last, flast, projs, best, nacc, smalls>>

Return ==
    /\ pc = "ret" /\ pc' = "idle"
    /\ UNCHANGED <<par, it, stop, sx, x0, fx, fx0, gx, gx0, step, cz, cx, cf, xstart, fstart, last, flast, projs, best, nacc, smalls>>

\* ------------------------------------------------ constant-step variant
CEnter(p, x, s) ==
    /\ pc = "idle" /\ p.mode = "const"
    /\ par' = p /\ pc' = "cg0" /\ it' = 0 /\ stop' = FALSE
    /\ sx' = x /\ x0' = NONE /\ fx' = NONE /\ fx0' = NONE /\ gx' = NONE /\ gx0' = NONE /\ step' = s
    /\ cz' = NONE /\ cx' = NONE /\ cf' = NONE
    /\ xstart' = x /\ fstart' = NONE /\ last' = x /\ flast' = NONE
    /\ projs' = {} /\ best' = <<>> /\ nacc' = 0 /\ smalls' = <<>>

CGrad0(g) ==
    /\ pc = "cg0" /\ pc' = "ctop"
    /\ gx' = g
    /\ UNCHANGED <<par, it, stop, sx, x0, fx, fx0, gx0, step, cz, cx, cf, xstart, fstart, last, flast, projs, best, nacc, smalls>>

CLoopExit ==
    /\ pc = "ctop" /\ ~Continue /\ pc' = "ret"
    /\ UNCHANGED <<par, it, stop, sx, x0, fx, fx0, gx, gx0, step, cz, cx, cf, xstart, fstart, last, flast, projs, best, nacc, smalls>>

CStep(xn) ==
    /\ pc = "ctop" /\ Continue /\ pc' = "cgrad"
    /\ par.exact => CStepOnLattice /\ xn = CStepExact
    /\ sx' = xn /\ last' = xn /\ it' = it + 1
    /\ UNCHANGED <<par, stop, x0, fx, fx0, gx, gx0, step, cz, cx, cf, xstart, fstart, flast, projs, best, nacc, smalls>>

CGrad(g, small) ==
    /\ pc = "cgrad" /\ pc' = "ctop"
    /\ par.exact => small = SmallExact(g)
    /\ gx' = g /\ stop' = small /\ smalls' = Append(smalls, small)
    /\ UNCHANGED <<par, it, sx, x0, fx, fx0, gx0, step, cz, cx, cf, xstart, fstart, last, flast, projs, best, nacc>>

--------------------------------------------------------------------------
(* The clauses of property C19 as predicates of the specification.        *)

\* never more than max_iterations steps
IterBound == it <= Max(par.cap, 0)

\* on return the state holds the last point that passed the descent test (or the start)
ReturnsLastAccepted == pc = "ret" => sx = last

\* ... which is the starting point or a value returned by the projection
Provenance == par.mode = "adapt" => (last = xstart \/ last \in projs) /\ (nacc > 0 => last \in projs)
ProvenanceRet == (pc = "ret" /\ par.mode = "adapt") => (sx = xstart \/ sx \in projs)

\* value bookkeeping: one entry per performed iteration, the last one is the value of the returned point
BestShape == par.mode = "adapt" /\ pc \notin {"idle", "f0"} => Len(best) = it + 1 /\ (pc # "acc" => best[it + 1] = flast)

\* the value is monotone in the cap: what cap k returns is best[k+1] (the run with cap k is a prefix of this run)
CapMonotone == (par.mode = "adapt" /\ par.exact) =>
                  \A i \in 1..Len(best) : \A j \in i..Len(best) : Leq(best[j], best[i])
NoWorseThanStart == (par.mode = "adapt" /\ par.exact /\ pc = "ret") => Leq(flast, fstart)

\* constant step: exactly min(cap, first step reaching the tolerance) steps
FirstSmall == IF \E k \in 1..Len(smalls) : smalls[k]
              THEN CHOOSE k \in 1..Len(smalls) : smalls[k] /\ \A m \in 1..(k - 1) : ~smalls[m]
              ELSE Max(par.cap, 0)
ConstCount == (par.mode = "const" /\ pc = "ret") =>
                  /\ Len(smalls) = it
                  /\ it = (IF FirstSmall < Max(par.cap, 0) THEN FirstSmall ELSE Max(par.cap, 0))

\* action property: the returned vector only ever changes by accepting an iterate (or a constant step)
OnlyAcceptMoves == [][last' # last => pc \in {"idle", "acc", "ctop"}]_vars
=============================================================================
