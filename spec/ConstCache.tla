------------------------------ MODULE ConstCache ------------------------------
(* C12 - const operations on one grid may run concurrently.                    *)
(*                                                                             *)
(* T threads each execute a short program of const operations on one shared    *)
(* grid.  The grid data proper (points, values, coefficients, rule tables) is  *)
(* immutable during const operations and is not represented: reading it is     *)
(* always safe.  The only shared state a const operation may touch besides     *)
(* that is a set of lazily built caches ("cells"; in the pinned code the       *)
(* wavelet interpolation matrix).  An operation is a sequence of cache         *)
(* segments; an operation without segments touches immutable data only.        *)
(*                                                                             *)
(* A segment follows one of four disciplines:                                  *)
(*   pinned : check ; [absent: build into the shared cell] ; use shared        *)
(*            (the code as pinned: mutable member, no synchronisation)         *)
(*   locked : lock ; check ; [absent: build shared] ; unlock ; use shared      *)
(*   local  : check ; present: use shared | absent: build + use a private copy *)
(*   dcl    : check ; [absent: lock ; build shared ; unlock] ; use shared      *)
(*            (a broken "repair": the check is outside the lock)               *)
(*                                                                             *)
(* Accesses: the check is a READ of the cell (it stays "in flight" until the   *)
(* thread's next step, because nothing orders it before that step); build is   *)
(* a multi-step WRITE section (begin .. end); use is a multi-step READ section.*)
(*                                                                             *)
(* NoConflict        : no write section of one thread overlaps any access      *)
(*                     (read or write) of another thread to the same cell.     *)
(* ResultsSequential : every completed operation returns what it returns when  *)
(*                     run alone, i.e. no use section ever observed a cell     *)
(*                     that was absent, being built or rebuilt under it.       *)
EXTENDS Naturals, Sequences, FiniteSets, TLC

CONSTANTS Threads,     \* set of thread identifiers (positive naturals)
          Cells,       \* set of cache cells
          DISC,        \* (model checking only) discipline of every cache segment
          NOPS         \* (model checking only) operations per thread

Disciplines == {"pinned", "locked", "local", "dcl"}

VARIABLES prog,    \* prog[t]  : sequence of operations [id, segs]; segs : sequence of [disc, cell]
          pc,      \* pc[t]    : [op, seg, at]
          cache,   \* cache[c] : "absent" | "building" | "present"
          lock,    \* lock[c]  : owner thread or 0
          rd,      \* rd[c]    : threads with a read access to c in progress (check in flight / use section)
          wr,      \* wr[c]    : threads inside a write section on c
          taint,   \* threads whose current operation has observed a cell that was not (or did not stay) complete
          saw,     \* saw[t]   : what the last check of t observed
          res      \* res[t]   : results of the completed operations of t ("ok" = the sequential result)

vars == <<prog, pc, cache, lock, rd, wr, taint, saw, res>>

Active(t) == pc[t].op <= Len(prog[t])
CurOp(t)  == prog[t][pc[t].op]
Cur(t)    == CurOp(t).segs[pc[t].seg]

InitWith(p, c0) ==
    /\ prog = p
    /\ cache = c0
    /\ pc = [t \in Threads |-> [op |-> 1, seg |-> 1, at |-> "s0"]]
    /\ lock = [c \in Cells |-> 0]
    /\ rd = [c \in Cells |-> {}]
    /\ wr = [c \in Cells |-> {}]
    /\ taint = {}
    /\ saw = [t \in Threads |-> "none"]
    /\ res = [t \in Threads |-> <<>>]

\* what a read of the validity of cell c by thread t may return
Observe(t, c) ==
    IF wr[c] \ {t} # {} THEN {"absent", "present"}          \* racing with a writer: anything
    ELSE {IF cache[c] = "present" THEN "present" ELSE "absent"}

At(t, l) == pc' = [pc EXCEPT ![t].at = l]

\* the segment is over: next segment, or the operation returns its result
FinishSeg(t, tnt) ==
    IF pc[t].seg < Len(CurOp(t).segs)
    THEN /\ pc' = [pc EXCEPT ![t] = [op |-> pc[t].op, seg |-> pc[t].seg + 1, at |-> "s0"]]
         /\ res' = res /\ taint' = tnt
    ELSE /\ pc' = [pc EXCEPT ![t] = [op |-> pc[t].op + 1, seg |-> 1, at |-> "s0"]]
         /\ res' = [res EXCEPT ![t] = Append(@, IF t \in tnt THEN "bad" ELSE "ok")]
         /\ taint' = tnt \ {t}

\* an operation that reads immutable grid data only (evaluate, points, write, ...)
Imm(t) ==
    /\ Active(t) /\ CurOp(t).segs = <<>>
    /\ pc' = [pc EXCEPT ![t] = [op |-> pc[t].op + 1, seg |-> 1, at |-> "s0"]]
    /\ res' = [res EXCEPT ![t] = Append(@, "ok")]
    /\ UNCHANGED <<prog, cache, lock, rd, wr, taint, saw>>

HasSeg(t) == Active(t) /\ CurOp(t).segs # <<>>

Lock(t) ==
    /\ HasSeg(t)
    /\ LET c == Cur(t).cell  d == Cur(t).disc IN
       /\ \/ d = "locked" /\ pc[t].at = "s0"
          \/ d = "dcl" /\ pc[t].at = "c1" /\ saw[t] = "absent"
       /\ lock[c] = 0
       /\ lock' = [lock EXCEPT ![c] = t]
       /\ rd' = [rd EXCEPT ![c] = @ \ {t}]
       /\ At(t, IF d = "locked" THEN "l1" ELSE "lw")
    /\ UNCHANGED <<prog, cache, wr, taint, saw, res>>

Check(t) ==
    /\ HasSeg(t)
    /\ LET c == Cur(t).cell  d == Cur(t).disc IN
       /\ \/ d \in {"pinned", "local", "dcl"} /\ pc[t].at = "s0"
          \/ d = "locked" /\ pc[t].at = "l1"
       /\ \E v \in Observe(t, c) : saw' = [saw EXCEPT ![t] = v]
       /\ rd' = [rd EXCEPT ![c] = @ \cup {t}]
       /\ At(t, "c1")
    /\ UNCHANGED <<prog, cache, lock, wr, taint, res>>

BuildBegin(t) ==
    /\ HasSeg(t)
    /\ LET c == Cur(t).cell  d == Cur(t).disc IN
       /\ \/ d \in {"pinned", "locked"} /\ pc[t].at = "c1" /\ saw[t] = "absent"
          \/ d = "dcl" /\ pc[t].at = "lw"
       /\ wr' = [wr EXCEPT ![c] = @ \cup {t}]
       /\ rd' = [rd EXCEPT ![c] = @ \ {t}]
       /\ cache' = [cache EXCEPT ![c] = "building"]       \* the old content is destroyed first
       /\ taint' = taint \cup (rd[c] \ {t})               \* readers in progress lose their data
       /\ At(t, "b1")
    /\ UNCHANGED <<prog, lock, saw, res>>

BuildEnd(t) ==
    /\ HasSeg(t) /\ pc[t].at = "b1"
    /\ LET c == Cur(t).cell IN
       /\ wr' = [wr EXCEPT ![c] = @ \ {t}]
       /\ cache' = [cache EXCEPT ![c] = "present"]
       /\ At(t, "b2")
    /\ UNCHANGED <<prog, lock, rd, taint, saw, res>>

Unlock(t) ==
    /\ HasSeg(t)
    /\ LET c == Cur(t).cell  d == Cur(t).disc IN
       /\ \/ d = "locked" /\ (pc[t].at = "b2" \/ (pc[t].at = "c1" /\ saw[t] = "present"))
          \/ d = "dcl" /\ pc[t].at = "b2"
       /\ lock[c] = t
       /\ lock' = [lock EXCEPT ![c] = 0]
       /\ rd' = [rd EXCEPT ![c] = @ \ {t}]
       /\ At(t, "l2")
    /\ UNCHANGED <<prog, cache, wr, taint, saw, res>>

UseBegin(t) ==
    /\ HasSeg(t)
    /\ LET c == Cur(t).cell  d == Cur(t).disc IN
       /\ \/ d = "pinned" /\ (pc[t].at = "b2" \/ (pc[t].at = "c1" /\ saw[t] = "present"))
          \/ d \in {"local", "dcl"} /\ pc[t].at = "c1" /\ saw[t] = "present"
          \/ d \in {"locked", "dcl"} /\ pc[t].at = "l2"
       /\ rd' = [rd EXCEPT ![c] = @ \cup {t}]
       /\ taint' = IF cache[c] # "present" \/ wr[c] # {} THEN taint \cup {t} ELSE taint
       /\ At(t, "u1")
    /\ UNCHANGED <<prog, cache, lock, wr, saw, res>>

UseEnd(t) ==
    /\ HasSeg(t) /\ pc[t].at = "u1"
    /\ rd' = [rd EXCEPT ![Cur(t).cell] = @ \ {t}]
    /\ FinishSeg(t, taint)
    /\ UNCHANGED <<prog, cache, lock, wr, saw>>

\* race-free design 1: a stale cache is never written by a const operation, a private matrix is built and used
LocalBuildUse(t) ==
    /\ HasSeg(t) /\ Cur(t).disc = "local" /\ pc[t].at = "c1" /\ saw[t] = "absent"
    /\ rd' = [rd EXCEPT ![Cur(t).cell] = @ \ {t}]
    /\ FinishSeg(t, taint)
    /\ UNCHANGED <<prog, cache, lock, wr, saw>>

Step(t) == Imm(t) \/ Lock(t) \/ Check(t) \/ BuildBegin(t) \/ BuildEnd(t) \/ Unlock(t) \/ UseBegin(t) \/ UseEnd(t) \/ LocalBuildUse(t)

Done == \A t \in Threads : ~Active(t)
Next == (\E t \in Threads : Step(t)) \/ (Done /\ UNCHANGED vars)

-----------------------------------------------------------------------------
\* properties

TypeOK ==
    /\ cache \in [Cells -> {"absent", "building", "present"}]
    /\ lock \in [Cells -> Threads \cup {0}]
    /\ \A c \in Cells : rd[c] \subseteq Threads /\ wr[c] \subseteq Threads
    /\ taint \subseteq Threads
    /\ \A t \in Threads : pc[t].at \in {"s0", "l1", "c1", "lw", "b1", "b2", "l2", "u1"}

\* the conflicting pairs (writer, other thread, cell)
Conflicts == {<<w, o, c>> \in Threads \X Threads \X Cells : w \in wr[c] /\ o # w /\ o \in (wr[c] \cup rd[c])}
NoConflict == Conflicts = {}

ResultsSequential == \A t \in Threads : \A k \in 1..Len(res[t]) : res[t][k] = "ok"

\* a finished thread has one result per operation
ResultCount == \A t \in Threads : Len(res[t]) = (IF Active(t) THEN pc[t].op - 1 ELSE Len(prog[t]))

\* the lock is held exactly by a thread that is between its lock and unlock steps
LockCoherent == \A c \in Cells : \A t \in Threads :
    (lock[c] = t) <=> (HasSeg(t) /\ Cur(t).cell = c /\ ( (Cur(t).disc = "locked" /\ pc[t].at \in {"l1", "c1", "b1", "b2"})
                                                         \/ (Cur(t).disc = "dcl" /\ pc[t].at \in {"lw", "b1", "b2"}) ))

-----------------------------------------------------------------------------
\* exhaustive model checking: all programs of NOPS operations per thread, every cell initially absent or
\* present, one discipline (DISC) for all cache segments.  MCSpec: operations without cache access and
\* single-segment queries; MCSpecFull adds operations that go through a cell twice.

OpKinds == {[id |-> "imm", segs |-> <<>>]}
           \cup {[id |-> "query", segs |-> <<[disc |-> DISC, cell |-> c]>>] : c \in Cells}
OpKindsFull == OpKinds
           \cup {[id |-> "query2", segs |-> <<[disc |-> DISC, cell |-> c], [disc |-> DISC, cell |-> c]>>] : c \in Cells}

InitOver(K) == \E p \in [Threads -> [1..NOPS -> K]] : \E c0 \in [Cells -> {"absent", "present"}] : InitWith(p, c0)
MCSpec == InitOver(OpKinds) /\ [][Next]_vars
MCSpecFull == InitOver(OpKindsFull) /\ [][Next]_vars
=============================================================================
