SPECIFICATION Spec
CONSTANTS
  THREADS = {1, 2, 3}
  ITEMS = 4
  SORTED = TRUE
INVARIANTS OrderIndependent MaxIndependent MutualExclusion NothingLost
PROPERTY Terminates
CHECK_DEADLOCK FALSE
