-------------------------------- MODULE Grid --------------------------------
(***************************************************************************)
(* The abstract sparse-grid object behind TasmanianSparseGrid: everything  *)
(* discrete about it.  A grid is a record                                  *)
(*   fam, rule, order, dims, outs   meta data                              *)
(*   pts, need                      loaded / needed multi-indexes (sets)   *)
(*   ep      : pts -> epoch         which delivery supplied the value      *)
(*                                  (-1: zero after merge, -2: opaque)     *)
(*   tens, upd                      committed / pending lower tensor sets  *)
(*                                  (global, fourier; sequence: = points)  *)
(*   lim                            persistent level limits (<<>> = none)  *)
(*   con, init, park, parkT         dynamic construction: flag, initial    *)
(*                                  candidate pool, parked samples (point  *)
(*                                  -> epoch), parked tensors              *)
(*   ta, tb, conf                   domain / conformal transform           *)
(* Every public mutator is an operator  g, args |-> [g |-> g', r |-> res]  *)
(* with res in {"ok","invalid_argument","runtime_error"}: the documented   *)
(* precondition ladder first, then the documented effect.                  *)
(***************************************************************************)
EXTENDS Integers, Sequences, FiniteSets, TLC, Selection

Empty == [fam |-> "empty"]
IsEmpty(g) == g.fam = "empty"

\* token: the model value of output k (0-based) at multi-index p supplied in epoch e
TokW(d) == <<1, 100, 10000>>
\* salt: per-scenario permutation of which points carry the large values (0: increasing with the index)
Tok(p, k, e, salt) == e * 4000000 + k * 1000000
                      + SumSeq([j \in 1..Len(p) |-> TokW(Len(p))[j] * (IF salt = 0 THEN p[j] + 1 ELSE ((p[j] + 1) * (1 + salt)) % 97)])

Ok(g)  == [g |-> g, r |-> "ok"]
Inv(g) == [g |-> g, r |-> "invalid_argument"]
Run(g) == [g |-> g, r |-> "runtime_error"]

NestedFam(g) == g.fam \in {"sequence", "localp", "wavelet", "fourier"} \/ (g.fam = "global" /\ g.rule \in NestedGlobalRules)
UsesTensors(g) == g.fam \in {"global", "fourier"}
IsLocal(g) == g.fam \in {"localp", "wavelet"}

PLevel(g, p, j) == PointLevel(g.fam, g.rule, g.order, p[j])
LVec(g, p) == [j \in 1..Len(p) |-> PLevel(g, p, j)]
\* C08: every coordinate with a non-negative limit lies on a level not above it
PointWithin(g, p, ll) == ll = <<>> \/ \A j \in 1..Len(p) : ll[j] = -1 \/ PLevel(g, p, j) <= ll[j]

PointsOfTensors(g, T) == IF g.fam = "sequence" THEN T ELSE NestedPoints(g.fam, g.rule, g.order, T, g.dims)
\* delta points of one tensor (points whose level vector is exactly t)
DeltaPoints(g, t) == IF g.fam = "sequence" THEN {t} ELSE DeltaOf(g.fam, g.rule, g.order, t)

Restrict(f, S) == [x \in S |-> f[x]]
ConstFn(S, v) == [x \in S |-> v]
Merge(f, S, v) == [x \in (DOMAIN f) \cup S |-> IF x \in S THEN v ELSE f[x]]

-----------------------------------------------------------------------------
(* make* : validation happens before the object is touched (documented).   *)
ValidLimits(ll, d) == ll = <<>> \/ Len(ll) = d
ValidWeights(type, aw, d) == aw = <<>> \/ Len(aw) = (IF type \in CurvedTypes THEN 2 * d ELSE d)

Fresh(fam, rule, order, d, outs, P, T, ll, alpha, beta) ==
    [fam |-> fam, rule |-> rule, order |-> order, dims |-> d, outs |-> outs,
     pts |-> IF outs = 0 THEN P ELSE {}, need |-> IF outs = 0 THEN {} ELSE P,
     ep |-> IF outs = 0 THEN ConstFn(P, -2) ELSE << >>,
     tens |-> T, upd |-> {}, lim |-> ll, con |-> FALSE, init |-> {}, park |-> << >>, parkT |-> {}, initT |-> {}, obase |-> 0, orph |-> FALSE, rem |-> FALSE,
     ta |-> <<>>, tb |-> <<>>, conf |-> <<>>, alpha |-> alpha, beta |-> beta]

\* a: [fam, dims, outs, depth, type, rule, aw, ll, order, alpha, beta]
Make(g, a) ==
    IF a.dims < 1 \/ a.outs < 0 \/ a.depth < 0 THEN Inv(g)
    ELSE IF ~ValidLimits(a.ll, a.dims) THEN Inv(g)
    ELSE IF a.fam \in {"global", "sequence", "fourier"} /\ ~ValidWeights(a.type, a.aw, a.dims) THEN Inv(g)
    ELSE LET T == SelectTensors(a.fam, a.rule, a.dims, a.depth, IF a.fam \in {"localp", "wavelet"} THEN "level" ELSE a.type,
                                IF a.fam \in {"localp", "wavelet"} THEN <<>> ELSE a.aw, a.ll)
             P == IF a.fam = "sequence" THEN T ELSE NestedPoints(a.fam, a.rule, a.order, T, a.dims)
         IN Ok(Fresh(a.fam, a.rule, a.order, a.dims, a.outs, P, IF a.fam \in {"global", "fourier"} THEN T ELSE {}, a.ll, a.alpha, a.beta))

-----------------------------------------------------------------------------
\* selections the exact specification decides: everything except hyperbolic contours with unequal weights
\* (their exponents w_j / min w are not integers) and curved contours that are not provably lower
\* (negative curved weights produced by the anisotropy estimate: the region is grown, not enumerated)
Decidable(type, aw) ==
    /\ ~(type \in HyperbolicTypes /\ aw # <<>> /\ \E j \in 1..Len(aw) : aw[j] # aw[1])
    /\ ~(type \in CurvedTypes /\ aw # <<>> /\ \E j \in 1..(Len(aw) \div 2) : aw[j] + aw[j + Len(aw) \div 2] < 0)
    /\ ~(type \in CurvedTypes /\ aw # <<>> /\ \E j \in 1..Len(aw) : aw[j] > 60000 \/ aw[j] < -60000)   \* beyond the exact integer arithmetic of Selection.tla

CommitTensors(g) == IF UsesTensors(g) /\ g.upd # {} THEN [g EXCEPT !.tens = g.upd, !.upd = {}] ELSE g

\* loadNeededValues with token values of the given epoch (vector overload: sizes are right by construction)
Load(g, epoch) ==
    IF IsEmpty(g) THEN Run(g)
    ELSE IF g.need = {} THEN Ok([g EXCEPT !.ep = ConstFn(g.pts, epoch)])                 \* overwrite all loaded values
    ELSE Ok(CommitTensors([g EXCEPT !.pts = g.pts \cup g.need, !.need = {}, !.ep = Merge(g.ep, g.need, epoch)]))

\* mergeRefinement: needed points become loaded, every value (and coefficient) becomes zero
MergeRef(g) ==
    IF IsEmpty(g) \/ g.need = {} THEN Ok(g)
    ELSE Ok(CommitTensors([g EXCEPT !.pts = g.pts \cup g.need, !.need = {}, !.ep = ConstFn(g.pts \cup g.need, -1)]))

ClearRef(g) == IF IsEmpty(g) THEN Ok(g) ELSE Ok([g EXCEPT !.need = {}, !.upd = {}])

-----------------------------------------------------------------------------
(* updateGrid: Global / Sequence / Fourier *)
UpdateCore(g, depth, type, aw, ll) ==
    \* ll is the effective (stored) limit vector
    IF g.outs = 0 \/ g.pts = {}
    THEN LET T == SelectTensors(g.fam, g.rule, g.dims, depth, type, aw, ll)
             P == PointsOfTensors(g, T)
         IN [g EXCEPT !.pts = IF g.outs = 0 THEN P ELSE {}, !.need = IF g.outs = 0 THEN {} ELSE P,
                      !.ep = IF g.outs = 0 THEN ConstFn(P, -2) ELSE << >>,
                      !.tens = IF UsesTensors(g) THEN T ELSE {}, !.upd = {}]
    ELSE LET S == SelectTensors(g.fam, g.rule, g.dims, depth, type, aw, ll)
         IN IF UsesTensors(g)
            THEN IF S \ g.tens = {} THEN [g EXCEPT !.need = {}, !.upd = {}]
                 ELSE LET U == S \cup g.tens IN [g EXCEPT !.upd = U, !.need = PointsOfTensors(g, U) \ g.pts]
            ELSE [g EXCEPT !.need = (S \cup g.pts) \ g.pts, !.upd = {}]

Update(g, a) ==
    IF IsEmpty(g) THEN Run(g)
    ELSE IF a.depth < 0 THEN Inv(g)
    ELSE IF ~ValidWeights(a.type, a.aw, g.dims) THEN Inv(g)
    ELSE IF ~ValidLimits(a.ll, g.dims) THEN Inv(g)
    ELSE LET g1 == IF a.ll # <<>> THEN [g EXCEPT !.lim = a.ll] ELSE g       \* limits persist when none are passed
         IN IF IsLocal(g) THEN Run(g1)
            ELSE IF ~Decidable(a.type, a.aw) THEN [g |-> g1, r |-> "undecided"]
            ELSE Ok(UpdateCore(g1, a.depth, a.type, a.aw, g1.lim))

\* setAnisotropicRefinement: weights are an observation input (est); grow the level until min_growth new points
\* the limits bound every direction and every index they admit is already present: nothing can be added (C08)
LimitsBoxFull(g) ==
    /\ g.lim # <<>> /\ \A j \in 1..g.dims : g.lim[j] >= 0
    /\ LET have == IF UsesTensors(g) THEN (IF g.upd = {} THEN g.tens ELSE g.upd) ELSE g.pts \cup g.need
       IN \A t \in BoxUpTo(g.dims, g.lim) : t \in have

RECURSIVE AnisoGrow(_, _, _, _, _, _)
AnisoGrow(g, type, w, mg, level, cap) ==
    LET g1 == UpdateCore(g, level, type, w, g.lim)
    IN IF Cardinality(g1.need) >= mg THEN g1
       ELSE IF LimitsBoxFull(g1) THEN g1       \* limits saturated: the call returns with what is admissible (possibly nothing)
       ELSE IF level >= cap THEN [g1 EXCEPT !.fam = "undecided"]   \* extreme estimated weights: growth needs astronomically many levels
       ELSE AnisoGrow(g, type, w, mg, level + 1, cap)

Saturated(g) == g.lim # <<>> /\ \A j \in 1..g.dims : g.lim[j] >= 0

Aniso(g, a) ==
    IF ~IsEmpty(g) /\ g.con THEN Run(g)
    ELSE IF IsEmpty(g) THEN Run(g)
    ELSE IF a.min_growth < 1 THEN Inv(g)
    ELSE IF g.outs = 0 THEN Run(g)
    ELSE IF g.pts = {} THEN Run(g)
    ELSE IF a.output < -1 \/ a.output >= g.outs THEN Inv(g)
    ELSE IF ~ValidLimits(a.ll, g.dims) THEN Inv(g)
    ELSE LET g1 == IF a.ll # <<>> THEN [g EXCEPT !.lim = a.ll] ELSE g
         IN IF IsLocal(g) THEN Run(g1)
            ELSE IF g.fam = "global" /\ g.rule \notin NestedGlobalRules THEN Run(g1)
            ELSE IF ~Decidable(a.type, a.est) THEN [g |-> g1, r |-> "undecided"]
            ELSE LET r == AnisoGrow([g1 EXCEPT !.need = {}, !.upd = {}], a.type, a.est, a.min_growth, 1, 24)
                 IN IF r.fam = "undecided" THEN [g |-> g1, r |-> "undecided"] ELSE Ok(r)

-----------------------------------------------------------------------------
(* surplus refinement *)
\* children of flagged points within the limits that are not present
\* (the limit of the incremented direction is tested; entries inherited from the flagged point are not re-examined)
FlaggedKidsSeq(g, F, ll) == UNION {{Repl(p, j, p[j] + 1) : j \in {m \in 1..Len(p) : ll = <<>> \/ ll[m] = -1 \/ p[m] + 1 <= ll[m]}} : p \in F} \ g.pts

\* Sequence: flagged = ratio > tol; need = lower closure of kids and points, minus points
SurpSequence(g, F) ==
    LET kids == FlaggedKidsSeq(g, F, g.lim)
    IN IF kids = {} THEN [g EXCEPT !.need = {}, !.upd = {}]
       ELSE [g EXCEPT !.need = LowerClosure(kids \cup g.pts, g.dims) \ g.pts, !.upd = {}]

\* a: [output, ll, tolq, tolzero, ratios (aligned with the sorted loaded points), sorted (the loaded points as logged)]
Flagged(a) == {a.sorted[i] : i \in {m \in 1..Len(a.sorted) : a.ratios[m] > a.tolq}}

SurpGlobalSeq(g, a) ==
    IF ~IsEmpty(g) /\ g.con THEN Run(g)
    ELSE IF IsEmpty(g) THEN Run(g)
    ELSE IF g.outs = 0 THEN Run(g)
    ELSE IF g.pts = {} THEN Run(g)
    ELSE IF a.output < -1 \/ a.output >= g.outs THEN Inv(g)
    ELSE IF a.tolneg THEN Inv(g)
    ELSE IF ~ValidLimits(a.ll, g.dims) THEN Inv(g)
    ELSE LET g1 == IF a.ll # <<>> THEN [g EXCEPT !.lim = a.ll] ELSE g
         IN IF g.fam = "sequence" THEN (IF a.degenerate THEN [g |-> g1, r |-> "ok-observed"] ELSE Ok(SurpSequence(g1, Flagged(a))))
            ELSE IF g.fam = "global" /\ g.rule \in SeqRules THEN [g |-> g1, r |-> "ok-observed"]   \* surpluses not observable: constrained, not computed
            ELSE Run(g1)

\* local polynomial / wavelet, classic criterion: all directions of flagged points; kids not present, within limits
HKidsDir(g, p, j) == {Repl(p, j, k) : k \in HKids(g.fam, g.rule, g.order, p[j])}
HParentsDir(g, p, j) == {Repl(p, j, k) : k \in HParents(g.fam, g.rule, g.order, p[j])}
KidWithin(g, q, j, ll) == ll = <<>> \/ ll[j] = -1 \/ PLevel(g, q, j) <= ll[j]

ClassicNeed(g, F, ll) ==
    UNION {UNION {{q \in HKidsDir(g, p, j) : q \notin g.pts /\ KidWithin(g, q, j, ll)} : j \in 1..g.dims} : p \in F}

\* parents-first: a flagged (point, direction) adds its missing parents if there are any, otherwise its kids
ParentsFirstNeed(g, F, ll) ==
    UNION {UNION {LET missing == HParentsDir(g, p, j) \ g.pts
                  IN IF missing # {} THEN missing
                     ELSE {q \in HKidsDir(g, p, j) : q \notin g.pts /\ KidWithin(g, q, j, ll)} : j \in 1..g.dims} : p \in F}

\* every point of S has all of its parents in base \cup S (hierarchy completeness)
AllParents(g, p) == UNION {HParentsDir(g, p, j) : j \in 1..g.dims}
RECURSIVE CompleteUp(_, _, _)
CompleteUp(g, base, S) ==
    LET add == (UNION {AllParents(g, p) : p \in S}) \ (base \cup S)
    IN IF add = {} THEN S ELSE CompleteUp(g, base, S \cup add)

\* The vector overload (smode 0, 1) checks the vector sizes, stores the limits and then runs the ladder of the raw
\* overload; the raw overload (smode 2) stores the limits after its ladder.
SurpLocalLadder(g, a) ==
    IF g.con THEN "runtime_error"
    ELSE IF g.outs = 0 THEN "runtime_error"
    ELSE IF g.pts = {} THEN "runtime_error"
    ELSE IF a.output < -1 \/ a.output >= g.outs THEN "invalid_argument"
    ELSE IF g.fam = "fourier" THEN "runtime_error"
    ELSE IF a.tolneg THEN "invalid_argument"
    ELSE "ok"

SurpLocal(g, a) ==
    IF IsEmpty(g) THEN Run(g)
    ELSE IF a.smode # 2 /\ ~ValidLimits(a.ll, g.dims) THEN Inv(g)
    ELSE IF a.smode # 2 /\ SurpLocalLadder(g, a) # "ok"
         THEN [g |-> IF a.ll # <<>> THEN [g EXCEPT !.lim = a.ll] ELSE g, r |-> SurpLocalLadder(g, a)]
    ELSE IF a.smode = 2 /\ SurpLocalLadder(g, a) # "ok" THEN [g |-> g, r |-> SurpLocalLadder(g, a)]
    ELSE LET g1 == IF a.ll # <<>> THEN [g EXCEPT !.lim = a.ll] ELSE g
             F  == IF a.tolzero THEN g.pts ELSE Flagged(a)
         IN IF IsLocal(g) THEN
                IF a.degenerate /\ ~a.tolzero THEN [g |-> g1, r |-> "ok-observed"]     \* all loaded values are zero: the normalised coefficient is 0/0
                ELSE IF a.crit = "classic" THEN Ok([g1 EXCEPT !.need = ClassicNeed(g1, F, g1.lim), !.upd = {}])
                ELSE IF a.crit = "parents" THEN Ok([g1 EXCEPT !.need = ParentsFirstNeed(g1, F, g1.lim), !.upd = {}])
                ELSE IF a.crit = "stable" /\ a.tolzero
                     THEN LET n0 == ClassicNeed(g1, F, g1.lim) IN Ok([g1 EXCEPT !.need = CompleteUp(g1, g1.pts, n0), !.upd = {}])
                ELSE [g |-> g1, r |-> "ok-observed"]        \* direction-selective criteria depend on 1-D surpluses: constrained only
            ELSE IF g.fam = "sequence" THEN (IF a.degenerate THEN [g |-> g1, r |-> "ok-observed"] ELSE Ok(SurpSequence(g1, Flagged(a))))
            ELSE IF g.fam = "global" /\ g.rule \in SeqRules THEN [g |-> g1, r |-> "ok-observed"]
            ELSE Run(g1)

-----------------------------------------------------------------------------
(* direct manipulation of coefficients and points *)
\* setHierarchicalCoefficients (vector overload, right size): without loaded points the needed points become the
\* points, otherwise a pending refinement is dropped; the coefficients are stored and the values are inferred
\* (epoch -2: not token values) -- for Global grids the coefficients are the values.
SetCoef(g, epoch) ==
    LET base == IF g.pts = {} THEN Load(g, epoch).g ELSE ClearRef(g).g
    IN Ok([base EXCEPT !.ep = ConstFn(base.pts, IF g.fam = "global" THEN epoch ELSE -2)])

\* removePointsByHierarchicalCoefficient(tolerance): local polynomial grids only; a pending refinement is dropped,
\* the points whose normalised coefficient does not exceed the tolerance are removed with their values, the others
\* keep theirs; nothing left: the object becomes empty.  The hierarchy need not be intact afterwards (rem).
\* a: [tolq, ratios (aligned with `before`), before (the loaded points as logged before the call)]
KeptByTolerance(a) == {a.before[i] : i \in {m \in 1..Len(a.before) : a.ratios[m] > a.tolq}}
RemoveTo(g, K) ==
    LET c == ClearRef(g).g
    IN IF K = c.pts THEN Ok(c)
       ELSE IF K = {} THEN Ok(Empty)
       ELSE Ok([c EXCEPT !.pts = K, !.ep = Restrict(c.ep, K), !.rem = TRUE])
Remove(g, a) ==
    IF IsEmpty(g) \/ g.fam # "localp" THEN Run(g)
    ELSE RemoveTo(g, KeptByTolerance(a))

-----------------------------------------------------------------------------
(* dynamic construction *)
Begin(g) ==
    IF IsEmpty(g) THEN Run(g)
    ELSE IF g.con THEN Ok(g)
    ELSE LET g1 == IF g.outs > 0 /\ g.pts # {} THEN [g EXCEPT !.need = {}, !.upd = {}] ELSE g
         IN IF g1.pts = {}
            THEN Ok([g1 EXCEPT !.con = TRUE, !.init = g1.need, !.need = {}, !.park = << >>,
                               !.parkT = IF UsesTensors(g1) THEN g1.tens ELSE {}, !.initT = IF UsesTensors(g1) THEN g1.tens ELSE {},
                               !.tens = IF UsesTensors(g1) THEN {} ELSE g1.tens, !.upd = {}])
            ELSE Ok([g1 EXCEPT !.con = TRUE, !.init = {}, !.park = << >>, !.parkT = {}, !.initT = {}])

Finish(g) == IF IsEmpty(g) THEN Ok(g) ELSE Ok([g EXCEPT !.con = FALSE, !.init = {}, !.park = << >>, !.parkT = {}, !.initT = {}])

\* largest subset of candidates connected to current through parent / kid relations, roots = level-zero points
IsLevelZero(g, p) == \A j \in 1..g.dims : PLevel(g, p, j) = 0
Relatives(g, p) == UNION {HKidsDir(g, p, j) \cup HParentsDir(g, p, j) : j \in 1..g.dims}
\* (for wavelets the relation is directional: the points of level 1 name the whole level-0 block as parents, while a
\* level-0 point names only its own kids; a candidate joins when a point already in the graph names it)
RECURSIVE ConnGrow(_, _, _, _)
ConnGrow(g, total, frontier, C) ==
    LET add == (UNION {Relatives(g, p) : p \in frontier}) \cap (C \ total)
    IN IF add = {} THEN total ELSE ConnGrow(g, total \cup add, add, C)
LargestConnected(g, current, C) ==
    LET roots == {p \in C \ current : IsLevelZero(g, p)}
        start == current \cup roots
    IN IF start = {} THEN {} ELSE ConnGrow(g, start, start, C) \ current

\* The library decides connectivity from the grid's side when a batch is promoted and from the sample's side when a
\* single sample arrives; for hierarchies with step-parents (semi-localp, localp-boundary, pwc) and for the wavelet
\* level-0 block the two views differ for some pairs.  Every promotion lies between the closure under "related in
\* both views" and the closure under "related in either view"; when the two coincide the promoted set is exact.
RelatedBoth(g, p, q) == q \in Relatives(g, p) /\ p \in Relatives(g, q)
RelatedEither(g, p, q) == q \in Relatives(g, p) \/ p \in Relatives(g, q)
RECURSIVE ConnGrowBoth(_, _, _)
ConnGrowBoth(g, total, C) ==
    LET add == {q \in C \ total : \E p \in total : RelatedBoth(g, p, q)}
    IN IF add = {} THEN total ELSE ConnGrowBoth(g, total \cup add, C)
RECURSIVE ConnGrowEither(_, _, _)
ConnGrowEither(g, total, C) ==
    LET add == {q \in C \ total : \E p \in total : RelatedEither(g, p, q)}
    IN IF add = {} THEN total ELSE ConnGrowEither(g, total \cup add, C)
StrongConnected(g, current, C) ==
    LET start == current \cup {p \in C \ current : IsLevelZero(g, p)}
    IN IF start = {} THEN {} ELSE ConnGrowBoth(g, start, C) \ current
WeakConnected(g, current, C) ==
    LET start == current \cup {p \in C \ current : IsLevelZero(g, p)}
    IN IF start = {} THEN {} ELSE ConnGrowEither(g, start, C) \ current

\* the samples delivered so far that are admissible join the grid, the rest stays parked (C09)
Promote(g, D) ==
    \* D: function point -> epoch with all parked samples including the new ones
    LET C == DOMAIN D
    IN IF g.fam = "sequence" THEN
           LET N == LargestCompletion(g.pts, C)
           IN [g EXCEPT !.pts = g.pts \cup N, !.ep = [p \in g.pts \cup N |-> IF p \in N THEN D[p] ELSE g.ep[p]],
                        !.park = Restrict(D, C \ N), !.init = g.init \ C]
       ELSE IF IsLocal(g) THEN
           LET N == LargestConnected(g, g.pts, C)
           IN [g EXCEPT !.pts = g.pts \cup N, !.ep = [p \in g.pts \cup N |-> IF p \in N THEN D[p] ELSE g.ep[p]],
                        !.park = Restrict(D, C \ N), !.init = g.init \ C,
                        !.orph = g.orph \/ \E p \in N : ~(AllParents(g, p) \subseteq g.pts \cup N)]
       ELSE \* global / fourier: whole tensors
           LET TT == g.parkT \cup {LVec(g, p) : p \in C}
               complete == {t \in TT : DeltaPoints(g, t) \subseteq C}
               NT == LargestCompletion(g.tens, complete)
               N  == UNION {DeltaPoints(g, t) : t \in NT}
           IN [g EXCEPT !.pts = g.pts \cup N, !.ep = [p \in g.pts \cup N |-> IF p \in N THEN D[p] ELSE g.ep[p]],
                        !.tens = g.tens \cup NT, !.park = Restrict(D, C \ N), !.parkT = TT \ NT, !.initT = g.initT \ NT, !.init = g.init \ C]

\* a: [epoch, p (sequence of delivered multi-indexes)]
LoadC(g, a) ==
    IF IsEmpty(g) \/ ~g.con THEN Run(g)
    ELSE LET newp == Range(a.p)
             D == [p \in (DOMAIN g.park) \cup newp |-> IF p \in newp THEN a.epoch ELSE g.park[p]]
         IN Ok(Promote(g, D))

\* candidates for Global / Sequence / Fourier: initial pool plus the exclusive children of the current lower set
\* a child t + e_j is admissible when direction j is unrestricted or the incremented entry obeys its limit
\* (entries inherited from tensors accepted before the limits were set are not re-examined)
ChildWithin(T, q, ll) == ll = <<>> \/ \E j \in 1..Len(q) : q[j] > 0 /\ Repl(q, j, q[j] - 1) \in T /\ (ll[j] = -1 \/ q[j] <= ll[j])
ExclusiveChildren(T, excl, ll) == {q \in UNION {Succs(t) : t \in T} : q \notin T /\ q \notin excl /\ Preds(q) \subseteq T /\ ChildWithin(T, q, ll)}
\* a: [ll]; result: the new grid state (limits stored, candidate tensors re-created) and the candidate point set
CandGlobal(g, a) ==
    LET g1 == IF a.ll # <<>> THEN [g EXCEPT !.lim = a.ll] ELSE g
    IN IF g.fam = "sequence"
       THEN [g |-> g1, cand |-> g1.init \cup ExclusiveChildren(g1.pts, g1.init, g1.lim), first |-> g1.init]
       ELSE LET newT == ExclusiveChildren(g1.tens, g1.initT, g1.lim)
                TT == g1.initT \cup newT
            IN [g |-> [g1 EXCEPT !.parkT = TT],
                cand |-> (UNION {DeltaPoints(g1, t) : t \in TT}) \ (DOMAIN g1.park),
                first |-> (UNION {DeltaPoints(g1, t) : t \in g1.initT}) \ (DOMAIN g1.park)]

=============================================================================
