------------------------------- MODULE Rules1D -------------------------------
(* One dimensional rules: points per level, exactness, level of a point      *)
(* index, and the hierarchies (parent, step-parent, kids) of the local       *)
(* polynomial and wavelet rules.  Everything here is integer arithmetic      *)
(* taken from the documentation of the rules (tsgCoreOneDimensional,         *)
(* tsgRuleLocalPolynomial, tsgRuleWavelet).                                  *)
EXTENDS Integers, Sequences, FiniteSets

Pow2(n) == 2 ^ n
Pow3(n) == 3 ^ n
\* floor(log2(n)) for n >= 1
RECURSIVE ILog2(_)
ILog2(n) == IF n <= 1 THEN 0 ELSE 1 + ILog2(n \div 2)

SeqRules == {"leja", "rleja", "rleja-shifted", "max-lebesgue", "min-lebesgue", "min-delta"}
OddRules == {"leja-odd", "rleja-odd", "max-lebesgue-odd", "min-lebesgue-odd", "min-delta-odd"}
NestedGlobalRules == SeqRules \cup OddRules \cup {"clenshaw-curtis", "clenshaw-curtis-zero", "fejer2", "gauss-patterson",
                      "rleja-double2", "rleja-double4", "rleja-shifted-even", "rleja-shifted-double", "fourier"}
\* "custom-tabulated": the driver supplies a custom rule file that holds the Gauss-Legendre tables
GaussRules == {"gauss-legendre", "gauss-chebyshev1", "gauss-chebyshev2", "gauss-gegenbauer", "gauss-jacobi", "gauss-laguerre", "gauss-hermite", "chebyshev", "custom-tabulated"}
GaussOddRules == {"gauss-legendre-odd", "gauss-chebyshev1-odd", "gauss-chebyshev2-odd", "gauss-gegenbauer-odd", "gauss-jacobi-odd", "gauss-laguerre-odd", "gauss-hermite-odd", "chebyshev-odd"}

CCPoints(l) == IF l = 0 THEN 1 ELSE Pow2(l) + 1

\* number of points of the rule at a level (global / sequence / fourier rules)
RECURSIVE NumPoints(_, _)
NumPoints(rule, l) ==
    CASE rule \in SeqRules \cup GaussRules -> l + 1
      [] rule \in OddRules \cup GaussOddRules -> 2 * l + 1
      [] rule = "rleja-shifted-even" -> 2 * (l + 1)
      [] rule = "rleja-shifted-double" -> Pow2(l + 1)
      [] rule \in {"clenshaw-curtis-zero", "gauss-patterson", "fejer2"} -> Pow2(l + 1) - 1
      [] rule = "clenshaw-curtis" -> CCPoints(l)
      [] rule = "rleja-double2" -> IF l < 3 THEN CCPoints(l)
                                   ELSE LET lcc == 2 + (l - 3) \div 2
                                        IN CCPoints(lcc) + ((CCPoints(lcc + 1) - CCPoints(lcc)) \div 2) * (((l - 3) % 2) + 1)
      [] rule = "rleja-double4" -> IF l < 3 THEN CCPoints(l)
                                   ELSE LET lcc == 2 + (l - 3) \div 4
                                        IN CCPoints(lcc) + ((CCPoints(lcc + 1) - CCPoints(lcc)) \div 4) * (((l - 3) % 4) + 1)
      [] rule = "fourier" -> Pow3(l)

\* interpolation exactness of a level
IExact(rule, l) ==
    CASE rule \in SeqRules \cup GaussRules -> l
      [] rule \in OddRules \cup GaussOddRules -> 2 * l
      [] rule = "rleja-shifted-even" -> 2 * l + 1
      [] rule = "rleja-shifted-double" -> Pow2(l + 1) - 1
      [] rule \in {"gauss-patterson", "fejer2"} -> Pow2(l + 1) - 2
      [] rule = "clenshaw-curtis" -> IF l > 0 THEN Pow2(l) ELSE 0
      [] rule = "clenshaw-curtis-zero" -> Pow2(l + 1) + 1
      [] rule \in {"rleja-double2", "rleja-double4"} -> NumPoints(rule, l) - 1
      [] rule = "fourier" -> (Pow3(l) - 1) \div 2

\* quadrature exactness of a level
QExact(rule, l) ==
    CASE rule \in (GaussRules \ {"chebyshev"}) \cup {"chebyshev-odd"} -> 2 * l + 1
      [] rule \in GaussOddRules \ {"chebyshev-odd"} -> 4 * l + 1
      [] rule \in {"rleja", "rleja-shifted"} -> l
      [] rule \in {"leja", "max-lebesgue", "min-lebesgue", "min-delta"} -> (IF l = 0 THEN 1 ELSE l) + (IF l = 2 THEN 1 ELSE 0)
      [] rule \in {"leja-odd", "max-lebesgue-odd", "min-lebesgue-odd", "min-delta-odd"} -> (IF l = 0 THEN 1 ELSE 2 * l) + (IF l = 1 THEN 1 ELSE 0)
      [] rule = "rleja-odd" -> 2 * l
      [] rule = "rleja-shifted-even" -> 2 * l
      [] rule = "rleja-shifted-double" -> Pow2(l + 1) - 1
      [] rule = "gauss-patterson" -> IF l = 0 THEN 1 ELSE 3 * Pow2(l) - 1
      [] rule = "clenshaw-curtis" -> IF l = 0 THEN 1 ELSE Pow2(l) + 1
      [] rule = "clenshaw-curtis-zero" -> IF l = 0 THEN 1 ELSE Pow2(l + 1) + 1
      [] rule = "chebyshev" -> IF l % 2 = 0 THEN l + 1 ELSE l      \* l + 1 points: the symmetric bonus degree only for an odd number of points
      [] rule = "rleja-double2" -> NumPoints(rule, l)
      [] rule = "rleja-double4" -> NumPoints(rule, l) - 1
      [] rule = "fejer2" -> Pow2(l + 1) - 1
      [] rule = "fourier" -> (Pow3(l) - 1) \div 2

\* level of a point index of a nested global / sequence / fourier rule: first level that contains it
RECURSIVE LevelFrom(_, _, _)
LevelFrom(rule, i, l) == IF NumPoints(rule, l) > i THEN l ELSE LevelFrom(rule, i, l + 1)
GlobalLevel(rule, i) == LevelFrom(rule, i, 0)

-----------------------------------------------------------------------------
(* Local polynomial hierarchies.  erule is the effective rule:               *)
(* order 0 forces "pwc"; "semi-localp" with order < 2 is "localp".           *)
EffRule(rule, order) == IF order = 0 THEN "pwc"
                        ELSE IF rule = "semi-localp" /\ order < 2 THEN "localp" ELSE rule

\* 3^(number of base-3 digits of point - ...) : Maths::int3log3, smallest power of 3 above point
RECURSIVE Int3Log3From(_, _)
Int3Log3From(p, r) == IF r > p THEN r ELSE Int3Log3From(p, 3 * r)
Int3Log3(p) == Int3Log3From(p, 1)

LNumPoints(er, l) == CASE er = "pwc" -> Pow3(l)
                       [] er \in {"localp", "semi-localp"} -> IF l = 0 THEN 1 ELSE Pow2(l) + 1
                       [] er = "localp-zero" -> Pow2(l + 1) - 1
                       [] er = "localp-boundary" -> Pow2(l) + 1

RECURSIVE PwcLevel(_)
PwcLevel(p) == IF p >= 1 THEN 1 + PwcLevel(p \div 3) ELSE 0

LLevel(er, p) == CASE er = "pwc" -> PwcLevel(p)
                   [] er \in {"localp", "semi-localp"} -> IF p = 0 THEN 0 ELSE IF p = 1 THEN 1 ELSE ILog2(p - 1) + 1
                   [] er = "localp-zero" -> ILog2(p + 1)
                   [] er = "localp-boundary" -> IF p <= 1 THEN 0 ELSE ILog2(p - 1) + 1

\* -1 means no parent
LParent(er, p) == CASE er = "pwc" -> IF p = 0 THEN -1 ELSE p \div 3
                    [] er \in {"localp", "semi-localp"} -> IF p = 0 THEN -1 ELSE IF p < 4 THEN ((p + 1) \div 2) - 1 ELSE (p + 1) \div 2
                    [] er = "localp-zero" -> IF p = 0 THEN -1 ELSE (p - 1) \div 2
                    [] er = "localp-boundary" -> IF p < 2 THEN -1 ELSE (p + 1) \div 2

LStepParent(er, p) ==
    CASE er = "pwc" -> LET t == Int3Log3(p)
                       IN IF p = t \div 3 \/ p = t - 1 THEN -1
                          ELSE IF p % 3 = 2 /\ p % 2 = 0 THEN p \div 3 + 1
                          ELSE IF p % 3 = 0 /\ p % 2 = 1 THEN p \div 3 - 1 ELSE -1
      [] er = "semi-localp" -> IF p = 3 THEN 2 ELSE IF p = 4 THEN 1 ELSE -1
      [] er = "localp-boundary" -> IF p = 2 THEN 0 ELSE -1
      [] OTHER -> -1

LParents(er, p) == {q \in {LParent(er, p), LStepParent(er, p)} : q >= 0}

\* kids as a set (the -1 entries of getKid dropped)
LKids(er, p) ==
    CASE er = "pwc" -> IF p = 0 THEN {1, 2}
                       ELSE LET t == Int3Log3(p)
                                fourth == IF p = t \div 3 \/ p = t - 1 THEN {} ELSE {IF p % 2 = 0 THEN 3 * p + 3 ELSE 3 * p - 1}
                            IN {3 * p, 3 * p + 1, 3 * p + 2} \cup fourth
      [] er \in {"localp", "semi-localp"} -> IF p = 0 THEN {1, 2} ELSE IF p = 1 THEN {3} ELSE IF p = 2 THEN {4} ELSE {2 * p - 1, 2 * p}
      [] er = "localp-zero" -> {2 * p + 1, 2 * p + 2}
      [] er = "localp-boundary" -> IF p <= 1 THEN {2} ELSE {2 * p - 1, 2 * p}

-----------------------------------------------------------------------------
(* Wavelet hierarchy (order 1 and 3): level 0 is a block of 3 (5) points     *)
WNumPoints(order, l) == IF order = 1 THEN Pow2(l + 1) + 1 ELSE Pow2(l + 2) + 1
WLevel(order, p) == IF order = 1 THEN (IF p <= 2 THEN 0 ELSE ILog2(p - 1)) ELSE (IF p < 5 THEN 0 ELSE ILog2(p - 1) - 1)
WKids(order, p) ==
    IF order = 1 THEN (IF p >= 3 THEN {2 * p - 1, 2 * p} ELSE IF p = 0 THEN {3, 4} ELSE IF p = 1 THEN {3} ELSE {4})
    ELSE (IF p >= 3 THEN {2 * p - 1, 2 * p} ELSE IF p = 0 THEN {6, 7} ELSE IF p = 1 THEN {5} ELSE {8})
\* parents as a set: points of level 1 descend from the whole level-0 block
WParents(order, p) ==
    IF order = 1 THEN (IF p <= 2 THEN {} ELSE IF p <= 4 THEN {0, 1, 2} ELSE {(p + 1) \div 2})
    ELSE (IF p <= 4 THEN {} ELSE IF p <= 8 THEN {0, 1, 2, 3, 4} ELSE {(p + 1) \div 2})

-----------------------------------------------------------------------------
(* uniform interface over the five grid families *)
PointLevel(fam, rule, order, p) ==
    CASE fam \in {"global", "sequence", "fourier"} -> GlobalLevel(rule, p)
      [] fam = "localp" -> LLevel(EffRule(rule, order), p)
      [] fam = "wavelet" -> WLevel(order, p)
LevelPoints(fam, rule, order, l) ==
    CASE fam \in {"global", "sequence", "fourier"} -> NumPoints(rule, l)
      [] fam = "localp" -> LNumPoints(EffRule(rule, order), l)
      [] fam = "wavelet" -> WNumPoints(order, l)
HKids(fam, rule, order, p) == IF fam = "localp" THEN LKids(EffRule(rule, order), p) ELSE WKids(order, p)
HParents(fam, rule, order, p) == IF fam = "localp" THEN LParents(EffRule(rule, order), p) ELSE WParents(order, p)
=============================================================================
