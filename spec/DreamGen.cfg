SPECIFICATION MCSpec
CONSTANTS
  N = 3
  HALF = 1
  RNG = {0,2,4}
  WS = {0,1}
  DMAX = 1
  DLOW0 = TRUE
  MAXIT = 2
  LOGFORM = FALSE
  EMIT = TRUE
VIEW GenView
ACTION_CONSTRAINT Emit
CHECK_DEADLOCK FALSE
