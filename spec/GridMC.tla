------------------------------- MODULE GridMC -------------------------------
(***************************************************************************)
(* Exhaustive exploration of the grid object of Grid.tla for one family /  *)
(* rule / dimension, over all histories of bounded length built from the   *)
(* public mutators.  Inputs the specification does not own (which points   *)
(* a surplus refinement flags, the estimated anisotropic weights) are      *)
(* chosen nondeterministically, so every outcome the numerics could        *)
(* produce is covered.                                                     *)
(*                                                                         *)
(* Checked here, on the design:                                            *)
(*   C07  Disjoint, LoadedMonotone, FrameRefine, ClearOnlyDropsNeeded,     *)
(*        LoadMakesNeededLoaded, ValuesAttached                            *)
(*   C08  NeededWithinLimits (for the set computed by the last call),      *)
(*        LimitsPersist                                                    *)
(*   C09  OrderIndependent: the loaded set during construction equals the  *)
(*        one-shot admissible part of everything delivered so far,         *)
(*        NothingDropped, CandidatesNotLoaded                              *)
(* The history variable h is hidden by the VIEW; the Gen configuration     *)
(* prints one script per abstract edge for replay on the real library.     *)
(***************************************************************************)
EXTENDS Grid, Json

CONSTANTS FAM, RULE, ORDER, D, OUTS,
          MAXDEPTH,      \* make / update depths 0..MAXDEPTH
          MAXLEN,        \* history length
          MAXPTS,        \* stop growing beyond this many points
          COEF,          \* explore direct coefficient overwrites and removal of points by coefficient size
          EMIT

VARIABLES g, h, n, last, delivered, base
\* last: [act, lim] of the last call that computed a needed / candidate set; delivered, base: construction ghosts

vars == <<g, h, n, last, delivered, base>>

\* limit vectors offered to every call that accepts them (none, with a free direction, tight, with a zero)
LimChoices == {<<>>} \cup (CASE D = 1 -> {<<1>>, <<2>>}
                             [] D = 2 -> {<<1, -1>>, <<2, 1>>, <<0, 2>>}
                             [] D = 3 -> {<<1, -1, 1>>, <<2, 0, 1>>})
Types == {"level", "iptotal", "tensor"}
Weights == {<<>>} \cup (IF D = 2 THEN {<<1, 2>>, <<2, 1>>} ELSE {})

Size(x) == Cardinality(x.pts) + Cardinality(x.need)
Small(x) == IsEmpty(x) \/ Size(x) <= MAXPTS

Args(depth, type, aw, ll) == [fam |-> FAM, dims |-> D, outs |-> OUTS, depth |-> depth, type |-> type, rule |-> RULE, aw |-> aw, ll |-> ll,
                              order |-> ORDER, alpha |-> 0, beta |-> 0]

Step(g2, entry, l2) == /\ g' = g2 /\ h' = Append(h, entry) /\ n' = n + 1 /\ last' = l2

MCInit == g = Empty /\ h = <<>> /\ n = 0 /\ last = [act |-> "none", lim |-> <<>>] /\ delivered = {} /\ base = {}

DoMake == \E depth \in 0..MAXDEPTH, type \in (IF FAM \in {"localp", "wavelet"} THEN {"level"} ELSE Types), ll \in LimChoices :
            LET r == Make(g, Args(depth, type, <<>>, ll))
            IN /\ r.r = "ok" /\ Small(r.g)
               /\ Step(r.g, [a |-> "make", depth |-> depth, type |-> type, ll |-> ll], [act |-> "make", lim |-> ll])
               /\ UNCHANGED <<delivered, base>>

DoLoad == /\ ~IsEmpty(g) /\ ~g.con /\ (g.need # {} \/ g.pts # {}) /\ g.outs > 0
          /\ Step(Load(g, n + 1).g, [a |-> "load"], [act |-> "load", lim |-> g.lim]) /\ UNCHANGED <<delivered, base>>

DoClear == ~IsEmpty(g) /\ ~g.con /\ g.need # {} /\ Step(ClearRef(g).g, [a |-> "clear"], last) /\ UNCHANGED <<delivered, base>>
DoMerge == ~IsEmpty(g) /\ ~g.con /\ g.need # {} /\ Step(MergeRef(g).g, [a |-> "merge"], last) /\ UNCHANGED <<delivered, base>>
DoClearLimits == ~IsEmpty(g) /\ g.lim # <<>> /\ Step([g EXCEPT !.lim = <<>>], [a |-> "clearlimits"], last) /\ UNCHANGED <<delivered, base>>

\* surplus refinement: any non-empty set of at most two flagged points (plus "everything", the tolerance-zero case)
FlagChoices == {g.pts} \cup {{p, q} : p \in g.pts, q \in g.pts}
DoSurp == /\ ~IsEmpty(g) /\ ~g.con /\ g.pts # {} /\ g.outs > 0 /\ FAM \in {"sequence", "localp", "wavelet"}
          /\ \E F \in FlagChoices, ll \in LimChoices :
               LET g1 == IF ll # <<>> THEN [g EXCEPT !.lim = ll] ELSE g
                   g2 == IF FAM = "sequence" THEN SurpSequence(g1, F)
                         ELSE [g1 EXCEPT !.need = ClassicNeed(g1, F, g1.lim), !.upd = {}]
               IN /\ Small(g2)
                  /\ Step(g2, [a |-> "surp", all |-> (F = g.pts), ll |-> ll], [act |-> "surp", lim |-> g2.lim])
          /\ UNCHANGED <<delivered, base>>

DoUpdate == /\ ~IsEmpty(g) /\ ~g.con /\ FAM \in {"sequence", "global", "fourier"}
            /\ \E depth \in 1..(MAXDEPTH + 1), type \in Types, aw \in Weights, ll \in LimChoices :
                 LET r == Update(g, [depth |-> depth, type |-> type, aw |-> aw, ll |-> ll])
                 IN /\ r.r = "ok" /\ Small(r.g)
                    /\ Step(r.g, [a |-> "update", depth |-> depth, type |-> type, aw |-> aw, ll |-> ll], [act |-> "update", lim |-> r.g.lim])
            /\ UNCHANGED <<delivered, base>>

DoAniso == /\ ~IsEmpty(g) /\ ~g.con /\ g.pts # {} /\ g.outs > 0 /\ FAM \in {"sequence", "global", "fourier"}
           /\ \E est \in (Weights \ {<<>>}) \cup {[j \in 1..D |-> 1]}, mg \in {1, 3}, ll \in LimChoices :
                LET r == Aniso(g, [type |-> "iptotal", min_growth |-> mg, output |-> 0, ll |-> ll, est |-> est])
                IN /\ r.r = "ok" /\ Small(r.g)
                   /\ Step(r.g, [a |-> "aniso", mg |-> mg, ll |-> ll], [act |-> "aniso", lim |-> r.g.lim])
           /\ UNCHANGED <<delivered, base>>

DoBegin == /\ ~IsEmpty(g) /\ ~g.con /\ g.outs > 0
           /\ Step(Begin(g).g, [a |-> "begin"], last) /\ delivered' = {} /\ base' = Begin(g).g.pts

CandSet(x) == IF IsLocal(x) THEN x.init \cup ClassicNeed(x, x.pts, x.lim) ELSE CandGlobal(x, [ll |-> <<>>]).cand

\* deliver one or two of the current candidates, in one call
DoDeliver == /\ ~IsEmpty(g) /\ g.con
             /\ LET x == IF IsLocal(g) THEN g ELSE CandGlobal(g, [ll |-> <<>>]).g
                    C == CandSet(g) \ (DOMAIN g.park)
                IN \E p \in C, q \in C :
                      LET r == LoadC(x, [epoch |-> n + 1, p |-> IF p = q THEN <<p>> ELSE <<p, q>>])
                      IN /\ Small(r.g)
                         /\ Step(r.g, [a |-> "deliver", p |-> IF p = q THEN <<p>> ELSE <<p, q>>], [act |-> "deliver", lim |-> g.lim])
                         /\ delivered' = delivered \cup {p, q} /\ UNCHANGED base

\* coefficients overwritten directly; points removed by coefficient size (which ones is decided by the numerics: any subset)
DoSetCoef == /\ COEF /\ ~IsEmpty(g) /\ ~g.con /\ g.outs > 0 /\ (g.pts # {} \/ g.need # {})
             /\ Step(SetCoef(g, n + 1).g, [a |-> "setcoef"], last) /\ UNCHANGED <<delivered, base>>
KeepChoices == {{}, g.pts} \cup {{p} : p \in g.pts} \cup {g.pts \ {p} : p \in g.pts}
DoRemove == /\ COEF /\ ~IsEmpty(g) /\ ~g.con /\ g.outs > 0 /\ g.pts # {} /\ FAM = "localp"
            /\ \E K \in KeepChoices :
                  Step(RemoveTo(g, K).g, [a |-> "removen", keep |-> Cardinality(K)], last)
            /\ UNCHANGED <<delivered, base>>

DoFinish == ~IsEmpty(g) /\ g.con /\ Step(Finish(g).g, [a |-> "finish"], last) /\ UNCHANGED <<delivered, base>>

\* after a removal only get / evaluate / file I/O are documented as safe: no further mutator is explored
MCNext == /\ n < MAXLEN
          /\ (IF IsEmpty(g) THEN TRUE ELSE ~g.rem)
          /\ \/ DoSetCoef \/ DoRemove
             \/ (IsEmpty(g) /\ DoMake) \/ DoLoad \/ DoClear \/ DoMerge \/ DoClearLimits \/ DoSurp \/ DoUpdate \/ DoAniso
             \/ DoBegin \/ DoDeliver \/ DoFinish

MCSpec == MCInit /\ [][MCNext]_vars

AbstractView == <<g, n, last, delivered, base>>
Emit == EMIT => PrintT(<<"SCRIPT", ToJson(h')>>)

-----------------------------------------------------------------------------
(* C07 *)
Disjoint == IsEmpty(g) \/ g.pts \cap g.need = {}
ValuesAttached == IsEmpty(g) \/ g.pts = {} \/ DOMAIN g.ep = g.pts
LoadedMonotone == [][(~IsEmpty(g) /\ ~IsEmpty(g') /\ h' # h /\ h'[Len(h')].a \notin {"make", "update", "removen"}) => g.pts \subseteq g'.pts]_vars
UpdateKeepsLoaded == [][(~IsEmpty(g) /\ h' # h /\ h'[Len(h')].a = "update" /\ g.pts # {} /\ g.outs > 0) => (g'.pts = g.pts /\ g'.ep = g.ep)]_vars
FrameRefine == [][(h' # h /\ h'[Len(h')].a \in {"surp", "aniso", "clear", "clearlimits"}) => (g'.pts = g.pts /\ g'.ep = g.ep)]_vars
ClearOnlyDropsNeeded == [][(h' # h /\ h'[Len(h')].a = "clear") => (g'.need = {} /\ g'.pts = g.pts /\ g'.lim = g.lim)]_vars
LoadMakesNeededLoaded == [][(h' # h /\ h'[Len(h')].a = "load" /\ g.need # {}) => (g'.pts = g.pts \cup g.need /\ g'.need = {} /\ \A p \in g.pts : g'.ep[p] = g.ep[p])]_vars

\* removal only drops loaded points (with their values), never touches the ones kept; a coefficient overwrite keeps the point set
RemoveOnlyDrops == [][(h' # h /\ h'[Len(h')].a = "removen") => (IsEmpty(g') \/ (g'.pts \subseteq g.pts /\ g'.need = {} /\ \A p \in g'.pts : g'.ep[p] = g.ep[p] /\ g'.lim = g.lim))]_vars
SetCoefKeepsPoints == [][(h' # h /\ h'[Len(h')].a = "setcoef") => (g'.pts = (IF g.pts = {} THEN g.need ELSE g.pts) /\ g'.need = {} /\ g'.lim = g.lim)]_vars

(* C08 *)
MaxLoadedLevelMC(x, j) == IF x.pts = {} THEN 0 ELSE LET L == {PLevel(x, p, j) : p \in x.pts} IN CHOOSE m \in L : \A y \in L : y <= m
WithinMC(x, p) == x.lim = <<>> \/ \A j \in 1..x.dims : x.lim[j] = -1 \/ PLevel(x, p, j) <= x.lim[j] \/ PLevel(x, p, j) <= MaxLoadedLevelMC(x, j)
NeededWithinLimits == (~IsEmpty(g) /\ last.act \in {"make", "surp", "update", "aniso"} /\ last.lim = g.lim) => \A p \in g.need : WithinMC(g, p)
LimitsPersist == [][(h' # h /\ ~IsEmpty(g) /\ ~IsEmpty(g') /\ h'[Len(h')].a \in {"surp", "update", "aniso"} /\ h'[Len(h')].ll = <<>>) => g'.lim = g.lim]_vars

(* C09 *)
OneShot(x, b, Dl) == IF x.fam = "sequence" THEN LargestCompletion(b, Dl)
                     ELSE IF IsLocal(x) THEN LargestConnected(x, b, Dl)
                     ELSE LET TT == {LVec(x, p) : p \in Dl} \cup x.parkT \cup x.tens
                              bt == {LVec(x, p) : p \in b}
                              complete == {t \in TT : DeltaPoints(x, t) \subseteq Dl \cup b}
                          IN UNION {DeltaPoints(x, t) : t \in LargestCompletion(bt, complete \ bt)}
OrderIndependent == (~IsEmpty(g) /\ g.con) => g.pts = base \cup (OneShot(g, base, delivered) \ base)
NothingDropped == (~IsEmpty(g) /\ g.con) => delivered \subseteq g.pts \cup (DOMAIN g.park)
CandidatesNotLoaded == (~IsEmpty(g) /\ g.con) => CandSet(g) \cap g.pts = {}
=============================================================================
