SPECIFICATION LFairSpec
CONSTANTS
  NT = 3
  NS = 5
  LPAR = TRUE
INVARIANTS LAtMostOnce LNoSameThreadConcurrent LCheckedFirst LDistinctSamples LFinalOK
PROPERTY LTermination
