SPECIFICATION MCSpec
CONSTANTS
  Threads = {1,2}
  Cells = {0,1}
  DISC = "locked"
  NOPS = 2
INVARIANTS TypeOK NoConflict ResultsSequential ResultCount LockCoherent
CHECK_DEADLOCK TRUE
