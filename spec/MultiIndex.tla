----------------------------- MODULE MultiIndex -----------------------------
(* Multi-index sets as TLA+ sets of integer tuples: order, lower sets,       *)
(* closure, children, the three-way merge of sorted index lists together     *)
(* with the positional merge of the values attached to them.                 *)
EXTENDS Integers, Sequences, FiniteSets

Dim(p) == Len(p)
Range(s) == {s[i] : i \in 1..Len(s)}

\* lexicographic order used by every list the library returns
LexLess(a, b) == \E k \in 1..Len(a) : a[k] < b[k] /\ \A m \in 1..(k - 1) : a[m] = b[m]

\* strictly increasing (hence duplicate free) sequence of multi-indexes
IsSortedSeq(s) == \A i \in 1..(Len(s) - 1) : LexLess(s[i], s[i + 1])

\* p with component j replaced by v
Repl(p, j, v) == [m \in 1..Len(p) |-> IF m = j THEN v ELSE p[m]]

\* immediate predecessors / successors of a multi-index
Preds(p) == {Repl(p, j, p[j] - 1) : j \in {m \in 1..Len(p) : p[m] > 0}}
Succs(p) == {Repl(p, j, p[j] + 1) : j \in 1..Len(p)}

LeqAll(a, b) == \A m \in 1..Len(a) : a[m] <= b[m]

\* lower (downward closed) sets
IsLower(S) == \A p \in S : Preds(p) \subseteq S

\* all tuples of dimension d with entries 0..n
Cube(d, n) == [1..d -> 0..n]

MaxEntry(S) == IF S = {} THEN 0 ELSE CHOOSE n \in 0..1000 : (\E p \in S, j \in 1..100 : j <= Len(p) /\ p[j] = n) /\ \A p \in S : \A j \in 1..Len(p) : p[j] <= n

\* smallest lower set containing S (all tuples dominated by a member)
LowerClosure(S, d) == IF S = {} THEN {} ELSE {q \in Cube(d, MaxEntry(S)) : \E p \in S : LeqAll(q, p)}

\* largest subset A of C such that base \cup A is lower (getLargestCompletion)
RECURSIVE LargestCompletion(_, _)
LargestCompletion(base, C) ==
    LET bad == {p \in C : ~(Preds(p) \subseteq (base \cup C))}
    IN IF bad = {} THEN C ELSE LargestCompletion(base, C \ bad)

\* merge of two sorted, disjoint index lists with their values (StorageSet::addValues / MultiIndexSet::addSortedIndexes)
RECURSIVE MergeSorted(_, _)
MergeSorted(a, b) ==
    IF a = <<>> THEN b ELSE IF b = <<>> THEN a
    ELSE IF LexLess(a[1].p, b[1].p) THEN <<a[1]>> \o MergeSorted(Tail(a), b)
    ELSE IF LexLess(b[1].p, a[1].p) THEN <<b[1]>> \o MergeSorted(a, Tail(b))
    ELSE <<b[1]>> \o MergeSorted(Tail(a), Tail(b))     \* same index: the new value replaces the old one
=============================================================================
