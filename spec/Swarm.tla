------------------------------- MODULE Swarm -------------------------------
(***************************************************************************)
(* TasOptimization::ParticleSwarm and the ParticleSwarmState edits as a     *)
(* step machine over an exact dyadic lattice.                               *)
(*                                                                         *)
(* Lattice.  A real coordinate x is represented by the integer x*scale,    *)
(* scale a power of 4.  Coefficients are numerators over 2 (inertia wn/2,  *)
(* cognitive c1n/2, social c2n/2), random numbers are numerators over 2    *)
(* (0, 1/2, 1: both endpoints included).  The velocity rule then is        *)
(*    v' = (2 wn v + c1n r1 (b - x) + c2n r2 (g - x)) / 4                  *)
(* and the action Move is enabled only when the division is exact, which   *)
(* is the case when all user supplied numbers are multiples of             *)
(* 4^(iterations still to come): every double operation of the real code   *)
(* is then exact as well.                                                  *)
(*                                                                         *)
(* Environment.  The objective is constant on unit cells (cell = floor of  *)
(* the real coordinates): env.cells is a set of [c |-> cell, v |-> value]; *)
(* the domain is the set of listed cells (holes, empty domain, domains     *)
(* that exclude the swarm are all expressible).  Piecewise constant        *)
(* objectives make ties between different points frequent.                 *)
(*                                                                         *)
(* The actions follow DREAM/Optimization/tsgParticleSwarm.cpp:             *)
(*   StartCall      entering ParticleSwarm(.., num_iterations, state, ..)  *)
(*   DomTest        one call of inside() inside f_constrained              *)
(*   EvalPos/EvalBest  the (single, batched) objective call of             *)
(*                  f_constrained, skipped when no point is inside         *)
(*   Fold           swarm best := best of the re-evaluated personal bests  *)
(*   Upd            the lambda update(): personal / swarm best             *)
(*   Draw           one call of get_random01 (2n per iteration when the    *)
(*                  swarm best exists, otherwise n)                        *)
(*   Move           velocity and position update of all particles          *)
(* and the state edits that are legal between calls: ClearCache,           *)
(* ClearBest, SetPos, SetVel, SetBest, InitBox.                            *)
(*                                                                         *)
(* Design decisions of this specification (what the property needs from    *)
(* the state edits, see the clauses at the end):                           *)
(*   - ClearBest forgets the cached values / flags of the best positions   *)
(*     too (otherwise the zeroed positions would pass for known bests);    *)
(*   - SetPos, SetBest and InitBox invalidate the cache: the next call     *)
(*     evaluates what the user supplied before it is used as a best;       *)
(*   - after the best positions were re-evaluated (cold cache, bests       *)
(*     present) the swarm best is folded over the personal bests.          *)
(***************************************************************************)
EXTENDS Integers, Sequences, FiniteSets

VARIABLES env,        \* [n, d, scale, cells]
          co,         \* coefficients of the running call [wn, c1n, c2n]
          pos, vel,   \* n vectors each
          best,       \* n+1 vectors, the last one is the swarm best
          cfv, cin,   \* cache of the current positions: value, inside flag
          bfv, bin,   \* cache of the best positions (n+1)
          posInit, velInit, bestInit, cacheInit,
          pc,         \* "idle" | "dom" | "eval" | "fold" | "upd" | "draw" | "move"
          tgt,        \* what f_constrained is working on: "pos" | "best"
          ci,         \* next point to be tested by DomTest
          itleft,     \* iterations left in this call
          rc,         \* rng_cache of the current iteration
          first,      \* the update at the start of the call is still to come
          warm,       \* ghost: the call started with an initialised cache and bests
          pmin,       \* ghost: n+1 running minima of the in-domain evaluations (per particle, swarm)
          called      \* ghost: every point ever passed to the objective

vars == <<env, co, pos, vel, best, cfv, cin, bfv, bin, posInit, velInit, bestInit, cacheInit,
          pc, tgt, ci, itleft, rc, first, warm, pmin, called>>

N == env.n
ZeroV == [m \in 1..env.d |-> 0]

CellOf(x) == [m \in 1..env.d |-> x[m] \div env.scale]
Dom       == {r.c : r \in env.cells}
InDom(x)  == CellOf(x) \in Dom
Obj(x)    == (CHOOSE r \in env.cells : r.c = CellOf(x)).v

NoneR    == [has |-> FALSE, v |-> 0]
SomeR(v) == [has |-> TRUE, v |-> v]
MinR(a, b) == IF ~a.has THEN b ELSE IF ~b.has THEN a ELSE IF b.v < a.v THEN b ELSE a
MinOfSet(S) == CHOOSE m \in S : \A y \in S : m <= y
MinRSet(a, S) == IF S = {} THEN a ELSE MinR(a, SomeR(MinOfSet(S)))

--------------------------------------------------------------------------
\* ctor = "data": constructed from positions and velocities; "sized": only the sizes are known
InitWith(e, p0, v0, initialised) ==
    /\ env = e /\ co = [wn |-> 0, c1n |-> 0, c2n |-> 0]
    /\ pos = p0 /\ vel = v0
    /\ best = [i \in 1..e.n + 1 |-> [m \in 1..e.d |-> 0]]
    /\ cfv = [i \in 1..e.n |-> 0] /\ cin = [i \in 1..e.n |-> FALSE]
    /\ bfv = [i \in 1..e.n + 1 |-> 0] /\ bin = [i \in 1..e.n + 1 |-> FALSE]
    /\ posInit = initialised /\ velInit = initialised /\ bestInit = FALSE /\ cacheInit = FALSE
    /\ pc = "idle" /\ tgt = "pos" /\ ci = 0 /\ itleft = 0 /\ rc = <<>> /\ first = FALSE /\ warm = FALSE
    /\ pmin = [i \in 1..e.n + 1 |-> NoneR] /\ called = {}

\* a new execution (trace validation: several executions are concatenated)
ResetTo(e, p0, v0, initialised) ==
    /\ env' = e /\ co' = [wn |-> 0, c1n |-> 0, c2n |-> 0]
    /\ pos' = p0 /\ vel' = v0
    /\ best' = [i \in 1..e.n + 1 |-> [m \in 1..e.d |-> 0]]
    /\ cfv' = [i \in 1..e.n |-> 0] /\ cin' = [i \in 1..e.n |-> FALSE]
    /\ bfv' = [i \in 1..e.n + 1 |-> 0] /\ bin' = [i \in 1..e.n + 1 |-> FALSE]
    /\ posInit' = initialised /\ velInit' = initialised /\ bestInit' = FALSE /\ cacheInit' = FALSE
    /\ pc' = "idle" /\ tgt' = "pos" /\ ci' = 0 /\ itleft' = 0 /\ rc' = <<>> /\ first' = FALSE /\ warm' = FALSE
    /\ pmin' = [i \in 1..e.n + 1 |-> NoneR] /\ called' = {}

\* ParticleSwarm() is entered with initialised positions and velocities
StartCall(k, c) ==
    /\ pc = "idle" /\ k >= 0 /\ posInit /\ velInit
    /\ itleft' = k /\ co' = c /\ first' = TRUE /\ warm' = (cacheInit /\ bestInit) /\ rc' = <<>>
    /\ IF cacheInit THEN pc' = "upd" /\ UNCHANGED <<tgt, ci>>
                    ELSE pc' = "dom" /\ tgt' = "pos" /\ ci' = 1
    /\ UNCHANGED <<env, pos, vel, best, cfv, cin, bfv, bin, posInit, velInit, bestInit, cacheInit, pmin, called>>

\* ParticleSwarm() throws before touching anything
CallThrows ==
    /\ pc = "idle" /\ ~(posInit /\ velInit)
    /\ UNCHANGED vars

\* inside(candidate) for point ci of the batch
DomTest ==
    /\ pc = "dom"
    /\ IF tgt = "pos" THEN cin' = [cin EXCEPT ![ci] = InDom(pos[ci])] /\ UNCHANGED bin
                      ELSE bin' = [bin EXCEPT ![ci] = InDom(best[ci])] /\ UNCHANGED cin
    /\ LET last == IF tgt = "pos" THEN N ELSE N + 1
       IN  IF ci = last THEN pc' = "eval" /\ ci' = 0 ELSE pc' = "dom" /\ ci' = ci + 1
    /\ UNCHANGED <<env, co, pos, vel, best, cfv, bfv, posInit, velInit, bestInit, cacheInit, tgt, itleft, rc, first, warm, pmin, called>>

PosBatch  == SelectSeq([i \in 1..N |-> i], LAMBDA i : cin[i])
BestBatch == SelectSeq([i \in 1..N + 1 |-> i], LAMBDA i : bin[i])

\* the batched objective call on the flagged current positions (no call when the batch is empty)
EvalPos ==
    /\ pc = "eval" /\ tgt = "pos"
    /\ LET fv  == [i \in 1..N |-> IF cin[i] THEN Obj(pos[i]) ELSE 0]
           ins == {i \in 1..N : cin[i]}
       IN  /\ cfv' = fv
           /\ called' = called \cup {pos[i] : i \in ins}
           /\ pmin' = [i \in 1..N + 1 |-> IF i <= N THEN (IF cin[i] THEN MinR(pmin[i], SomeR(fv[i])) ELSE pmin[i])
                                                     ELSE MinRSet(pmin[N + 1], {fv[j] : j \in ins})]
    /\ IF first /\ ~cacheInit
         THEN IF bestInit THEN pc' = "dom" /\ tgt' = "best" /\ ci' = 1 /\ UNCHANGED cacheInit
                          ELSE pc' = "upd" /\ cacheInit' = TRUE /\ UNCHANGED <<tgt, ci>>
         ELSE pc' = "upd" /\ UNCHANGED <<tgt, ci, cacheInit>>
    /\ UNCHANGED <<env, co, pos, vel, best, cin, bfv, bin, posInit, velInit, bestInit, itleft, rc, first, warm>>

\* the batched objective call on the flagged best positions (cold cache, bests present)
EvalBest ==
    /\ pc = "eval" /\ tgt = "best"
    /\ LET fv  == [i \in 1..N + 1 |-> IF bin[i] THEN Obj(best[i]) ELSE 0]
           ins == {i \in 1..N + 1 : bin[i]}
       IN  /\ bfv' = fv
           /\ called' = called \cup {best[i] : i \in ins}
           /\ pmin' = [i \in 1..N + 1 |-> IF i <= N THEN (IF bin[i] THEN MinR(pmin[i], SomeR(fv[i])) ELSE pmin[i])
                                                     ELSE MinRSet(pmin[N + 1], {fv[j] : j \in ins})]
    /\ cacheInit' = TRUE /\ pc' = "fold"
    /\ UNCHANGED <<env, co, pos, vel, best, cfv, cin, bin, posInit, velInit, bestInit, tgt, ci, itleft, rc, first, warm>>

\* sequential scans with strict comparisons, exactly as the loops of the code
RECURSIVE FoldLoop(_, _)
FoldLoop(i, s) ==
    IF i > N THEN s
    ELSE LET take == s.bin[i] /\ (~s.bin[N + 1] \/ s.bfv[i] < s.bfv[N + 1])
         IN  FoldLoop(i + 1, IF take THEN [best |-> [s.best EXCEPT ![N + 1] = s.best[i]],
                                           bfv  |-> [s.bfv  EXCEPT ![N + 1] = s.bfv[i]],
                                           bin  |-> [s.bin  EXCEPT ![N + 1] = TRUE]]
                                     ELSE s)

Fold ==
    /\ pc = "fold"
    /\ LET s == FoldLoop(1, [best |-> best, bfv |-> bfv, bin |-> bin])
       IN  best' = s.best /\ bfv' = s.bfv /\ bin' = s.bin
    /\ pc' = "upd"
    /\ UNCHANGED <<env, co, pos, vel, cfv, cin, posInit, velInit, bestInit, cacheInit, tgt, ci, itleft, rc, first, warm, pmin, called>>

RECURSIVE UpdLoop(_, _)
UpdLoop(i, s) ==
    IF i > N THEN s
    ELSE LET take == cin[i] /\ (~s.bin[i] \/ cfv[i] < s.bfv[i])
             s1 == IF take THEN [best |-> [s.best EXCEPT ![i] = pos[i]],
                                 bfv  |-> [s.bfv  EXCEPT ![i] = cfv[i]],
                                 bin  |-> [s.bin  EXCEPT ![i] = TRUE]]
                           ELSE s
             glob == take /\ (~s1.bin[N + 1] \/ s1.bfv[i] < s1.bfv[N + 1])
             s2 == IF glob THEN [best |-> [s1.best EXCEPT ![N + 1] = pos[i]],
                                 bfv  |-> [s1.bfv  EXCEPT ![N + 1] = s1.bfv[i]],
                                 bin  |-> [s1.bin  EXCEPT ![N + 1] = TRUE]]
                           ELSE s1
         IN  UpdLoop(i + 1, s2)

Upd ==
    /\ pc = "upd"
    /\ LET s == UpdLoop(1, [best |-> best, bfv |-> bfv, bin |-> bin])
       IN  best' = s.best /\ bfv' = s.bfv /\ bin' = s.bin
    /\ bestInit' = (IF first THEN TRUE ELSE bestInit) /\ first' = FALSE
    /\ rc' = <<>>
    /\ IF itleft > 0 THEN pc' = "draw" ELSE pc' = "idle"
    /\ UNCHANGED <<env, co, pos, vel, cfv, cin, posInit, velInit, cacheInit, tgt, ci, itleft, warm, pmin, called>>

Needed == IF bin[N + 1] THEN 2 * N ELSE N

\* r is the numerator over 2 returned by get_random01
Draw(r) ==
    /\ pc = "draw"
    /\ rc' = Append(rc, r)
    /\ pc' = IF Len(rc) + 1 = Needed THEN "move" ELSE "draw"
    /\ UNCHANGED <<env, co, pos, vel, best, cfv, cin, bfv, bin, posInit, velInit, bestInit, cacheInit, tgt, ci, itleft, first, warm, pmin, called>>

\* four times the new velocity of particle i, coordinate j
Num(i, j) ==
    IF bin[N + 1]
      THEN IF bin[i] THEN 2 * co.wn * vel[i][j] + co.c1n * rc[2 * i - 1] * (best[i][j] - pos[i][j])
                                                + co.c2n * rc[2 * i] * (best[N + 1][j] - pos[i][j])
                     ELSE 2 * co.wn * vel[i][j] + co.c2n * rc[2 * i - 1] * (best[N + 1][j] - pos[i][j])
      ELSE IF bin[i] THEN 2 * co.wn * vel[i][j] + co.c1n * rc[i] * (best[i][j] - pos[i][j])
                     ELSE 2 * co.wn * pos[i][j]        \* sic: inertia times the POSITION (as the code does)

OnLattice == \A i \in 1..N, j \in 1..env.d : Num(i, j) % 4 = 0

Move ==
    /\ pc = "move" /\ OnLattice
    /\ vel' = [i \in 1..N |-> [j \in 1..env.d |-> Num(i, j) \div 4]]
    /\ pos' = [i \in 1..N |-> [j \in 1..env.d |-> pos[i][j] + Num(i, j) \div 4]]
    /\ itleft' = itleft - 1 /\ rc' = <<>>
    /\ pc' = "dom" /\ tgt' = "pos" /\ ci' = 1
    /\ UNCHANGED <<env, co, best, cfv, cin, bfv, bin, posInit, velInit, bestInit, cacheInit, first, warm, pmin, called>>

--------------------------------------------------------------------------
(* state edits, legal between calls *)

\* The running minima (ghost) range over the evaluations the state still remembers: the bests
\* while they are initialised, otherwise only the cache of the current positions.  An edit that
\* drops the cache of the positions while there are no bests leaves nothing to remember.
Remembered == IF bestInit THEN pmin ELSE [i \in 1..N + 1 |-> NoneR]

ClearCache ==
    /\ pc = "idle"
    /\ cacheInit' = FALSE
    /\ cfv' = [i \in 1..N |-> 0] /\ cin' = [i \in 1..N |-> FALSE]
    /\ bfv' = [i \in 1..N + 1 |-> 0] /\ bin' = [i \in 1..N + 1 |-> FALSE]
    /\ pmin' = Remembered
    /\ UNCHANGED <<env, co, pos, vel, best, posInit, velInit, bestInit, pc, tgt, ci, itleft, rc, first, warm, called>>

\* the evaluations that still count after the bests were dropped are the ones held in the cache of the positions
ClearBest ==
    /\ pc = "idle"
    /\ bestInit' = FALSE
    /\ best' = [i \in 1..N + 1 |-> ZeroV]
    /\ bfv' = [i \in 1..N + 1 |-> 0] /\ bin' = [i \in 1..N + 1 |-> FALSE]
    /\ LET live == {i \in 1..N : cacheInit /\ cin[i]}
       IN  pmin' = [i \in 1..N + 1 |-> IF i <= N THEN (IF i \in live THEN SomeR(cfv[i]) ELSE NoneR)
                                                 ELSE MinRSet(NoneR, {cfv[j] : j \in live})]
    /\ UNCHANGED <<env, co, pos, vel, cfv, cin, posInit, velInit, cacheInit, pc, tgt, ci, itleft, rc, first, warm, called>>

SetPos(pp) ==
    /\ pc = "idle"
    /\ pos' = pp /\ posInit' = TRUE /\ cacheInit' = FALSE
    /\ pmin' = Remembered
    /\ UNCHANGED <<env, co, vel, best, cfv, cin, bfv, bin, velInit, bestInit, pc, tgt, ci, itleft, rc, first, warm, called>>

SetVel(pv) ==
    /\ pc = "idle"
    /\ vel' = pv /\ velInit' = TRUE
    /\ UNCHANGED <<env, co, pos, best, cfv, cin, bfv, bin, posInit, bestInit, cacheInit, pc, tgt, ci, itleft, rc, first, warm, pmin, called>>

\* user supplied bests replace everything known so far: the running minima restart
SetBest(bpp) ==
    /\ pc = "idle"
    /\ best' = bpp /\ bestInit' = TRUE /\ cacheInit' = FALSE
    /\ pmin' = [i \in 1..N + 1 |-> NoneR]
    /\ UNCHANGED <<env, co, pos, vel, cfv, cin, bfv, bin, posInit, velInit, pc, tgt, ci, itleft, rc, first, warm, called>>

\* initializeParticlesInsideBox(lo, hi, rng): rs are the 2 n d draws (position, velocity alternating)
InitBox(lo, hi, rs) ==
    /\ pc = "idle" /\ Len(rs) = 2 * N * env.d
    /\ LET range(j) == IF hi[j] >= lo[j] THEN hi[j] - lo[j] ELSE lo[j] - hi[j]
           k(i, j)  == (i - 1) * env.d + j
       IN  /\ \A j \in 1..env.d : range(j) % 2 = 0
           /\ pos' = [i \in 1..N |-> [j \in 1..env.d |-> (range(j) * rs[2 * k(i, j) - 1]) \div 2 + lo[j]]]
           /\ vel' = [i \in 1..N |-> [j \in 1..env.d |-> range(j) * rs[2 * k(i, j)] - range(j)]]
    /\ posInit' = TRUE /\ velInit' = TRUE /\ cacheInit' = FALSE
    /\ pmin' = Remembered
    /\ UNCHANGED <<env, co, best, cfv, cin, bfv, bin, bestInit, pc, tgt, ci, itleft, rc, first, warm, called>>

--------------------------------------------------------------------------
(* The clauses of property C20. *)

\* the objective is never given a point outside the domain
OnlyInside == \A x \in called : InDom(x)

\* known bests (personal and swarm) are points that were evaluated inside the domain,
\* and their cached values are the objective there
BestsVisited ==
    cacheInit => \A i \in 1..N + 1 : bin[i] => /\ InDom(best[i])
                                                /\ best[i] \in called
                                                /\ bfv[i] = Obj(best[i])

\* points of the computation where update() has digested the last evaluation
Settled == pc \in {"idle", "draw", "move"} /\ cacheInit /\ bestInit

\* the swarm best is the minimum over all in-domain evaluations so far
SwarmBestIsMin ==
    Settled => /\ bin[N + 1] <=> pmin[N + 1].has
               /\ bin[N + 1] => bfv[N + 1] = pmin[N + 1].v

\* ... and so is each particle's best with respect to the particle's own evaluations
PersonalBestIsMin ==
    Settled => \A i \in 1..N : /\ bin[i] <=> pmin[i].has
                               /\ bin[i] => bfv[i] = pmin[i].v

\* the swarm best is at least as good as every personal best, personal bests as good as the current point
Ordered ==
    Settled => /\ \A i \in 1..N : bin[i] => (bin[N + 1] /\ bfv[N + 1] <= bfv[i])
               /\ \A i \in 1..N : cin[i] => (bin[i] /\ bfv[i] <= cfv[i])

\* the flags after a completed call
FlagsAfterCall == (pc \in {"draw", "move"}) => (cacheInit /\ bestInit)

TypeOK ==
    /\ pc \in {"idle", "dom", "eval", "fold", "upd", "draw", "move"}
    /\ Len(pos) = N /\ Len(vel) = N /\ Len(best) = N + 1
    /\ itleft >= 0

\* the value of the swarm best never increases while the algorithm runs
NonIncreasingStep ==
    (pc # "idle" /\ cacheInit /\ bin[N + 1]) => (bin'[N + 1] /\ bfv'[N + 1] <= bfv[N + 1])
NonIncreasing == [][NonIncreasingStep]_vars

\* returning to the caller and entering again changes nothing: the update at the start of a
\* call on a state with initialised cache and bests is the identity and no random number is
\* consumed outside the iterations, hence n then m iterations = n + m iterations on one stream
BoundaryStep ==
    (pc = "upd" /\ first /\ warm) => (best' = best /\ bfv' = bfv /\ bin' = bin /\ bestInit' = bestInit
                                       /\ pos' = pos /\ vel' = vel /\ cfv' = cfv /\ cin' = cin /\ cacheInit' = cacheInit)
BoundaryTransparent == [][BoundaryStep]_vars

=============================================================================
