SPECIFICATION MCSpec
CONSTANTS
  FAM = "global"
  RULE = "leja"
  ORDER = 0
  D = 2
  OUTS = 1
  MAXDEPTH = 2
  MAXLEN = 4
  MAXPTS = 12
  COEF = FALSE
  EMIT = FALSE
VIEW AbstractView
INVARIANTS Disjoint ValuesAttached NeededWithinLimits OrderIndependent NothingDropped CandidatesNotLoaded
PROPERTIES LoadedMonotone UpdateKeepsLoaded FrameRefine ClearOnlyDropsNeeded LoadMakesNeededLoaded LimitsPersist RemoveOnlyDrops SetCoefKeepsPoints
CHECK_DEADLOCK FALSE
