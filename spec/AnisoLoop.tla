------------------------------ MODULE AnisoLoop ------------------------------
(***************************************************************************)
(* C08, termination clause.  setAnisotropicRefinement (Global, Sequence,   *)
(* Fourier) raises the selection level until the update proposes at least  *)
(* min_growth new points.  One loop iteration is one action, so that a run *)
(* that never leaves the loop is a behaviour TLC can exhibit.  The loop    *)
(* must leave, for every weight vector, every limit vector (including      *)
(* limits that are already saturated by the loaded tensors) and every      *)
(* min_growth, within a number of iterations bounded by the parameters.     *)
(*                                                                         *)
(* EXITRULE "documented": the loop also leaves when the limits bound every *)
(*           direction and every tensor they admit is present (fix d370c47)*)
(*          "pinned": the loop of the pinned tree, which only tests the    *)
(*           growth -- kept as the negative control of the check           *)
(***************************************************************************)
EXTENDS Selection

CONSTANTS D,          \* dimensions
          MAXW,       \* anisotropic weights 1..MAXW per direction
          MAXLIM,     \* limit entries -1..MAXLIM
          MAXMG,      \* min_growth 1..MAXMG
          START,      \* depth of the loaded grid
          CAP,        \* iterations after which a run counts as not terminating
          EXITRULE

VARIABLES w, lim, mg, loaded, lvl, need, pc
vars == <<w, lim, mg, loaded, lvl, need, pc>>

Tensors(level, ww, ll) == SelectTensors("sequence", "leja", D, level, "level", ww, ll)

\* the limits bound every direction and every tensor they admit is already selected
BoxFull(ll, T) == ll # <<>> /\ (\A j \in 1..D : ll[j] >= 0) /\ \A t \in BoxUpTo(D, ll) : t \in T

Init == /\ w \in [1..D -> 1..MAXW]
        /\ lim \in {<<>>} \cup [1..D -> -1..MAXLIM]
        /\ mg \in 1..MAXMG
        /\ loaded = Tensors(START, [j \in 1..D |-> 1], lim)
        /\ lvl = 1 /\ need = {} /\ pc = "loop"

\* one pass: select at the current level with the estimated weights under the stored limits
Pass == /\ pc = "loop"
        /\ LET sel == Tensors(lvl, w, lim)
               nw  == (sel \cup loaded) \ loaded
           IN /\ need' = nw
              /\ IF Cardinality(nw) >= mg THEN pc' = "done" /\ lvl' = lvl
                 ELSE IF EXITRULE = "documented" /\ BoxFull(lim, sel \cup loaded) THEN pc' = "done" /\ lvl' = lvl
                 ELSE pc' = "loop" /\ lvl' = lvl + 1
        /\ UNCHANGED <<w, lim, mg, loaded>>

Done == pc = "done" /\ UNCHANGED vars
Next == Pass \/ Done
Spec == Init /\ [][Next]_vars /\ WF_vars(Pass)

-----------------------------------------------------------------------------
\* the loop leaves before CAP iterations (CAP is far above what the parameters can need)
Terminates == lvl < CAP
EventuallyDone == <>(pc = "done")
\* what it leaves with obeys the limits (C08) and is disjoint from the loaded tensors
NeedWithinLimits == \A t \in need : WithinLimits(t, lim) /\ t \notin loaded
\* saturated limits: nothing is proposed and the call still returns
SaturatedProposesNothing == (pc = "done" /\ BoxFull(lim, loaded)) => need = {}
Bound == lvl <= CAP
=============================================================================
