SPECIFICATION MCSpec
CONSTANTS
  SCHEME = "repaired"
  READER = "strict"
  MAGIC = 1
  TAILU = 1
  BUDGET = 3
  BATCH = 1
  NCHUNK = 2
  UNITS = 2
  MAXCRASH = 2
  EMIT = TRUE
VIEW AbstractView
ACTION_CONSTRAINT Emit
CHECK_DEADLOCK FALSE
