SPECIFICATION TSpec
CONSTANTS
  Threads = {1,2,3,4}
  Cells = {0}
  DISC = "pinned"
  NOPS = 0
CONSTRAINT Track
INVARIANTS Grammar ResultsRecorded NoConflictT ResultsSequentialT TypeOK LockCoherent
POSTCONDITION Witnessed
CHECK_DEADLOCK TRUE
