--------------------------- MODULE ParConstructMC ---------------------------
(* Exhaustive exploration of ParConstruct.tla for small constants: every       *)
(* interleaving of main and the workers (model latency = where WModelEnd falls *)
(* in the interleaving), spurious wake-ups, every candidate list the grid may  *)
(* return.  The grid is an environment: the first refresh returns any subset   *)
(* of the pool in one of the ORDERS; a later refresh returns either the        *)
(* current list without the loaded points ("stable") or, at most MAXCHG times, *)
(* again an arbitrary list of not yet loaded points (re-ranking, new           *)
(* refinement candidates, candidates that disappear while their job runs,      *)
(* tolerance reached = empty list).  The model returns the value of the point. *)
EXTENDS ParConstruct, TLC

CONSTANTS NW, NP, BUDGET, BATCH, PAR, GUARD, INIT0, EAGER, RNUM, RDEN, REORDER, MAXCHG, SPURIOUS,
          INITFULL   \* TRUE: the first refresh returns the whole pool (ascending); FALSE: any list

VARIABLE chg
allvars == <<vars, chg>>

Points  == 1..NP
InitPts == {100 + k : k \in 1..INIT0}
Cfg0 == [nw |-> NW, budget |-> BUDGET, batch |-> BATCH, par |-> PAR, guard |-> GUARD, init |-> InitPts,
         eager |-> EAGER, rnum |-> RNUM, rden |-> RDEN]

Ascending  == [i \in 1..NP |-> i]
Descending == [i \in 1..NP |-> NP + 1 - i]
Orders == IF REORDER THEN {Ascending, Descending} ELSE {Ascending}

\* points the grid may still propose after load_complete()
Avail == Points \ Delivered(loaded \cup Range(stored))
Stable == SelectSeq(cand, LAMBDA p : p \in Avail)
Arbitrary == {SubSeqAt(o, {i \in 1..NP : o[i] \in S}) : o \in Orders, S \in SUBSET Avail}
NewLists == IF pcm = "start" THEN (IF INITFULL THEN {Ascending} ELSE Arbitrary)
            ELSE {Stable} \cup (IF chg > 0 THEN Arbitrary ELSE {})
ChgAfter(new) == IF pcm # "start" /\ new # Stable THEN chg - 1 ELSE chg

MCInit == InitWith(Cfg0) /\ chg = MAXCHG

\* one definition per action so that TLC's coverage statistics are per action
\* (the pc guard is repeated in front of the quantifier so that TLC does not enumerate NewLists in vain)
cMRefresh0   == pcm = "start" /\ \E new \in NewLists : MRefresh0(new) /\ chg' = ChgAfter(new)
cMRule       == pcm = "c_budget" /\ \E new \in NewLists : MRule(new) /\ chg' = ChgAfter(new)
cMRefresh2   == pcm \in {"c_budget", "c_checkout"} /\ \E new \in NewLists : MRefresh2(new) /\ chg' = ChgAfter(new)
cMSeqRefresh == pcm = "s_next" /\ \E new \in NewLists : MSeqRefresh(new) /\ chg' = ChgAfter(new)
cMSeqRule    == pcm = "s_rule" /\ \E new \in NewLists : MSeqRule(new) /\ chg' = ChgAfter(new)
cMLaunch      == MLaunch /\ UNCHANGED chg
cMTest        == MTest /\ UNCHANGED chg
cMWaitCheck   == MWaitCheck /\ UNCHANGED chg
cMCollectSkip == MCollectSkip /\ UNCHANGED chg
cMCollectTake == MCollectTake(Cardinality(loaded)) /\ UNCHANGED chg
cMBudgetStop  == MBudgetStop /\ UNCHANGED chg
cMCheckout    == MCheckout /\ UNCHANGED chg
cMCheckout2   == MCheckout2 /\ UNCHANGED chg
cMCollectEnd  == MCollectEnd /\ UNCHANGED chg
cMNotifyAll   == MNotifyAll /\ UNCHANGED chg
cMFlush       == MFlush /\ UNCHANGED chg
cMJoin        == MJoin /\ UNCHANGED chg
cMSeqTest     == MSeqTest /\ UNCHANGED chg
cMSeqNext     == MSeqNext /\ UNCHANGED chg
cMSeqNext2    == MSeqNext2 /\ UNCHANGED chg
cMSeqModelBegin == MSeqModelBegin /\ UNCHANGED chg
cMSeqModelEnd == MSeqModelEnd(x[0]) /\ UNCHANGED chg
cMSeqStore    == MSeqStore(Cardinality(loaded)) /\ UNCHANGED chg
cMSeqRuleSkip == MSeqRuleSkip /\ UNCHANGED chg

MainStep == \/ cMRefresh0 \/ cMRule \/ cMRefresh2 \/ cMLaunch \/ cMTest \/ cMWaitCheck \/ cMCollectSkip \/ cMCollectTake
            \/ cMBudgetStop \/ cMCheckout \/ cMCheckout2 \/ cMCollectEnd \/ cMNotifyAll \/ cMFlush \/ cMJoin
            \/ cMSeqRefresh \/ cMSeqRule \/ cMSeqTest \/ cMSeqNext \/ cMSeqNext2 \/ cMSeqModelBegin \/ cMSeqModelEnd
            \/ cMSeqStore \/ cMSeqRuleSkip

cWModelBegin(w) == WModelBegin(w) /\ UNCHANGED chg
cWModelEnd(w)   == WModelEnd(w, x[w]) /\ UNCHANGED chg
cWDone(w)       == WDone(w) /\ UNCHANGED chg
cWNotify(w)     == WNotify(w) /\ UNCHANGED chg
cWWaitCheck(w)  == WWaitCheck(w) /\ UNCHANGED chg
WorkerStep(w) == cWModelBegin(w) \/ cWModelEnd(w) \/ cWDone(w) \/ cWNotify(w) \/ cWWaitCheck(w)

cMSpurious    == SPURIOUS /\ MSpurious /\ UNCHANGED chg
cWSpurious(w) == SPURIOUS /\ WSpurious(w) /\ UNCHANGED chg
SpuriousStep == cMSpurious \/ \E w \in 0..(NW - 1) : cWSpurious(w)

Terminated == pcm = "done" /\ UNCHANGED allvars

MCNext == MainStep \/ (\E w \in 0..(NW - 1) : WorkerStep(w)) \/ SpuriousStep \/ Terminated

MCSpec == MCInit /\ [][MCNext]_allvars

\* weak fairness of every thread; none for spurious wake-ups
FairSpec == MCSpec /\ WF_allvars(MainStep) /\ \A w \in 0..(NW - 1) : WF_allvars(WorkerStep(w))

Termination == <>(pcm = "done")

\* every state but the final one has a step that is not a spurious wake-up
NoStuck == pcm # "done" => ENABLED (MainStep \/ \E w \in 0..(NW - 1) : WorkerStep(w))
=============================================================================
