// Conformance driver for C20: runs TasOptimization::ParticleSwarm (C++ API or the C wrapper) and the
// ParticleSwarmState edits on scripted environments and writes an ndjson trace of everything the
// algorithm asked of its environment (every domain test, every objective batch with the returned
// values, every random number) plus the state seen through the public getters after every call and
// every edit.  There is no expected value in here: SwarmTrace.tla judges.
//
// All coordinates are integers in units of 1/scale (scale a power of 4): the real coordinate is
// value / scale.  Coefficients and random numbers are numerators over 2.  The objective is constant on
// unit cells and defined exactly on the cells of the domain.
//
// input (text, many scenarios):
//   SCEN n d scale api ctor        api: 0 C++, 1 C wrapper;  ctor: 0 sizes only, 1 positions + velocities
//   CELLS count   / count lines: c1..cd v
//   POS n*d ints   VEL n*d ints
//   RNG len r...                   (numerators over 2, cycled)
//   OPS m  / m lines:  CALL k wn c1n c2n | CC | CB | SP n*d | SV n*d | SB (n+1)*d | IB lo(d) hi(d)
#include "TasmanianOptimization.hpp"
#include <cstdio>
#include <cmath>
#include <map>
#include <fstream>
#include <iostream>

using namespace TasOptimization;

extern "C" {
    void* tsgParticleSwarmState_Construct(int num_dimensions, int num_particles);
    void tsgParticleSwarmState_Destruct(void* state);
    void tsgParticleSwarmState_GetParticlePositions(void* state, double pp[]);
    void tsgParticleSwarmState_GetParticleVelocities(void* state, double pv[]);
    void tsgParticleSwarmState_GetBestParticlePositions(void* state, double bpp[]);
    void tsgParticleSwarmState_GetBestPosition(void* state, double bp[]);
    int tsgParticleSwarmState_IsPositionInitialized(void* state);
    int tsgParticleSwarmState_IsVelocityInitialized(void* state);
    int tsgParticleSwarmState_IsBestPositionInitialized(void* state);
    int tsgParticleSwarmState_IsCacheInitialized(void* state);
    void tsgParticleSwarmState_SetParticlePositions(void* state, const double pp[]);
    void tsgParticleSwarmState_SetParticleVelocities(void* state, const double pv[]);
    void tsgParticleSwarmState_SetBestParticlePositions(void* state, const double bpp[]);
    void tsgParticleSwarmState_ClearBestParticles(void* state);
    void tsgParticleSwarmState_ClearCache(void* state);
    void tsgParticleSwarmState_InitializeParticlesInsideBox(void* state, const double box_lower[], const double box_upper[],
                                                            const char* random_type, const int random_seed, double (*random_callback)());
    void tsgParticleSwarm(void (*f_ptr)(const int, const int, const double[], double[], int[]),
                          int (*inside_ptr)(const int, const double[], int[]), const double inertia_weight,
                          const double cognitive_coeff, const double social_coeff, const int num_iterations, void *state,
                          const char* random_type, const int random_seed, double (*random_callback)(), int *err);
}

static FILE *out = nullptr;

struct Scenario{
    int n, d, api, ctor;
    long long scale;
    std::map<std::vector<long long>, long long> cells;
    std::vector<long long> pos, vel;
    std::vector<int> rng;
    size_t ir = 0;
    bool collect = false;          // draws of initializeParticlesInsideBox are reported with the edit
    std::vector<int> collected;
};
static Scenario *S = nullptr;

// double -> lattice integer (units of 1/scale), or a marker TLC cannot match
static std::string num(double v){
    double y = v * (double) S->scale;
    if (std::isfinite(y) && std::floor(y) == y && std::fabs(y) < 2.0e9){ char b[64]; snprintf(b, 64, "%lld", (long long) y); return b; }
    return "\"nonlattice\"";
}
static std::string val(double v){
    if (std::isfinite(v) && std::floor(v) == v && std::fabs(v) < 2.0e9){ char b[64]; snprintf(b, 64, "%lld", (long long) v); return b; }
    return "\"nonlattice\"";
}
static std::string vec(const double *x, size_t n){ std::string s = "["; for(size_t i=0; i<n; i++){ if (i) s += ","; s += num(x[i]); } return s + "]"; }
static std::string strips(const double *x, size_t cnt, size_t d){
    std::string s = "["; for(size_t i=0; i<cnt; i++){ if (i) s += ","; s += vec(x + i * d, d); } return s + "]";
}
static std::string vals(const double *x, size_t n){ std::string s = "["; for(size_t i=0; i<n; i++){ if (i) s += ","; s += val(x[i]); } return s + "]"; }
static std::string ivec(std::vector<int> const &x){ std::string s = "["; for(size_t i=0; i<x.size(); i++){ if (i) s += ","; s += std::to_string(x[i]); } return s + "]"; }
static std::string lstrips(std::vector<long long> const &x, size_t d){
    std::string s = "["; size_t cnt = x.size() / d;
    for(size_t i=0; i<cnt; i++){ if (i) s += ","; s += "["; for(size_t j=0; j<d; j++){ if (j) s += ","; s += std::to_string(x[i*d+j]); } s += "]"; }
    return s + "]";
}
static std::string lvec(std::vector<long long> const &x){ std::string s = "["; for(size_t i=0; i<x.size(); i++){ if (i) s += ","; s += std::to_string(x[i]); } return s + "]"; }
static std::vector<double> todouble(std::vector<long long> const &x){
    std::vector<double> r(x.size()); for(size_t i=0; i<x.size(); i++) r[i] = ((double) x[i]) / (double) S->scale; return r;
}

// --- the environment
static bool cell_of(const double *x, std::vector<long long> &key){
    key.resize(S->d);
    for(int j=0; j<S->d; j++){ if (!std::isfinite(x[j]) || std::fabs(x[j]) > 1.0e9) return false; key[j] = (long long) std::floor(x[j]); }
    return true;
}
static bool env_inside(const double *x){
    std::vector<long long> key;
    bool ok = cell_of(x, key) && (S->cells.find(key) != S->cells.end());
    fprintf(out, "{\"e\":\"In\",\"x\":%s,\"ok\":%s}\n", vec(x, S->d).c_str(), ok ? "true" : "false");
    return ok;
}
static void env_objective(int nb, const double *x, double *f){
    for(int c=0; c<nb; c++){
        std::vector<long long> key;
        auto it = cell_of(x + c * S->d, key) ? S->cells.find(key) : S->cells.end();
        if (it == S->cells.end()){
            fprintf(out, "{\"e\":\"ObjOutside\",\"x\":%s}\n", vec(x + c * S->d, S->d).c_str());
            f[c] = -1000.0;
        }else f[c] = (double) it->second;
    }
    fprintf(out, "{\"e\":\"Obj\",\"x\":%s,\"v\":%s}\n", strips(x, nb, S->d).c_str(), vals(f, nb).c_str());
}
static double env_rng(){
    int r = S->rng.empty() ? 0 : S->rng[S->ir++ % S->rng.size()];
    if (S->collect) S->collected.push_back(r);
    else fprintf(out, "{\"e\":\"Rng\",\"r\":%d}\n", r);
    return ((double) r) / 2.0;
}
// C callbacks
static int c_inside(const int nd, const double x[], int err[]){ (void) nd; err[0] = 0; return env_inside(x) ? 1 : 0; }
static void c_objective(const int nd, const int nb, const double x[], double f[], int err[]){ (void) nd; err[0] = 0; env_objective(nb, x, f); }
static double c_rng(){ return env_rng(); }

int main(int argc, char **argv){
    if (argc < 3){ fprintf(stderr, "usage: swarm_replay scenarios.txt trace.ndjson\n"); return 2; }
    std::ifstream in(argv[1]);
    out = fopen(argv[2], "w");
    std::string tok;
    while(in >> tok){
        if (tok != "SCEN"){ fprintf(stderr, "bad scenario file at %s\n", tok.c_str()); return 2; }
        Scenario s; S = &s;
        in >> s.n >> s.d >> s.scale >> s.api >> s.ctor;
        int cnt; in >> tok >> cnt;
        std::string cj = "[";
        for(int i=0; i<cnt; i++){
            std::vector<long long> c(s.d); for(auto &v : c) in >> v; long long v; in >> v; s.cells[c] = v;
            if (i) cj += ",";
            cj += "{\"c\":["; for(int j=0; j<s.d; j++){ if (j) cj += ","; cj += std::to_string(c[j]); }
            cj += "],\"v\":" + std::to_string(v) + "}";
        }
        cj += "]";
        in >> tok; s.pos.resize(s.n * s.d); for(auto &v : s.pos) in >> v;
        in >> tok; s.vel.resize(s.n * s.d); for(auto &v : s.vel) in >> v;
        int len; in >> tok >> len; s.rng.resize(len); for(auto &v : s.rng) in >> v;
        int m; in >> tok >> m;

        const size_t n = s.n, d = s.d;
        ParticleSwarmState *cpp = nullptr; void *cst = nullptr;
        auto show = [&](const char *ev)->void{
            std::vector<double> p(n * d), v(n * d), b((n + 1) * d), g(d);
            int f[4];
            if (s.api == 0){
                p = cpp->getParticlePositions(); v = cpp->getParticleVelocities(); b = cpp->getBestParticlePositions(); g = cpp->getBestPosition();
                std::vector<bool> sv = cpp->getStateVector(); for(int i=0; i<4; i++) f[i] = sv[i] ? 1 : 0;
            }else{
                tsgParticleSwarmState_GetParticlePositions(cst, p.data()); tsgParticleSwarmState_GetParticleVelocities(cst, v.data());
                tsgParticleSwarmState_GetBestParticlePositions(cst, b.data()); tsgParticleSwarmState_GetBestPosition(cst, g.data());
                f[0] = tsgParticleSwarmState_IsPositionInitialized(cst); f[1] = tsgParticleSwarmState_IsVelocityInitialized(cst);
                f[2] = tsgParticleSwarmState_IsBestPositionInitialized(cst); f[3] = tsgParticleSwarmState_IsCacheInitialized(cst);
            }
            fprintf(out, "{\"e\":\"%s\",\"pos\":%s,\"vel\":%s,\"best\":%s,\"gbest\":%s,\"flags\":[%s,%s,%s,%s]}\n", ev,
                    strips(p.data(), n, d).c_str(), strips(v.data(), n, d).c_str(), strips(b.data(), n + 1, d).c_str(), vec(g.data(), d).c_str(),
                    f[0] ? "true" : "false", f[1] ? "true" : "false", f[2] ? "true" : "false", f[3] ? "true" : "false");
        };
        auto edit = [&](const char *k, std::vector<long long> const &a)->void{
            std::vector<double> x = todouble(a);
            std::string kk(k);
            if (kk == "setPos"){ if (s.api == 0) cpp->setParticlePositions(x); else tsgParticleSwarmState_SetParticlePositions(cst, x.data()); }
            else if (kk == "setVel"){ if (s.api == 0) cpp->setParticleVelocities(x); else tsgParticleSwarmState_SetParticleVelocities(cst, x.data()); }
            else if (kk == "setBest"){ if (s.api == 0) cpp->setBestParticlePositions(x); else tsgParticleSwarmState_SetBestParticlePositions(cst, x.data()); }
            else if (kk == "clearCache"){ if (s.api == 0) cpp->clearCache(); else tsgParticleSwarmState_ClearCache(cst); }
            else if (kk == "clearBest"){ if (s.api == 0) cpp->clearBestParticles(); else tsgParticleSwarmState_ClearBestParticles(cst); }
            fprintf(out, "{\"e\":\"Edit\",\"k\":\"%s\",\"a\":%s}\n", k, lstrips(a, d).c_str());
            show("Get");
        };

        // construction: the C wrapper only offers the sizes-only constructor, data then goes through the setters
        bool data_ctor = (s.ctor == 1 && s.api == 0);
        fprintf(out, "{\"e\":\"Reset\",\"n\":%d,\"d\":%d,\"scale\":%lld,\"api\":%d,\"ctor\":\"%s\",\"cells\":%s,\"pos\":%s,\"vel\":%s}\n",
                s.n, s.d, s.scale, s.api, data_ctor ? "data" : "sized", cj.c_str(),
                data_ctor ? lstrips(s.pos, d).c_str() : lstrips(std::vector<long long>(n * d, 0), d).c_str(),
                data_ctor ? lstrips(s.vel, d).c_str() : lstrips(std::vector<long long>(n * d, 0), d).c_str());
        if (s.api == 0){
            if (s.ctor == 1) cpp = new ParticleSwarmState(s.d, todouble(s.pos), todouble(s.vel));
            else cpp = new ParticleSwarmState(s.d, s.n);
        }else{
            cst = tsgParticleSwarmState_Construct(s.d, s.n);
        }
        show("Get");
        if (s.api == 1 && s.ctor == 1){ edit("setPos", s.pos); edit("setVel", s.vel); }

        for(int o=0; o<m; o++){
            in >> tok;
            if (tok == "CALL"){
                int k, wn, c1n, c2n; in >> k >> wn >> c1n >> c2n;
                fprintf(out, "{\"e\":\"Start\",\"k\":%d,\"wn\":%d,\"c1n\":%d,\"c2n\":%d}\n", k, wn, c1n, c2n);
                bool threw = false;
                if (s.api == 0){
                    try{
                        ParticleSwarm([&](const std::vector<double> &x, std::vector<double> &f)->void{
                                          if (x.size() != f.size() * d) fprintf(out, "{\"e\":\"BadSizes\"}\n");
                                          env_objective((int) f.size(), x.data(), f.data()); },
                                      [&](const std::vector<double> &x)->bool{ return env_inside(x.data()); },
                                      wn / 2.0, c1n / 2.0, c2n / 2.0, k, *cpp, env_rng);
                    }catch(std::runtime_error &){ threw = true; }
                }else{
                    int err = 0;
                    tsgParticleSwarm(c_objective, c_inside, wn / 2.0, c1n / 2.0, c2n / 2.0, k, cst, "callback", 1, c_rng, &err);
                    threw = (err != 0);
                }
                if (threw) fprintf(out, "{\"e\":\"Threw\"}\n");
                show("End");
            }else if (tok == "CC"){ edit("clearCache", {}); }
            else if (tok == "CB"){ edit("clearBest", {}); }
            else if (tok == "SP" || tok == "SV"){
                std::vector<long long> a(n * d); for(auto &v : a) in >> v;
                edit(tok == "SP" ? "setPos" : "setVel", a);
            }else if (tok == "SB"){
                std::vector<long long> a((n + 1) * d); for(auto &v : a) in >> v;
                edit("setBest", a);
            }else if (tok == "IB"){
                std::vector<long long> lo(d), hi(d); for(auto &v : lo) in >> v; for(auto &v : hi) in >> v;
                std::vector<double> dlo = todouble(lo), dhi = todouble(hi);
                s.collect = true; s.collected.clear();
                if (s.api == 0) cpp->initializeParticlesInsideBox(dlo, dhi, env_rng);
                else tsgParticleSwarmState_InitializeParticlesInsideBox(cst, dlo.data(), dhi.data(), "callback", 1, c_rng);
                s.collect = false;
                fprintf(out, "{\"e\":\"InitBox\",\"lo\":%s,\"hi\":%s,\"r\":%s}\n", lvec(lo).c_str(), lvec(hi).c_str(), ivec(s.collected).c_str());
                show("Get");
            }else{ fprintf(stderr, "bad op %s\n", tok.c_str()); return 2; }
        }
        if (cpp) delete cpp;
        if (cst) tsgParticleSwarmState_Destruct(cst);
        fflush(out);
    }
    fclose(out);
    return 0;
}
