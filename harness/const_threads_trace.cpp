// Conformance driver for C12 (concurrent const operations on one grid).
//
// For every execution of the plan: build a grid G (family / variant / state) with the H3 cache
// hooks recording the sequential preparation, build an identical twin G' (hooks muted) and run
// every planned call alone on the twin (reference results), then start N threads that perform
// their planned const calls on one `const TasmanianSparseGrid&` (G).  Each thread records its
// own access program (hook events with a thread-local sequence number) and, per call, whether
// the concurrent result equals the reference (bitwise or 1e-14 relative): the `eq` bit.
// The `det` bit tells whether two identical twins agree on the reference at all.
// There is no verdict in here: spec/ConstCacheTrace.tla (TLC) judges the ndjson output.
//
// plan (text):   EXEC id family variant state nthreads yield_permille seed
//                T op:arg op:arg ...          (nthreads lines)
// output: one JSON object per execution (see ConstCacheTrace.tla)
#include "TasmanianSparseGrid.hpp"
#include "tsgVerifHooks.hpp"
#include <atomic>
#include <cmath>
#include <cstdio>
#include <cstring>
#include <fstream>
#include <iostream>
#include <random>
#include <sstream>
#include <thread>
#include <sched.h>
#include <sys/mman.h>
#include <sys/wait.h>
#include <unistd.h>

using namespace TasGrid;

struct Ev{ const char *n; long long c, o, p, s; };
struct Call{ std::string op; int arg; long long s0, s1; std::vector<Ev> ev; std::vector<double> out; bool threw; bool eq; bool det; std::string diff; };

static thread_local std::vector<Ev> *tl_buf = nullptr;
static thread_local long long tl_seq = 0;
static thread_local bool tl_mute = true;
static thread_local int tl_tid = 0;
static thread_local std::mt19937 *tl_rng = nullptr;
static std::atomic<long long> other_events(0);
static int yield_permille = 0;
static volatile int *phase = nullptr; // 1 preparation, 2 twin + calls made alone, 3 threads running, 4 serialising (shared with the parent)

static void sink(const char *ev, const long long *a, int na){
    if (tl_mute || tl_buf == nullptr) return;
    if (std::strncmp(ev, "wcache_", 7) != 0){ other_events++; return; }
    const char *n = "unknown";
    std::string e(ev + 7);
    if (e == "check") n = "chk"; else if (e == "build_begin") n = "bb"; else if (e == "build_end") n = "be";
    else if (e == "use_begin") n = "ub"; else if (e == "use_end") n = "ue"; else if (e == "invalidate") n = "inv";
    else if (e == "lock") n = "lk"; else if (e == "unlock") n = "ul";
    else if (e == "local_build_begin") n = "lbb"; else if (e == "local_build_end") n = "lbe";
    tl_buf->push_back(Ev{n, (na > 0) ? a[0] : 0, (na > 1) ? a[1] : 0, (na > 2) ? a[2] : 2, tl_seq++});
}
static void sched(const char *){
    if (tl_tid == 0 || tl_rng == nullptr || yield_permille == 0) return;
    int r = (int) ((*tl_rng)() % 1000u);
    if (r < yield_permille){
        if (r % 3 == 0) sched_yield(); else usleep(20 + (r % 7) * 40);
    }
}

// ---------------------------------------------------------------- grids
static void model(const double x[], double y[], int outs){
    if (outs > 0) y[0] = std::exp(-x[0] * x[0] - 0.5 * x[1]);
    if (outs > 1) y[1] = std::cos(x[0] + 2.0 * x[1]);
}
static void load(TasmanianSparseGrid &g){
    int outs = g.getNumOutputs();
    std::vector<double> p = g.getNeededPoints();
    if (outs == 0 || p.empty()) return;
    std::vector<double> v((p.size() / 2) * outs);
    for(size_t i=0; i<p.size()/2; i++) model(&p[2*i], &v[i*outs], outs);
    g.loadNeededValues(v);
}
static void refine(TasmanianSparseGrid &g){
    if (g.isLocalPolynomial() || g.isWavelet()) g.setSurplusRefinement(1.E-2, refine_classic);
    else g.setAnisotropicRefinement(type_iptotal, 4, 0);
}
// builds the grid in the requested state; `file` is a scratch path for the read-from-file state
static void build(TasmanianSparseGrid &g, std::string const &fam, int var, std::string const &state, std::string const &file, bool write_file){
    int outs = (state == "zero" || state == "zeroread") ? 0 : 2;
    bool want_refine = (state == "refined" || state == "merged" || state == "reloaded" || (state == "file" && (var & 2)));
    if (fam == "global"){
        TypeOneDRule r = want_refine ? rule_rleja : ((var & 1) ? rule_gausslegendre : rule_clenshawcurtis);
        g.makeGlobalGrid(2, outs, want_refine ? 4 : 3, type_level, r);
    }else if (fam == "sequence") g.makeSequenceGrid(2, outs, 4, type_level, (var & 1) ? rule_leja : rule_rleja);
    else if (fam == "localp" && (var & 2) && !want_refine) g.makeLocalPolynomialGrid(2, outs, 5, (var & 1) ? -1 : 4, rule_localp);   // high / maximal order: generic Lagrange basis, deep points
    else if (fam == "localp")    g.makeLocalPolynomialGrid(2, outs, 3, (var & 1) ? 2 : 1, (var & 1) ? rule_semilocalp : rule_localp);
    else if (fam == "wavelet")   g.makeWaveletGrid(2, outs, (var & 1) ? 1 : 2, (var & 1) ? 3 : 1);
    else if (fam == "fourier")   g.makeFourierGrid(2, outs, 2, type_level);
    else throw std::runtime_error("unknown family " + fam);
    if (var & 4){ std::vector<double> a = {-1.0, 0.5}, b = {2.0, 3.0}; g.setDomainTransform(a, b); }
    if ((var & 8) && !g.isFourier()){ g.setConformalTransformASIN({4, 4}); }
    if (state == "fresh" || state == "zero") return;
    if (state == "zeroread"){
        if (write_file) g.write(file.c_str(), (var & 16) ? true : false);
        g = TasmanianSparseGrid(); g.read(file.c_str());
        return;
    }
    load(g);
    if (want_refine) refine(g);
    if (state == "merged") g.mergeRefinement();
    if (state == "reloaded") load(g);
    if (state == "file"){
        if (write_file) g.write(file.c_str(), (var & 16) ? true : false);
        g = TasmanianSparseGrid(); g.read(file.c_str());
    }
    if (state == "copied"){ TasmanianSparseGrid h; h.copyGrid(g); g = std::move(h); }
    if (state == "warm"){ std::vector<double> w; g.getQuadratureWeights(w); }   // a const call made alone before the threads start
}

// ---------------------------------------------------------------- const calls
static void point(TasmanianSparseGrid const &g, int a, double x[]){
    double u0 = std::fmod(0.37 * a + 0.113, 1.0), u1 = std::fmod(0.73 * a + 0.291, 1.0);
    if (g.isSetDomainTransfrom()){
        std::vector<double> ta, tb; g.getDomainTransform(ta, tb);
        x[0] = ta[0] + u0 * (tb[0] - ta[0]); x[1] = ta[1] + u1 * (tb[1] - ta[1]);
    }else if (g.isFourier()){ x[0] = u0; x[1] = u1; }
    else{ x[0] = 2.0 * u0 - 1.0; x[1] = 2.0 * u1 - 1.0; }
}
static void append(std::vector<double> &r, std::vector<int> const &v){ for(int i : v) r.push_back((double) i); }

static std::vector<double> call(TasmanianSparseGrid const &g, std::string const &op, int a, bool &threw){
    std::vector<double> r;
    threw = false;
    try{
        double x[6]; point(g, a, x); point(g, a + 1, x + 2); point(g, a + 2, x + 4);
        int outs = g.getNumOutputs(), np = g.getNumPoints(), nl = g.getNumLoaded();
        if (op == "ev"){ r.resize(outs); g.evaluate(x, r.data()); }
        else if (op == "evv"){ g.evaluate(std::vector<double>(x, x + 2), r); }
        else if (op == "evb"){ r.resize(3 * outs); g.evaluateBatch(x, 3, r.data()); }
        else if (op == "evbv"){ g.evaluateBatch(std::vector<double>(x, x + 6), r); }
        else if (op == "evf"){ r.resize(outs); g.evaluateFast(x, r.data()); }
        else if (op == "giw"){ r = g.getInterpolationWeights(std::vector<double>(x, x + 2)); }
        else if (op == "gqw"){ r = g.getQuadratureWeights(); }
        else if (op == "gdw"){ r = g.getDifferentiationWeights(std::vector<double>(x, x + 2)); }
        else if (op == "int"){ g.integrate(r); }
        else if (op == "dif"){ g.differentiate(std::vector<double>(x, x + 2), r); }
        else if (op == "ehf"){ g.evaluateHierarchicalFunctions(std::vector<double>(x, x + 4), r); }
        else if (op == "esh"){
            std::vector<int> pntr, indx; std::vector<double> vals;
            g.evaluateSparseHierarchicalFunctions(std::vector<double>(x, x + 4), pntr, indx, vals);
            append(r, pntr); append(r, indx); r.insert(r.end(), vals.begin(), vals.end());
        }
        else if (op == "ghc"){
            const double *c = g.getHierarchicalCoefficients();
            size_t n = (size_t) nl * (size_t) outs * (g.isFourier() ? 2 : 1);
            if (c != nullptr) r.assign(c, c + n);
        }
        else if (op == "gpt"){ r = g.getPoints(); }
        else if (op == "glp"){ r = g.getLoadedPoints(); }
        else if (op == "gnp"){ r = g.getNeededPoints(); }
        else if (op == "glv"){ const double *v = g.getLoadedValues(); if (v != nullptr) r.assign(v, v + (size_t) nl * (size_t) outs); }
        else if (op == "wra" || op == "wrb"){
            std::stringstream ss; g.write(ss, op == "wrb");
            std::string s = ss.str(); for(unsigned char ch : s) r.push_back((double) ch);
        }
        else if (op == "ihf"){ r = g.integrateHierarchicalFunctions(); }
        else if (op == "ghs"){ r = g.getHierarchicalSupport(); }
        else if (op == "gps"){ append(r, g.getGlobalPolynomialSpace((a & 1) != 0)); }
        else if (op == "eac"){ append(r, g.estimateAnisotropicCoefficients(type_iptotal, 0)); }
        else if (op == "siz"){ r = {(double) g.getNumDimensions(), (double) outs, (double) np, (double) nl, (double) g.getNumNeeded()}; }
        else throw std::logic_error("unknown op " + op);
    }catch(std::logic_error &e){ if (std::string(e.what()).find("unknown op") == 0) throw; threw = true; r.clear(); for(const char *c = e.what(); *c; c++) r.push_back((double) *c); }
    catch(std::exception &e){ threw = true; r.clear(); for(const char *c = e.what(); *c; c++) r.push_back((double) *c); }
    return r;
}

static bool same(std::vector<double> const &a, std::vector<double> const &b, std::string &diff){
    if (a.size() != b.size()){ diff = "size " + std::to_string(a.size()) + " vs " + std::to_string(b.size()); return false; }
    for(size_t i=0; i<a.size(); i++){
        if (std::memcmp(&a[i], &b[i], sizeof(double)) == 0) continue;
        double m = std::max(std::fabs(a[i]), std::fabs(b[i]));
        if (std::fabs(a[i] - b[i]) <= 1.E-14 * m) continue;
        char buf[160]; snprintf(buf, 160, "entry %zu: concurrent %.17g alone %.17g", i, a[i], b[i]); diff = buf;
        return false;
    }
    return true;
}

static std::string evjson(std::vector<Ev> const &ev){
    std::string s = "[";
    for(size_t i=0; i<ev.size(); i++){
        char b[160]; snprintf(b, 160, "%s{\"n\":\"%s\",\"c\":%lld,\"o\":%lld,\"p\":%lld,\"s\":%lld}", i ? "," : "", ev[i].n, ev[i].c, ev[i].o, ev[i].p, ev[i].s);
        s += b;
    }
    return s + "]";
}

struct Exec{ long long id; std::string fam; int var; std::string state; int nt; int ypm; unsigned seed; std::vector<std::vector<std::pair<std::string,int>>> ops; };

static std::string header(Exec const &E){
    char b[400]; snprintf(b, 400, "{\"x\":%lld,\"fam\":\"%s\",\"var\":%d,\"state\":\"%s\",\"nt\":%d,\"ypm\":%d,\"seed\":%u", E.id, E.fam.c_str(), E.var, E.state.c_str(), E.nt, E.ypm, E.seed);
    return b;
}

static int run_exec(Exec const &E, std::string const &tmp, FILE *out){
    std::string file = tmp + "/grid-" + std::to_string(E.id) + ".tsg";
    yield_permille = E.ypm;
    // 1. the grid under test, preparation recorded as thread 0
    std::vector<Ev> prep;
    *phase = 1;
    tl_buf = &prep; tl_seq = 0; tl_tid = 0; tl_mute = false;
    TasmanianSparseGrid G;
    build(G, E.fam, E.var, E.state, file, true);
    tl_mute = true;
    // 2. identical twin, calls made alone
    *phase = 2;
    TasmanianSparseGrid twin;
    build(twin, E.fam, E.var, E.state, file, false);
    // (the calls on the twin are made after the concurrent phase: process-wide state a const call may initialise lazily, e.g. a
    //  function-local static, must be as cold for the threads as it is for a program that starts with concurrent queries)
    // 3. the concurrent phase on one const reference
    *phase = 3;
    TasmanianSparseGrid const &cg = G;
    std::atomic<int> ready(0); std::atomic<bool> go(false);
    std::vector<std::vector<std::vector<double>>> results(E.nt);
    std::vector<std::vector<char>> cthrew(E.nt);
    std::vector<std::vector<Ev>> bufs(E.nt);
    std::vector<std::vector<std::pair<long long,long long>>> marks(E.nt);
    std::vector<std::thread> th;
    for(int t=0; t<E.nt; t++){
        th.emplace_back([&, t](){
            std::mt19937 rng(E.seed * 977u + 31u * (unsigned) t + 7u);
            tl_buf = &bufs[t]; tl_seq = 0; tl_tid = t + 1; tl_rng = &rng; tl_mute = false;
            ready++;
            while(!go.load()){ }
            for(auto const &o : E.ops[t]){
                long long s0 = tl_seq++;
                bool threw;
                results[t].push_back(call(cg, o.first, o.second, threw));
                cthrew[t].push_back(threw ? 1 : 0);
                long long s1 = tl_seq++;
                marks[t].push_back({s0, s1});
            }
            tl_mute = true; tl_buf = nullptr; tl_rng = nullptr;
        });
    }
    while(ready.load() < E.nt){ }
    go.store(true);
    for(auto &t : th) t.join();
    // 2b. the same calls made alone on the identical twin (reference results)
    *phase = 2;
    std::vector<std::vector<Call>> calls(E.nt);
    for(int t=0; t<E.nt; t++){
        for(auto const &o : E.ops[t]){
            Call c; c.op = o.first; c.arg = o.second; c.eq = false; c.threw = false;
            bool threw; std::vector<double> ref = call(twin, c.op, c.arg, threw);
            c.out = ref; c.threw = threw; c.det = true;
            calls[t].push_back(c);
        }
    }
    // the reference must be a function of the grid state: a second twin has to give the same answers
    // (it does not when a call reads storage the preparation left unspecified; such a call has no "result when run alone")
    {
        TasmanianSparseGrid twin2;
        build(twin2, E.fam, E.var, E.state, file, false);
        for(int t=0; t<E.nt; t++){
            for(auto &c : calls[t]){
                bool threw; std::string d;
                std::vector<double> ref2 = call(twin2, c.op, c.arg, threw);
                if (threw != c.threw || !same(ref2, c.out, d)) c.det = false;
            }
        }
    }
    // 4. serialise
    *phase = 4;
    std::string s = header(E) + ",\"complete\":true,\"sig\":0,\"phase\":4,\"other\":" + std::to_string(other_events.load());
    s += ",\"npoints\":" + std::to_string(G.getNumPoints()) + ",\"nloaded\":" + std::to_string(G.getNumLoaded()) + ",\"nneeded\":" + std::to_string(G.getNumNeeded());
    s += ",\"prep\":" + evjson(prep) + ",\"threads\":[";
    for(int t=0; t<E.nt; t++){
        if (t) s += ",";
        s += "[";
        for(size_t k=0; k<calls[t].size(); k++){
            Call &c = calls[t][k];
            std::string diff;
            bool eq = (c.threw == (cthrew[t][k] != 0)) && same(results[t][k], c.out, diff);
            std::vector<Ev> ev;
            for(auto const &e : bufs[t]) if (e.s > marks[t][k].first && e.s < marks[t][k].second) ev.push_back(e);
            char b[200]; snprintf(b, 200, "%s{\"op\":\"%s\",\"arg\":%d,\"k\":%zu,\"s0\":%lld,\"s1\":%lld,\"eq\":%s,\"det\":%s,\"thr\":%s,\"n\":%zu,\"diff\":\"%s\",\"ev\":",
                                  k ? "," : "", c.op.c_str(), c.arg, k + 1, marks[t][k].first, marks[t][k].second, eq ? "true" : "false", c.det ? "true" : "false", c.threw ? "true" : "false", c.out.size(), diff.c_str());
            s += b; s += evjson(ev) + "}";
        }
        s += "]";
    }
    s += "]}\n";
    fputs(s.c_str(), out); fflush(out);
    unlink(file.c_str());
    return 0;
}

int main(int argc, char **argv){
    if (argc < 4){ fprintf(stderr, "usage: const_threads_trace plan.txt out.ndjson tmpdir [nofork]\n"); return 2; }
    bool nofork = (argc > 4 && std::string(argv[4]) == "nofork");
    std::ifstream in(argv[1]);
    std::string tmp = argv[3];
    FILE *out = fopen(argv[2], "w");
    if (!out){ perror("out"); return 2; }
    phase = (volatile int*) mmap(nullptr, sizeof(int), PROT_READ | PROT_WRITE, MAP_SHARED | MAP_ANONYMOUS, -1, 0);
    if (phase == MAP_FAILED){ perror("mmap"); return 2; }
    VerifHooks::eventSink().store(sink);
    VerifHooks::schedSink().store(sched);
    std::string tok;
    while(in >> tok){
        if (tok != "EXEC"){ fprintf(stderr, "bad plan at %s\n", tok.c_str()); return 2; }
        Exec E; in >> E.id >> E.fam >> E.var >> E.state >> E.nt >> E.ypm >> E.seed;
        std::string line; std::getline(in, line);
        for(int t=0; t<E.nt; t++){
            std::getline(in, line);
            std::istringstream ls(line); std::string w; ls >> w;
            if (w != "T"){ fprintf(stderr, "bad plan: expected T line\n"); return 2; }
            std::vector<std::pair<std::string,int>> ops;
            while(ls >> w){ size_t c = w.find(':'); ops.push_back({w.substr(0, c), (c == std::string::npos) ? 0 : atoi(w.c_str() + c + 1)}); }
            E.ops.push_back(ops);
        }
        if (nofork){ run_exec(E, tmp, out); continue; }
        fflush(out);
        *phase = 0;
        pid_t pid = fork();
        if (pid == 0){
            alarm(60);
            int rc = 3;
            try{ rc = run_exec(E, tmp, out); }catch(std::exception &e){ fprintf(stderr, "exec %lld: %s\n", E.id, e.what()); rc = 3; }
            fflush(out);
            _exit(rc);
        }
        int status = 0; waitpid(pid, &status, 0);
        if (!(WIFEXITED(status) && WEXITSTATUS(status) == 0)){
            int sig = WIFSIGNALED(status) ? WTERMSIG(status) : 1000 + WEXITSTATUS(status);
            // the child may have died in the middle of a line: none is written before the end of run_exec
            std::string s = header(E) + ",\"complete\":false,\"sig\":" + std::to_string(sig) + ",\"phase\":" + std::to_string((int) *phase) + ",\"other\":0,\"npoints\":0,\"nloaded\":0,\"nneeded\":0,\"prep\":[],\"threads\":[]}\n";
            fputs(s.c_str(), out); fflush(out);
            unlink((tmp + "/grid-" + std::to_string(E.id) + ".tsg").c_str());
        }
    }
    fclose(out);
    return 0;
}
