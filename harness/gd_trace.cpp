// Conformance driver for C19: runs the real TasOptimization::GradientDescent overloads (adaptive with and
// without projection, constant step; C++ and C front-ends) with logging callbacks and writes an ndjson trace:
// every objective / gradient / projection call with its argument and answer, and at return the iteration
// count, state.getX() and the step size.  There is no expected value in here: GradDescentTrace.tla judges.
//
// input (text, many families; one family = the same call repeated for several iteration caps):
//   FAM id mode front exact dim unit      mode: adapt | proj | const   front: cpp | c   exact: 0 | 1
//   OBJ script | quad a1..ad c1..cd | well tilt | abs w1..wd
//   PROJ none | box lo hi | ball r
//   STEP inc dec step0 tol                (doubles; for const only step0 and tol are used)
//   X0 x1..xd
//   SCRIPT n  (f v | g v1..vd)*n          answers for fresh points, in call order (script objective only)
//   CAPS k c1..ck
// numbers in the trace: exact families [numerator over unit]; otherwise an order-preserving key of the double
// [hi20, mid22, low22].
#include "TasmanianOptimization.hpp"
#include <cstdio>
#include <cstring>
#include <cmath>
#include <cstdint>
#include <map>
#include <fstream>
#include <iostream>
#include <sstream>

using namespace TasOptimization;

extern "C" {
    void* tsgGradientDescentState_Construct(const int num_dimensions, const double x0[], const double initial_stepsize);
    void tsgGradientDescentState_Destruct(void* state);
    double tsgGradientDescentState_GetAdaptiveStepsize(void* state);
    void tsgGradientDescentState_GetX(void* state, double x_out[]);
    OptimizationStatus tsgGradientDescent_AdaptProj(double (*f)(const int, const double[], int[]), void (*g)(const int, const double[], double[], int[]),
                                                    void (*p)(const int, const double[], double[], int[]), const double inc, const double dec,
                                                    const int max_iterations, const double tolerance, void* state, int* err);
    OptimizationStatus tsgGradientDescent_Adapt(double (*f)(const int, const double[], int[]), void (*g)(const int, const double[], double[], int[]),
                                                const double inc, const double dec, const int max_iterations, const double tolerance, void* state, int* err);
    OptimizationStatus tsgGradientDescent_Const(void (*g)(const int, const double[], double[], int[]), const double stepsize,
                                                const int max_iterations, const double tolerance, void* state, int* err);
}

static FILE *out = nullptr;

struct Family{
    std::string id, mode, front, obj, proj;
    int exact = 0, dim = 1; double unit = 1.0;
    std::vector<double> a, c; double tilt = 0.0;
    double lo = 0, hi = 0, radius = 0;
    double inc = 2, dec = 2, step0 = 1, tol = 0;
    std::vector<double> x0;
    std::vector<double> sf; std::vector<std::vector<double>> sg;     // script answers
    std::vector<int> caps;
    // memo of the scripted objective: a (partial) function of the point
    std::map<std::vector<double>, double> mf; std::map<std::vector<double>, std::vector<double>> mg;
    size_t nf = 0, ng = 0;
    double slack = 0.0;
};
static Family *cur = nullptr;

static std::string num(double v){
    char b[96];
    v += 0.0; // -0.0 -> +0.0
    if (cur->exact){
        double n = v * cur->unit;
        if (std::isfinite(n) && std::floor(n) == n && std::fabs(n) < 1073741824.0){ snprintf(b, 96, "[%lld]", (long long) n); return b; }
    }
    uint64_t u; std::memcpy(&u, &v, 8);
    u = (u & 0x8000000000000000ULL) ? ~u : (u | 0x8000000000000000ULL);
    snprintf(b, 96, "[%llu,%llu,%llu]", (unsigned long long)(u >> 44), (unsigned long long)((u >> 22) & 0x3FFFFFULL), (unsigned long long)(u & 0x3FFFFFULL));
    return b;
}
static std::string vec(const double *x, size_t n){ std::string s = "["; for(size_t i=0; i<n; i++){ if (i) s += ","; s += num(x[i]); } return s + "]"; }
static std::string vec(std::vector<double> const &x){ return vec(x.data(), x.size()); }
static bool pow2(double v, int &e){ int k; if (!(v > 0) || !std::isfinite(v)) return false; double m = std::frexp(v, &k); e = k - 1; return m == 0.5; }

// ---- the environment (pure functions of the point; the scripted one is defined on first use)
static double objective(std::vector<double> const &x){
    Family &F = *cur; double v = 0.0;
    if (F.obj == "quad"){ for(int i=0; i<F.dim; i++) v += 0.5 * F.a[i] * (x[i] - F.c[i]) * (x[i] - F.c[i]); }
    else if (F.obj == "well"){ for(int i=0; i<F.dim; i++) v += (x[i] * x[i] - 1.0) * (x[i] * x[i] - 1.0) + F.tilt * x[i]; }
    else if (F.obj == "abs"){ for(int i=0; i<F.dim; i++) v += F.a[i] * std::fabs(x[i]); }
    else{
        auto it = F.mf.find(x);
        if (it != F.mf.end()) return it->second;
        v = F.sf.empty() ? 0.0 : F.sf[std::min(F.nf, F.sf.size() - 1)];
        F.nf++; F.mf[x] = v;
    }
    return v;
}
static void gradient(std::vector<double> const &x, std::vector<double> &g){
    Family &F = *cur;
    if (F.obj == "quad"){ for(int i=0; i<F.dim; i++) g[i] = F.a[i] * (x[i] - F.c[i]); }
    else if (F.obj == "well"){ for(int i=0; i<F.dim; i++) g[i] = 4.0 * x[i] * (x[i] * x[i] - 1.0) + F.tilt; }
    else if (F.obj == "abs"){ for(int i=0; i<F.dim; i++) g[i] = (x[i] > 0) ? F.a[i] : ((x[i] < 0) ? -F.a[i] : 0.0); }
    else{
        auto it = F.mg.find(x);
        if (it == F.mg.end()){
            std::vector<double> v = F.sg.empty() ? std::vector<double>(F.dim, 0.0) : F.sg[std::min(F.ng, F.sg.size() - 1)];
            F.ng++; it = F.mg.insert({x, v}).first;
        }
        for(int i=0; i<F.dim; i++) g[i] = it->second[i];
    }
}
static void projection(std::vector<double> const &z, std::vector<double> &p){
    Family &F = *cur;
    if (F.proj == "box"){ for(int i=0; i<F.dim; i++) p[i] = std::min(std::max(z[i], F.lo), F.hi); }
    else if (F.proj == "ball"){
        double r = 0.0; for(int i=0; i<F.dim; i++) r += z[i] * z[i]; r = std::sqrt(r);
        for(int i=0; i<F.dim; i++) p[i] = (r > F.radius) ? z[i] * (F.radius / r) : z[i];
    }else{ for(int i=0; i<F.dim; i++) p[i] = z[i]; }
}

// ---- logging callbacks
static double log_func(std::vector<double> const &x){
    double v = objective(x);
    fprintf(out, "{\"e\":\"Func\",\"x\":%s,\"v\":%s}\n", vec(x).c_str(), num(v).c_str());
    return v;
}
static void log_grad(std::vector<double> const &x, std::vector<double> &g){
    gradient(x, g);
    double r = 0.0; for(int i=0; i<cur->dim; i++) r += g[i] * g[i];
    fprintf(out, "{\"e\":\"Grad\",\"x\":%s,\"g\":%s,\"small\":%s}\n", vec(x).c_str(), vec(g.data(), (size_t) cur->dim).c_str(),
            (std::sqrt(r) <= cur->tol) ? "true" : "false");
}
static void log_proj(std::vector<double> const &z, std::vector<double> &p){
    projection(z, p);
    fprintf(out, "{\"e\":\"Proj\",\"z\":%s,\"p\":%s}\n", vec(z).c_str(), vec(p.data(), (size_t) cur->dim).c_str());
}
static double c_func(const int n, const double x[], int err[]){ err[0] = 0; return log_func(std::vector<double>(x, x + n)); }
static void c_grad(const int n, const double x[], double g[], int err[]){ err[0] = 0; std::vector<double> v(n); log_grad(std::vector<double>(x, x + n), v); std::copy(v.begin(), v.end(), g); }
static void c_proj(const int n, const double x[], double p[], int err[]){ err[0] = 0; std::vector<double> v(n); log_proj(std::vector<double>(x, x + n), v); std::copy(v.begin(), v.end(), p); }

static void run_call(Family &F, int cap){
    int ei = 0, ed = 0, es = 0;
    bool dy = pow2(F.step0, es) && (F.mode == "const" || (pow2(F.inc, ei) && pow2(F.dec, ed)));
    if (!dy){ ei = ed = es = 0; }
    std::string tol = F.exact ? std::to_string((long long) std::llround(F.tol * F.unit)) : std::string("0");
    fprintf(out, "{\"e\":\"Call\",\"mode\":\"%s\",\"front\":\"%s\",\"hasproj\":%s,\"exact\":%s,\"dy\":%s,\"cap\":%d,\"inc\":%d,\"dec\":%d,\"step\":%d,\"tol\":%s,\"unit\":%lld,\"x\":%s}\n",
            (F.mode == "const") ? "const" : "adapt", F.front.c_str(), (F.mode == "proj") ? "true" : "false", F.exact ? "true" : "false",
            dy ? "true" : "false", cap, ei, ed, es, tol.c_str(), (long long) F.unit, vec(F.x0).c_str());
    OptimizationStatus st{-1, 0.0};
    std::vector<double> xr(F.dim); double sret = F.step0; int err = 0;
    if (F.front == "c"){
        void *s = tsgGradientDescentState_Construct(F.dim, F.x0.data(), F.step0);
        if (F.mode == "proj") st = tsgGradientDescent_AdaptProj(c_func, c_grad, c_proj, F.inc, F.dec, cap, F.tol, s, &err);
        else if (F.mode == "adapt") st = tsgGradientDescent_Adapt(c_func, c_grad, F.inc, F.dec, cap, F.tol, s, &err);
        else st = tsgGradientDescent_Const(c_grad, F.step0, cap, F.tol, s, &err);
        tsgGradientDescentState_GetX(s, xr.data());
        sret = tsgGradientDescentState_GetAdaptiveStepsize(s);
        tsgGradientDescentState_Destruct(s);
    }else if (F.mode == "const"){
        xr = F.x0;
        st = GradientDescent(log_grad, F.step0, cap, F.tol, xr);
    }else{
        GradientDescentState s(F.x0, F.step0);
        if (F.mode == "proj") st = GradientDescent(log_func, log_grad, log_proj, F.inc, F.dec, cap, F.tol, s);
        else st = GradientDescent(log_func, log_grad, F.inc, F.dec, cap, F.tol, s);
        xr = s.getX();
        sret = s.getAdaptiveStepsize();
    }
    int se = 0; bool sp = pow2(sret, se); if (!sp) se = 0;
    // the observer evaluates the objective at the returned point (not a call of the algorithm)
    double fret = 0.0;
    if (F.mode != "const"){
        if (F.obj == "script"){ auto it = F.mf.find(xr); fret = (it != F.mf.end()) ? it->second : std::nan(""); }
        else fret = objective(xr);
    }
    fprintf(out, "{\"e\":\"Return\",\"it\":%d,\"x\":%s,\"sp\":%s,\"se\":%d,\"fret\":%s,\"fs\":%s,\"res\":%s,\"err\":%d}\n",
            st.performed_iterations, vec(xr).c_str(), sp ? "true" : "false", se, num(fret).c_str(), num(fret + F.slack).c_str(),
            num(st.residual).c_str(), err);
}

int main(int argc, char **argv){
    if (argc < 3){ fprintf(stderr, "usage: gd_trace families.txt trace.ndjson\n"); return 2; }
    std::ifstream in(argv[1]);
    out = fopen(argv[2], "w");
    std::string tok;
    while(in >> tok){
        if (tok != "FAM"){ fprintf(stderr, "bad family file at %s\n", tok.c_str()); return 2; }
        Family F; std::string s;
        auto rd = [&]()->double{ in >> s; return std::strtod(s.c_str(), nullptr); };
        in >> F.id >> F.mode >> F.front >> F.exact >> F.dim; F.unit = rd();
        in >> tok >> F.obj;
        if (F.obj == "quad"){ F.a.resize(F.dim); F.c.resize(F.dim); for(auto &v : F.a) v = rd(); for(auto &v : F.c) v = rd(); }
        else if (F.obj == "well"){ F.tilt = rd(); }
        else if (F.obj == "abs"){ F.a.resize(F.dim); for(auto &v : F.a) v = rd(); }
        in >> tok >> F.proj;
        if (F.proj == "box"){ F.lo = rd(); F.hi = rd(); } else if (F.proj == "ball"){ F.radius = rd(); }
        in >> tok; F.inc = rd(); F.dec = rd(); F.step0 = rd(); F.tol = rd();
        in >> tok; F.x0.resize(F.dim); for(auto &v : F.x0) v = rd();
        int n; in >> tok >> n;
        for(int i=0; i<n; i++){
            in >> tok;
            if (tok == "f") F.sf.push_back(rd());
            else { std::vector<double> g(F.dim); for(auto &v : g) v = rd(); F.sg.push_back(g); }
        }
        in >> tok >> n; F.caps.resize(n); for(auto &v : F.caps) in >> v;
        cur = &F;
        int maxcap = 0; for(int c : F.caps) maxcap = std::max(maxcap, c);
        double f0 = (F.obj == "script" || F.mode == "const") ? 0.0 : objective(F.x0);
        F.slack = F.exact ? 0.0 : (maxcap + 1) * (1.0e-12 + 1.0e-13 * std::max(1.0, std::fabs(f0)));
        fprintf(out, "{\"e\":\"Reset\",\"id\":\"%s\",\"obj\":\"%s\",\"proj\":\"%s\",\"slack\":\"%a\"}\n", F.id.c_str(), F.obj.c_str(), F.proj.c_str(), F.slack);
        for(int c : F.caps) run_call(F, c);
        fflush(out);
    }
    fclose(out);
    return 0;
}
