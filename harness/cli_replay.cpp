// Conformance driver for C16: every scripted action is executed twice, through the library API on an object and through
// the tasgrid executable on a grid file.  After every action the grid file written by tasgrid is read back and projected
// (this is the state GridTrace.tla validates), and compared with the API object: same bytes when the API object is written
// in the same format, same projection, same numerical output of the query commands.
#define GRID_REPLAY_NO_MAIN
#include "grid_replay.cpp"

static std::string tasgrid_bin, wdir;
static bool use_ascii = false;
static int run_cli(std::string const &opts, std::string *captured = nullptr){
    std::string cmd = tasgrid_bin + " " + opts + " > " + wdir + "/cli.out 2> " + wdir + "/cli.err";
    int rc = system(cmd.c_str());
    if (captured) *captured = slurp(wdir + "/cli.out") + slurp(wdir + "/cli.err");
    return rc;
}
static std::string write_matrix(std::string const &name, int rows, int cols, const double *v){
    std::string fn = wdir + "/" + name;
    FILE *f = fopen(fn.c_str(), "w");
    fprintf(f, "%d %d\n", rows, cols);
    for(int i=0; i<rows; i++){ for(int j=0; j<cols; j++) fprintf(f, "%.17e ", v[(size_t) i * cols + j]); fprintf(f, "\n"); }
    fclose(f);
    return fn;
}
static std::string ifile(std::string const &name, std::vector<int> const &v){ std::vector<double> d(v.begin(), v.end()); return write_matrix(name, 1, (int) d.size(), d.data()); }
static bool read_matrix(std::string const &fn, std::vector<double> &v, int &rows, int &cols){
    std::ifstream f(fn); if (!f.good()) return false;
    if (!(f >> rows >> cols)) return false;
    v.resize((size_t) rows * cols); for(auto &x : v) if (!(f >> x)) return false;
    return true;
}
static bool same_vec(std::vector<double> const &a, std::vector<double> const &b, double tol = 1.0e-14){
    if (a.size() != b.size()) return false;
    for(size_t i=0; i<a.size(); i++) if (!(a[i] == b[i] || std::fabs(a[i] - b[i]) <= tol * (std::fabs(a[i]) + std::fabs(b[i])) + tol * 1.0e-2)) return false;
    return true;
}

int main(int argc, char **argv){
    if (argc < 5){ fprintf(stderr, "usage: cli_replay script.txt trace.ndjson tasgrid_binary workdir\n"); return 2; }
    std::ifstream in(argv[1]);
    out = fopen(argv[2], "w");
    tasgrid_bin = argv[3]; wdir = argv[4]; tmpdir = wdir;
    std::string gf = wdir + "/cli_grid";
    std::string line;
    int scen = 0, step = 0;
    bool skip_rest = false, deferred_begin = false;
    TasmanianSparseGrid api;
    std::vector<int> last_cand;
    std::deque<std::string> pending;
    while(true){
        if (!pending.empty()){ line = pending.front(); pending.pop_front(); }
        else if (!std::getline(in, line)) break;
        if (line.empty() || line[0] == '#') continue;
        std::istringstream ls(line);
        std::string cmd; ls >> cmd;
        if (cmd == "SCEN"){
            if (scen > 0) fprintf(out, "{\"e\":\"End\"}\n");
            std::string label; ls >> label; scen++; step = 0; skip_rest = false; deferred_begin = false; pending.clear();
            api = TasmanianSparseGrid(); unlink(gf.c_str());
            use_ascii = (scen % 2 == 0);
            tok_salt = 0; ls >> tok_salt; if (tok_salt < 0 || tok_salt > 95) tok_salt = 0;
            fprintf(out, "{\"e\":\"Reset\",\"scen\":%s,\"salt\":%d}\n", jstr(label).c_str(), tok_salt);
            continue;
        }
        if (skip_rest) continue;
        step++;
        if ((cmd == "cand" || cmd == "candl" || cmd == "loadc") && !api.empty() && !api.isUsingConstruction()){
            // what "-gcp" / "-lcp" do first: beginConstruction(); recorded as its own event (the grid file changes with the command that follows)
            std::string r0 = "ok";
            try{ api.beginConstruction(); }catch(std::runtime_error &){ r0 = "runtime_error"; }
            fprintf(out, "{\"e\":\"begin\",\"o\":1,\"a\":{},\"r\":%s,\"st\":%s,\"st2\":{\"fam\":\"empty\"},\"obs\":{}}\n", jstr(r0).c_str(), project(api).c_str());
        }
        std::string args = "{", extra = "", res = "ok", opts, fmt = use_ascii ? " -ascii" : "";
        auto A = [&](const char *k, std::string v){ if (args.size() > 1) args += ","; args += std::string("\"") + k + "\":" + v; };
        bool supported = true, query_ok = true, have_query = false;
        TasmanianSparseGrid before(api);
        TasmanianSparseGrid &g = api;
        try{
            if (cmd == "make"){
                std::string fam; ls >> fam; A("fam", jstr(fam));
                int d, outs, depth; ls >> d >> outs >> depth; A("dims", jint(d)); A("outs", jint(outs)); A("depth", jint(depth));
                if (fam == "global" || fam == "sequence" || fam == "fourier"){
                    std::string type, rule = "fourier"; ls >> type; if (fam != "fourier") ls >> rule;
                    auto aw = rdivec(ls); auto ll = rdivec(ls);
                    double alpha = 0, beta = 0; if (fam == "global") ls >> alpha >> beta;
                    A("type", jstr(type)); A("rule", jstr(rule)); A("aw", jivec(aw)); A("ll", jivec(ll)); A("alpha", jnum(alpha)); A("beta", jnum(beta));
                    char nb[128]; snprintf(nb, 128, " -alpha %.17g -beta %.17g", alpha, beta);
                    opts = std::string(fam == "global" ? "-mg" : fam == "sequence" ? "-ms" : "-mf") + " -dim " + std::to_string(d) + " -out " + std::to_string(outs) + " -depth " + std::to_string(depth)
                         + " -type " + type + (fam != "fourier" ? " -onedim " + rule : "") + (fam == "global" ? nb : "")
                         + (aw.empty() ? "" : " -af " + ifile("aw.txt", aw)) + (ll.empty() ? "" : " -lf " + ifile("ll.txt", ll));
                    if (fam == "global") g.makeGlobalGrid(d, outs, depth, IO::getDepthTypeString(type), IO::getRuleString(rule), aw, alpha, beta, nullptr, ll);
                    else if (fam == "sequence") g.makeSequenceGrid(d, outs, depth, IO::getDepthTypeString(type), IO::getRuleString(rule), aw, ll);
                    else g.makeFourierGrid(d, outs, depth, IO::getDepthTypeString(type), aw, ll);
                }else{
                    int order; std::string rule = "wavelet"; ls >> order; if (fam == "localp") ls >> rule;
                    auto ll = rdivec(ls);
                    A("order", jint(order)); A("rule", jstr(rule)); A("ll", jivec(ll));
                    opts = std::string(fam == "localp" ? "-mp" : "-mw") + " -dim " + std::to_string(d) + " -out " + std::to_string(outs) + " -depth " + std::to_string(depth)
                         + " -order " + std::to_string(order) + (fam == "localp" ? " -onedim " + rule : "") + (ll.empty() ? "" : " -lf " + ifile("ll.txt", ll));
                    if (fam == "localp") g.makeLocalPolynomialGrid(d, outs, depth, order, IO::getRuleString(rule), ll);
                    else g.makeWaveletGrid(d, outs, depth, order, ll);
                }
                // a transform directly after make is given to the tool at make time
                if (!pending.empty() || in.good()){
                    std::streampos pos = in.tellg(); std::string nxt;
                    if (pending.empty() && std::getline(in, nxt)){
                        std::istringstream ns(nxt); std::string w; ns >> w;
                        if (w == "transform"){
                            auto a = rddvec(ns), b = rddvec(ns);
                            std::vector<double> m; for(size_t j=0; j<a.size(); j++){ m.push_back(a[j]); m.push_back(b[j]); }
                            opts += " -tf " + write_matrix("tf.txt", (int) a.size(), 2, m.data());
                            g.setDomainTransform(a, b);
                            A("ta", jsvec(a)); A("tb", jsvec(b));
                        }else in.seekg(pos);
                    }
                }
            }else if (cmd == "load"){
                int epoch; ls >> epoch; A("epoch", jint(epoch));
                if (g.empty() || (g.getNumPoints() == 0 && g.getNumNeeded() == 0)) throw std::string("skipped");
                int nn = g.getNumNeeded();
                const int *idx = (nn > 0) ? g.verifNeededIndexes() : g.verifLoadedIndexes();
                int n = (nn > 0) ? nn : g.getNumPoints();
                auto v = tokens_for(g, idx, n, epoch);
                if (g.getNumOutputs() == 0) throw std::string("skipped");
                opts = "-l -vf " + write_matrix("vals.txt", n, g.getNumOutputs(), v.data());
                g.loadNeededValues(v);
            }else if (cmd == "update"){
                int depth; std::string type; ls >> depth >> type; auto aw = rdivec(ls); auto ll = rdivec(ls);
                A("depth", jint(depth)); A("type", jstr(type)); A("aw", jivec(aw)); A("ll", jivec(ll));
                opts = "-mu -depth " + std::to_string(depth) + " -type " + type + (aw.empty() ? "" : " -af " + ifile("aw.txt", aw)) + (ll.empty() ? "" : " -lf " + ifile("ll.txt", ll));
                g.updateGrid(depth, IO::getDepthTypeString(type), aw, ll);
            }else if (cmd == "aniso"){
                std::string type; int mg, output; ls >> type >> mg >> output; auto ll = rdivec(ls);
                if (g.isGlobal() && output == -1) output = 0;     // the tool's convention for Global grids: the corresponding library call uses output 0
                A("type", jstr(type)); A("min_growth", jint(mg)); A("output", jint(output)); A("ll", jivec(ll));
                std::vector<int> w; try{ w = g.estimateAnisotropicCoefficients(IO::getDepthTypeString(type), output); }catch(std::exception &){ }
                A("est", jivec(w));
                opts = "-ra -type " + type + " -ming " + std::to_string(mg) + " -rout " + std::to_string(output) + (ll.empty() ? "" : " -lf " + ifile("ll.txt", ll));
                g.setAnisotropicRefinement(IO::getDepthTypeString(type), mg, output, ll);
            }else if (cmd == "surp" || cmd == "surpl"){
                int rank, output; std::string crit = "classic"; ls >> rank >> output; if (cmd == "surpl") ls >> crit;
                auto ll = rdivec(ls); int smode = 0; if (cmd == "surpl") ls >> smode; smode = 0;
                if (g.isGlobal() && output == -1) output = 0;     // the tool's convention for Global grids
                auto r = ((output >= -1) && (output < g.getNumOutputs())) ? ratios(g, output, std::vector<double>()) : std::vector<long long>();
                std::vector<long long> sorted = r; std::sort(sorted.begin(), sorted.end(), std::greater<long long>());
                sorted.erase(std::unique(sorted.begin(), sorted.end()), sorted.end());
                double tol = pick_tolerance(sorted, rank);
                A("output", jint(output)); A("crit", jstr(crit)); A("ll", jivec(ll)); A("smode", jint(0));
                A("tolq", jint((long long) std::llround(tol * 1.0e8))); A("tolzero", jbool(tol == 0.0)); A("degenerate", jbool(ratios_degenerate));
                std::string rs = "["; for(size_t i=0; i<r.size(); i++){ if (i) rs += ","; rs += std::to_string(r[i]); } rs += "]";
                A("ratios", rs);
                char tb[64]; snprintf(tb, 64, "%.17g", tol);
                opts = std::string("-rs -tol ") + tb + " -rout " + std::to_string(output) + " -reftype " + crit + (ll.empty() ? "" : " -lf " + ifile("ll.txt", ll));
                if (cmd == "surp") g.setSurplusRefinement(tol, output, ll);
                else g.setSurplusRefinement(tol, IO::getTypeRefinementString(crit), output, ll);
            }else if (cmd == "mq"){
                // -makequadrature: points and weights without a grid file, for every rule family
                std::string rule, type; int d, depth, order; ls >> rule >> d >> depth >> type >> order;
                A("rule", jstr(rule)); A("dims", jint(d)); A("depth", jint(depth)); A("type", jstr(type)); A("order", jint(order));
                TasmanianSparseGrid q; TypeOneDRule r = IO::getRuleString(rule);
                if (r == rule_fourier) q.makeFourierGrid(d, 0, depth, IO::getDepthTypeString(type));
                else if (r == rule_wavelet) q.makeWaveletGrid(d, 0, depth, order);
                else if (r == rule_localp || r == rule_semilocalp || r == rule_localp0 || r == rule_localpb) q.makeLocalPolynomialGrid(d, 0, depth, order, r);
                else q.makeGlobalGrid(d, 0, depth, IO::getDepthTypeString(type), r);
                auto w = q.getQuadratureWeights(); auto p = q.getPoints();
                std::vector<double> comb; for(int i=0; i<q.getNumPoints(); i++){ comb.push_back(w[(size_t) i]); for(int j=0; j<d; j++) comb.push_back(p[(size_t) i * d + j]); }
                unlink((wdir + "/mq.txt").c_str());
                std::string msg; run_cli("-mq -dim " + std::to_string(d) + " -depth " + std::to_string(depth) + " -type " + type + " -onedim " + rule + " -order " + std::to_string(order) + " -of " + wdir + "/mq.txt -ascii", &msg);
                std::vector<double> v; int rr, cc; bool ok = read_matrix(wdir + "/mq.txt", v, rr, cc);
                fprintf(out, "{\"e\":\"nop\",\"o\":1,\"a\":%s},\"r\":\"ok\",\"st\":%s,\"st2\":{\"fam\":\"empty\"},\"obs\":{\"cli\":{\"makequadrature_same\":%s}}}\n", args.c_str(), project(api).c_str(), jbool(ok && same_vec(v, comb, 1.0e-12)).c_str());
                step--; continue;
            }else if (cmd == "clear"){ opts = "-cr"; g.clearRefinement();
            }else if (cmd == "merge"){ opts = "-mr"; g.mergeRefinement();
            }else if (cmd == "begin"){ step--; continue; // the tool has no such command: construction begins with the first -gcp / -lcp (below)
            }else if (cmd == "cand" || cmd == "candl"){
                std::vector<double> x;
                if (cmd == "cand"){
                    std::string type; int output; ls >> type >> output; auto aw = rdivec(ls); auto ll = rdivec(ls);
                    A("type", jstr(type)); A("output", jint(output)); A("aw", jivec(aw)); A("ll", jivec(ll));
                    opts = "-gcp -type " + type + (output == -2 ? " -af " + ifile("aw.txt", aw) : " -rout " + std::to_string(output)) + (ll.empty() ? "" : " -lf " + ifile("ll.txt", ll)) + " -of " + wdir + "/q.txt";
                    if (output == -2) x = g.getCandidateConstructionPoints(IO::getDepthTypeString(type), aw, ll);
                    else x = g.getCandidateConstructionPoints(IO::getDepthTypeString(type), output, ll);
                }else{
                    int rank, output; std::string crit; ls >> rank >> output >> crit; auto ll = rdivec(ls);
                    auto r = ((output >= -1) && (output < g.getNumOutputs())) ? ratios(g, output, std::vector<double>()) : std::vector<long long>();
                    std::vector<long long> sorted = r; std::sort(sorted.begin(), sorted.end(), std::greater<long long>());
                    sorted.erase(std::unique(sorted.begin(), sorted.end()), sorted.end());
                    double tol = pick_tolerance(sorted, rank);
                    A("output", jint(output)); A("crit", jstr(crit)); A("ll", jivec(ll));
                    A("tolq", jint((long long) std::llround(tol * 1.0e8))); A("tolzero", jbool(tol == 0.0)); A("degenerate", jbool(ratios_degenerate));
                    std::string rs = "["; for(size_t i=0; i<r.size(); i++){ if (i) rs += ","; rs += std::to_string(r[i]); } rs += "]";
                    A("ratios", rs);
                    char tb[64]; snprintf(tb, 64, "%.17g", tol);
                    opts = std::string("-gcp -tol ") + tb + " -reftype " + crit + " -rout " + std::to_string(output) + (ll.empty() ? "" : " -lf " + ifile("ll.txt", ll)) + " -of " + wdir + "/q.txt";
                    x = g.getCandidateConstructionPoints(tol, IO::getTypeRefinementString(crit), output, ll);
                }
                deferred_begin = false;
                have_query = true;
                auto idx = coordsToIndexes(g, x);
                int d = g.getNumDimensions();
                last_cand = idx;
                extra += ",\"cand\":" + jistrips(idx.data(), (int) (idx.size() / (size_t) std::max(d, 1)), d);
                // the tool's candidate list is compared with the API's after the command ran (below)
                write_matrix("q_api.txt", (int) (x.size() / (size_t) std::max(d, 1)), d, x.data());
            }else if (cmd == "loadpool"){
                int epoch, count, maxbatch; unsigned seed; ls >> epoch >> count >> seed >> maxbatch;
                int d = std::max(g.getNumDimensions(), 1);
                std::vector<std::vector<int>> pts;
                for(size_t i=0; i + (size_t) d <= last_cand.size(); i += (size_t) d){ std::vector<int> p(last_cand.begin() + (long) i, last_cand.begin() + (long) i + d); if (std::find(p.begin(), p.end(), -1) == p.end()) pts.push_back(p); }
                std::mt19937 gen(seed); std::shuffle(pts.begin(), pts.end(), gen);
                if (count > 0 && (size_t) count < pts.size()) pts.resize((size_t) count);
                std::vector<std::string> gen_lines; size_t i = 0;
                while(i < pts.size()){
                    size_t b = 1 + (size_t) (gen() % (unsigned) std::max(maxbatch, 1)); b = std::min(b, pts.size() - i);
                    std::string l2 = "loadc " + std::to_string(epoch) + " " + std::to_string(b);
                    for(size_t k=0; k<b; k++) for(int v : pts[i + k]) l2 += " " + std::to_string(v);
                    gen_lines.push_back(l2); i += b;
                }
                for(auto it = gen_lines.rbegin(); it != gen_lines.rend(); ++it) pending.push_front(*it);
                step--; continue;
            }else if (cmd == "loadc"){
                int epoch, n; ls >> epoch >> n; int d = g.getNumDimensions();
                std::vector<int> idx((size_t) n * d); for(auto &e : idx) ls >> e;
                {   // a sample for a point that is already loaded is outside the contract (duplicate delivery): not delivered
                    std::set<std::vector<int>> have;
                    const int *li = g.verifLoadedIndexes(); int nl0 = (g.getNumOutputs() > 0) ? g.getNumLoaded() : g.getNumPoints();
                    for(int i=0; li != nullptr && i<nl0; i++) have.insert(std::vector<int>(li + (size_t) i * d, li + (size_t) (i + 1) * d));
                    std::vector<int> kept;
                    for(int i=0; i<n; i++){ std::vector<int> q(idx.begin() + (size_t) i * d, idx.begin() + (size_t) (i + 1) * d); if (have.count(q) == 0){ kept.insert(kept.end(), q.begin(), q.end()); have.insert(q); } }
                    idx = kept; n = (int) (idx.size() / (size_t) std::max(d, 1));
                }
                A("epoch", jint(epoch)); A("p", jistrips(idx.data(), n, d));
                if (n == 0) throw std::string("skipped");
                auto x = indexesToCoords(g, idx);
                auto y = tokens_for(g, idx.data(), n, epoch);
                opts = "-lcp -xf " + write_matrix("x.txt", n, d, x.data()) + " -vf " + write_matrix("y.txt", n, g.getNumOutputs(), y.data());
                g.loadConstructedPoints(x, y);
                deferred_begin = false;
            }else{
                supported = false;      // finish, copies, transforms after make, misuse: no tasgrid counterpart in this driver
            }
        }catch(std::string &e){ res = e;
        }catch(std::invalid_argument &e){ res = "invalid_argument";
        }catch(std::runtime_error &e){ res = "runtime_error";
        }catch(std::exception &e){ res = "other"; }
        args += "}";
        if (!supported){ skip_rest = true; step--; continue; }
        bool api_failed = (res != "ok" && res != "skipped");
        if (api_failed) api = before;      // a rejected call is not part of a script the tool accepts: both sides continue from the state before it
        // ---- the same action through the tool
        std::string cli = "{";
        bool firstc = true;
        auto C = [&](const char *name, bool ok){ if (!firstc) cli += ","; firstc = false; cli += std::string("\"") + name + "\":" + jbool(ok); };
        TasmanianSparseGrid fromfile;
        if (!opts.empty() && res != "skipped"){
            std::string msg; int rc = run_cli(opts + " -gf " + gf + fmt, &msg);
            bool reported_error = (rc != 0) || (msg.find("ERROR") != std::string::npos);
            if (res == "ok") C("tool_accepts", !reported_error);
            else C("tool_rejects_like_api", reported_error);
        }
        bool have_file = (access(gf.c_str(), R_OK) == 0);
        if (have_file){ try{ fromfile.read(gf.c_str()); }catch(std::exception &){ C("grid_file_readable", false); } }
        if (have_file && !deferred_begin){
            // "produces the same grid file": the API object written in the same format has the same bytes
            std::string fn = wdir + "/api_grid"; api.write(fn.c_str(), !use_ascii);
            C("same_grid_file", slurp(fn) == slurp(gf));
            C("same_projection", project(fromfile) == project(api));
        }
        if (have_query){
            std::vector<double> a, b; int r1, c1, r2, c2;
            bool ok = read_matrix(wdir + "/q.txt", a, r1, c1) && read_matrix(wdir + "/q_api.txt", b, r2, c2);
            if (b.empty() && !ok){ ok = true; } // an empty list: the tool writes an empty matrix
            C("same_candidates", ok && (b.empty() || (r1 == r2 && c1 == c2 && same_vec(a, b))));
        }
        // numerical output of the query commands on the current grid file versus the API object
        if (have_file && !deferred_begin && api.getNumPoints() > 0){
            int d = api.getNumDimensions(), outs = api.getNumOutputs();
            auto cmp = [&](std::string const &o, std::vector<double> const &ref, const char *name, double tol = 1.0e-14){
                unlink((wdir + "/o.txt").c_str());
                run_cli(o + " -gf " + gf + " -of " + wdir + "/o.txt -ascii");
                std::vector<double> v; int r, c; bool ok = read_matrix(wdir + "/o.txt", v, r, c);
                C(name, (ref.empty() && !ok) || (ok && same_vec(v, ref, tol)));
            };
            cmp("-gp", api.getPoints(), "q_points");
            if (api.getNumNeeded() > 0) cmp("-gn", api.getNeededPoints(), "q_needed");
            { auto w = api.getQuadratureWeights(); auto p = api.getPoints(); std::vector<double> comb; for(int i=0; i<api.getNumPoints(); i++){ comb.push_back(w[(size_t) i]); for(int j=0; j<d; j++) comb.push_back(p[(size_t) i * d + j]); } cmp("-gq", comb, "q_quadrature", 1.0e-10); }   // weights of optimised sequence rules depend at the 1e-12 level on the number of cached nodes
            auto xp = probe_points(api, 5, (unsigned) (scen * 31 + step));
            std::string xf = write_matrix("xq.txt", 5, d, xp.data());
            { std::vector<double> w; for(int k=0; k<5; k++){ auto wk = api.getInterpolationWeights(std::vector<double>(xp.begin() + (size_t) k * d, xp.begin() + (size_t) (k + 1) * d)); w.insert(w.end(), wk.begin(), wk.end()); } cmp("-gi -xf " + xf, w, "q_interweights", 1.0e-10); }
            // declared polynomial spaces: one -getpoly per selection type (Global / Sequence)
            if (api.isGlobal() || api.isSequence()){
                // (the tool accepts only the types that name interpolation or quadrature)
                const char *types[8] = {"iptotal", "ipcurved", "iphyperbolic", "iptensor", "qptotal", "qpcurved", "qphyperbolic", "qptensor"};
                for(int t = (int) ((scen + step) % 2); t < 8; t += 2){       // four of the eight per state, all of them over a history
                    std::string ty = types[t];
                    bool interp = (ty == "iptotal" || ty == "ipcurved" || ty == "iphyperbolic" || ty == "iptensor");
                    auto sp = api.getGlobalPolynomialSpace(interp);
                    std::vector<double> ref(sp.begin(), sp.end());
                    cmp("-getpoly -type " + ty, ref, (std::string("q_getpoly_") + ty).c_str());
                }
            }
            // hierarchical basis at the probe points (dense), supports
            if (!api.isGlobal() || api.getNumLoaded() > 0 || api.getNumOutputs() == 0){
                try{ std::vector<double> hd; api.evaluateHierarchicalFunctions(xp, hd); cmp("-evalhierarchyd -xf " + xf, hd, "q_evalhierarchyd", 1.0e-13); }catch(std::exception &){ }
            }
            if (api.isLocalPolynomial() || api.isWavelet()){ auto sup = api.getHierarchicalSupport(); cmp("-gethsupport", sup, "q_hsupport"); }
            if (outs > 0 && api.getNumLoaded() > 0 && api.getNumNeeded() == 0){
                // differentiation weights and Jacobians at the interior probes (nodes of piece-wise bases have one-sided derivatives: same code on both sides)
                try{
                    std::vector<double> jac, dw;
                    for(int k=0; k<5; k++){
                        std::vector<double> xi(xp.begin() + (size_t) k * d, xp.begin() + (size_t) (k + 1) * d), j1;
                        api.differentiate(xi, j1); jac.insert(jac.end(), j1.begin(), j1.end());
                        auto w1 = api.getDifferentiationWeights(xi); dw.insert(dw.end(), w1.begin(), w1.end());
                    }
                    cmp("-differentiate -xf " + xf, jac, "q_differentiate", 1.0e-12);
                    cmp("-getdiffweights -xf " + xf, dw, "q_diffweights", 1.0e-12);
                }catch(std::exception &){ }
            }
            if (outs > 0 && api.getNumLoaded() > 0){
                std::vector<double> y; api.evaluateBatch(xp, y); cmp("-e -xf " + xf, y, "q_evaluate");
                std::vector<double> q; api.integrate(q); cmp("-i", q, "q_integrate", 1.0e-10);
                const double *cf = api.getHierarchicalCoefficients(); size_t nc = (size_t) api.getNumLoaded() * (size_t) outs * (api.isFourier() ? 2 : 1);
                std::vector<double> cv(cf, cf + nc);
                if (api.isFourier()){ // the tool interweaves real and imaginary parts: (re_0, im_0, re_1, im_1, ...) per point
                    std::vector<double> t; size_t nl = (size_t) api.getNumLoaded();
                    for(size_t i=0; i<nl; i++) for(int o=0; o<outs; o++){ t.push_back(cf[i * outs + o]); t.push_back(cf[(i + nl) * outs + o]); }
                    cv = t;
                }
                cmp("-gc", cv, "q_coefficients");
            }
        }
        cli += "}";
        if (api_failed){ cmd = "nop"; res = "ok"; extra = ""; }
        fprintf(out, "{\"e\":%s,\"o\":1,\"a\":%s,\"r\":%s,\"st\":%s,\"st2\":{\"fam\":\"empty\"},\"obs\":{\"cli\":%s}%s}\n", jstr(cmd).c_str(), args.c_str(), jstr(res).c_str(),
                project((have_file && !deferred_begin) ? fromfile : api).c_str(), cli.c_str(), extra.c_str());
        fflush(out);
        if (api.getNumLoaded() + api.getNumNeeded() > 160) skip_rest = true;
    }
    if (scen > 0) fprintf(out, "{\"e\":\"End\"}\n");
    fclose(out);
    return 0;
}
