// Conformance driver for C15: runs TasDREAM::SampleDREAM on scripted environments and
// writes an ndjson trace of everything the sampler asked of its environment plus the
// state after each run.  There is no expected value in here: DreamTrace.tla judges.
//
// input (text, many scenarios):
//   SCEN n d logform upd mag      upd: 0 user, 1 none(builtin), 2 uniform(builtin), 3 gaussian(builtin)
//   PDF count  / count lines: x1..xd v
//   S0 n*d ints
//   RNG len r4...   W len w...   DELTA len ints...   (streams are cycled)
//   RUNS m b1 c1 ... bm cm
#include "TasmanianDREAM.hpp"
#include "tsgVerifHooks.hpp"
#include <cstdio>
#include <cmath>
#include <map>
#include <sstream>
#include <fstream>
#include <iostream>

using namespace TasDREAM;

static FILE *out = nullptr;
static std::string num(double v){
    if (std::isfinite(v) && std::floor(v) == v && std::fabs(v) < 1.0e9){ char b[64]; snprintf(b, 64, "%lld", (long long) v); return b; }
    return "\"nonlattice\"";
}
static std::string vec(const double *x, size_t n){ std::string s = "["; for(size_t i=0; i<n; i++){ if (i) s += ","; s += num(x[i]); } return s + "]"; }
static std::string vec(std::vector<double> const &x){ return vec(x.data(), x.size()); }
static std::string strips(std::vector<double> const &x, size_t d){
    std::string s = "["; size_t n = (d == 0) ? 0 : x.size() / d;
    for(size_t i=0; i<n; i++){ if (i) s += ","; s += vec(x.data() + i * d, d); } return s + "]";
}
static std::string ivec(std::vector<int> const &x){ std::string s = "["; for(size_t i=0; i<x.size(); i++){ if (i) s += ","; s += std::to_string(x[i]); } return s + "]"; }

struct Scenario{
    int n, d, logform, upd, mag;
    std::map<std::vector<long long>, long long> pdf;
    std::vector<double> s0;
    std::vector<int> rng, w, delta, runs;
};

// --- recording state
static std::vector<int> pending;   // rng draws not yet attributed
static bool have_pick = false; static long long pick[4];
static int cur_rj, cur_rk, cur_w; static bool have_w = false;
static std::vector<int> cur_ru; static std::string cur_in, cur_out; static bool have_upd = false;
static int bad_order = 0;

static void hook(const char *ev, const long long *a, int na){
    if (std::string(ev) != "dream_pick" || na != 4) return;
    if (have_pick || pending.size() < 2){ bad_order++; fprintf(out, "{\"e\":\"BadOrder\",\"at\":\"pick\"}\n"); }
    if (pending.size() >= 2){
        cur_rk = pending.back(); pending.pop_back();
        cur_rj = pending.back(); pending.pop_back();
    }
    for(int r : pending) fprintf(out, "{\"e\":\"Acc\",\"r\":%d}\n", r);
    pending.clear();
    for(int i=0; i<4; i++) pick[i] = a[i];
    have_pick = true; have_w = false; have_upd = false; cur_ru.clear(); cur_in = "[]"; cur_out = "[]";
}

int main(int argc, char **argv){
    if (argc < 3){ fprintf(stderr, "usage: dream_replay scenarios.txt trace.ndjson\n"); return 2; }
    std::ifstream in(argv[1]);
    out = fopen(argv[2], "w");
    TasGrid::VerifHooks::eventSink().store(hook);
    std::string tok;
    while(in >> tok){
        if (tok != "SCEN"){ fprintf(stderr, "bad scenario file at %s\n", tok.c_str()); return 2; }
        Scenario s; in >> s.n >> s.d >> s.logform >> s.upd >> s.mag;
        int cnt; in >> tok >> cnt;
        std::string pdfjson = "[";
        for(int i=0; i<cnt; i++){
            std::vector<long long> x(s.d); for(auto &v : x) in >> v; long long v; in >> v; s.pdf[x] = v;
            if (i) pdfjson += ",";
            pdfjson += "{\"x\":["; for(int j=0; j<s.d; j++){ if (j) pdfjson += ","; pdfjson += std::to_string(x[j]); }
            pdfjson += "],\"v\":" + std::to_string(v) + "}";
        }
        pdfjson += "]";
        in >> tok; s.s0.resize(s.n * s.d); for(auto &v : s.s0) in >> v;
        auto rd = [&](std::vector<int> &v){ int len; in >> tok >> len; v.resize(len); for(auto &e : v) in >> e; };
        rd(s.rng); rd(s.w); rd(s.delta);
        int m; in >> tok >> m; s.runs.resize(2 * m); for(auto &e : s.runs) in >> e;

        static const char *updn[] = {"user", "none", "uniform", "gauss"};
        fprintf(out, "{\"e\":\"Reset\",\"n\":%d,\"d\":%d,\"pdf\":%s,\"logform\":%s,\"upd\":\"%s\",\"mag\":%d,\"s0\":%s}\n",
                s.n, s.d, pdfjson.c_str(), s.logform ? "true" : "false", updn[s.upd], s.mag, strips(s.s0, s.d).c_str());

        size_t ir = 0, iw = 0, idl = 0;
        pending.clear(); have_pick = false;
        auto rng = [&]()->double{
            int r = s.rng.empty() ? 0 : s.rng[ir++ % s.rng.size()];
            if (have_pick && have_w && s.upd >= 2){ cur_ru.push_back(r); }  // builtin update draws come after diff()
            else pending.push_back(r);
            return ((double) r) / 4.0;
        };
        auto diff = [&]()->double{
            int w = s.w.empty() ? 1 : s.w[iw++ % s.w.size()];
            if (!have_pick || have_w){ bad_order++; fprintf(out, "{\"e\":\"BadOrder\",\"at\":\"diff\"}\n"); }
            cur_w = w; have_w = true;
            return (double) w;
        };
        auto update = [&](std::vector<double> &x)->void{
            if (!have_pick || !have_w || have_upd){ bad_order++; fprintf(out, "{\"e\":\"BadOrder\",\"at\":\"update\"}\n"); }
            cur_in = vec(x);
            for(auto &v : x) v += (double) (s.delta.empty() ? 0 : s.delta[idl++ % s.delta.size()]);
            cur_out = vec(x); have_upd = true;
        };
        auto inside = [&](std::vector<double> const &x)->bool{
            if (!have_pick || !have_w){ bad_order++; fprintf(out, "{\"e\":\"BadOrder\",\"at\":\"inside\"}\n"); }
            bool ok = true; std::vector<long long> key(x.size());
            for(size_t i=0; i<x.size(); i++){ if (!(std::isfinite(x[i]) && std::floor(x[i]) == x[i] && std::fabs(x[i]) < 1.0e9)) ok = false; else key[i] = (long long) x[i]; }
            ok = ok && (s.pdf.find(key) != s.pdf.end());
            fprintf(out, "{\"e\":\"Prop\",\"i\":%lld,\"rj\":%d,\"rk\":%d,\"j\":%lld,\"k\":%lld,\"n\":%lld,\"w\":%d,\"in\":%s,\"ru\":%s,\"out\":%s,\"ok\":%s}\n",
                    pick[0], cur_rj, cur_rk, pick[1], pick[2], pick[3], cur_w, cur_in.c_str(), ivec(cur_ru).c_str(), vec(x).c_str(), ok ? "true" : "false");
            have_pick = false; have_w = false; have_upd = false;
            return ok;
        };
        int pdf_calls = 0;
        auto pdf = [&](std::vector<double> const &cands, std::vector<double> &vals)->void{
            pdf_calls++;
            for(int r : pending) fprintf(out, "{\"e\":\"Acc\",\"r\":%d}\n", r);   // cannot happen in a conforming run
            pending.clear();
            size_t nc = cands.size() / s.d;
            if (vals.size() != nc) fprintf(out, "{\"e\":\"BadOrder\",\"at\":\"pdf-size\"}\n");
            for(size_t c=0; c<nc && c<vals.size(); c++){
                std::vector<long long> key(s.d); bool ok = true;
                for(int j=0; j<s.d; j++){ double v = cands[c * s.d + j]; if (!(std::isfinite(v) && std::floor(v) == v && std::fabs(v) < 1.0e9)) ok = false; else key[j] = (long long) v; }
                auto it = ok ? s.pdf.find(key) : s.pdf.end();
                if (it == s.pdf.end()){ fprintf(out, "{\"e\":\"PdfOutside\",\"x\":%s}\n", vec(cands.data() + c * s.d, s.d).c_str()); vals[c] = 1.0; }
                else vals[c] = (double) it->second;
            }
            fprintf(out, "{\"e\":\"Pdf\",\"x\":%s,\"v\":%s}\n", strips(cands, s.d).c_str(), vec(vals).c_str());
        };

        TasmanianDREAM state(s.n, s.d);
        state.setState(s.s0);
        for(size_t r=0; r<s.runs.size() / 2; r++){
            int b = s.runs[2*r], c = s.runs[2*r+1];
            if (b == -1){
                // state edit between runs: the chains are set to the initial states rotated by c (inside the domain);
                // the cached probability values belong to the old positions and must not be used again
                std::vector<double> ns((size_t) s.n * s.d);
                for(int i=0; i<s.n; i++) for(int j=0; j<s.d; j++) ns[(size_t) i * s.d + j] = s.s0[(size_t) ((i + c) % s.n) * s.d + j];
                state.setState(ns);
                fprintf(out, "{\"e\":\"SetState\",\"st\":%s}\n", strips(state.getChainState(), s.d).c_str());
                continue;
            }
            fprintf(out, "{\"e\":\"Start\",\"b\":%d,\"c\":%d}\n", b, c);
            const char *threw = nullptr; std::string what;
            try{
                if (s.upd == 0){
                    if (s.logform) SampleDREAM<logform>(b, c, pdf, inside, state, update, diff, rng);
                    else           SampleDREAM<regform>(b, c, pdf, inside, state, update, diff, rng);
                }else{
                    TypeDistribution dist = (s.upd == 1) ? dist_null : ((s.upd == 2) ? dist_uniform : dist_gaussian);
                    if (s.logform) SampleDREAM<logform>(b, c, pdf, inside, state, dist, (double) s.mag, diff, rng);
                    else           SampleDREAM<regform>(b, c, pdf, inside, state, dist, (double) s.mag, diff, rng);
                }
            }catch(std::exception &e){ threw = "exception"; what = e.what(); }
            for(int rr : pending) fprintf(out, "{\"e\":\"Acc\",\"r\":%d}\n", rr);
            pending.clear();
            if (threw){ fprintf(out, "{\"e\":\"Threw\"}\n"); break; }
            std::vector<double> pv(s.n); for(int i=0; i<s.n; i++) pv[i] = state.isPDFReady() ? state.getPDFvalue(i) : 0.0;
            double accd = state.getAcceptanceRate() * (double) state.getNumHistory();
            fprintf(out, "{\"e\":\"End\",\"st\":%s,\"pv\":%s,\"hist\":%s,\"phist\":%s,\"acc\":%lld}\n",
                    strips(state.getChainState(), s.d).c_str(), vec(pv).c_str(), strips(state.getHistory(), s.d).c_str(),
                    vec(state.getHistoryPDF()).c_str(), (long long) std::llround(accd));
        }
        fflush(out);
    }
    fclose(out);
    return 0;
}
