#!/bin/bash
# Build TASMANIAN libraries straight from /repo's CURRENT working tree (never from /repo/_build).
# usage: build.sh <variant>      variants: serial | hooks | omp | omphooks
# Prints the build directory on stdout.  Builds are cached by a content hash of every
# source file that enters the build plus the flags, so an edited tree is always rebuilt.
set -e
VARIANT=${1:-hooks}
REPO=${VERIF_REPO:-/repo}
ROOT=${VERIF_BUILD_ROOT:-/verif/build}
FLAGS="-std=c++11 -O1 -g0 -fPIC -w"
case "$VARIANT" in
  serial)   ;;
  hooks)    FLAGS="$FLAGS -DTASMANIAN_VERIF_HOOKS" ;;
  omp)      FLAGS="$FLAGS -fopenmp" ;;
  omphooks) FLAGS="$FLAGS -fopenmp -DTASMANIAN_VERIF_HOOKS" ;;
  *) echo "unknown variant $VARIANT" >&2; exit 3 ;;
esac
SRC_SG=$(ls $REPO/SparseGrids/*.cpp | grep -v -e gridtest -e Cuda -e Hip -e Dpcpp -e Benchmarks)
SRC_ALL="$SRC_SG $REPO/InterfaceTPL/tsgGpuNull.cpp $REPO/DREAM/tsgDreamState.cpp $REPO/DREAM/tsgDreamLikelyGaussian.cpp $REPO/DREAM/tsgDreamSampleWrapC.cpp $REPO/DREAM/Optimization/tsgGradientDescent.cpp $REPO/DREAM/Optimization/tsgParticleSwarm.cpp $REPO/DREAM/Optimization/TasmanianOptimizationWrapC.cpp $REPO/Addons/tsgCConstructSurrogate.cpp $REPO/Addons/tsgCLoadNeededValues.cpp $REPO/Addons/tsgCLoadUnstructuredPoints.cpp $REPO/Addons/tsgCExoticQuadrature.cpp"
HASH=$( (echo "$FLAGS"; cat $REPO/SparseGrids/gridtest*.cpp $REPO/SparseGrids/*.hpp $REPO/SparseGrids/*.h $REPO/InterfaceTPL/*.hpp $REPO/DREAM/*.hpp $REPO/DREAM/Optimization/*.hpp $REPO/Addons/*.hpp $REPO/Tasgrid/*.cpp $REPO/Tasgrid/*.hpp $REPO/Config/TasmanianConfig.in.hpp $SRC_ALL) | sha1sum | cut -c1-16)
DIR=$ROOT/$VARIANT-$HASH
if [ -f $DIR/.done ]; then echo $DIR; exit 0; fi
# keep disk bounded: drop older builds of this variant
mkdir -p $ROOT
ls -dt $ROOT/$VARIANT-* 2>/dev/null | tail -n +3 | xargs -r rm -rf
rm -rf $DIR; mkdir -p $DIR/obj $DIR/inc
sed -e 's/@Tasmanian_VERSION_MAJOR@/8/' -e 's/@Tasmanian_VERSION_MINOR@/2/' -e 's/@Tasmanian_version_comment@//' \
    -e 's/@Tasmanian_license@/BSD/' -e 's/@Tasmanian_git_hash@/verif/' -e 's/@Tasmanian_cxx_flags@/verif/' \
    -e 's/^#cmakedefine \(.*\)$/\/\* #undef \1 \*\//' $REPO/Config/TasmanianConfig.in.hpp > $DIR/inc/TasmanianConfig.hpp
sed -e 's/@Tasmanian_cmake_synopsis@/verif build/' $REPO/Tasgrid/tasgridLogs.in.hpp > $DIR/inc/tasgridLogs.hpp 2>/dev/null || true
INC="-I$DIR/inc -I$REPO/SparseGrids -I$REPO/InterfaceTPL -I$REPO/DREAM -I$REPO/DREAM/Optimization -I$REPO/Addons -I$REPO/Tasgrid"
echo "$INC" > $DIR/inc.flags
echo "$FLAGS" > $DIR/cxx.flags
export DIR INC FLAGS
compile_one() { o=$DIR/obj/$(basename $1 .cpp).o; g++ $FLAGS $INC -c $1 -o $o 2>$o.log || { cat $o.log >&2; exit 255; }; }
export -f compile_one
echo $SRC_ALL $REPO/Tasgrid/tasgrid_main.cpp $REPO/Tasgrid/tasgridWrapper.cpp $REPO/SparseGrids/gridtestExternalTests.cpp $REPO/SparseGrids/gridtestTestFunctions.cpp | tr ' ' '\n' | xargs -P16 -I{} bash -c 'compile_one {}' >&2
ar rcs $DIR/libtsg.a $(ls $DIR/obj/*.o | grep -v -e tasgrid_main -e tasgridWrapper -e gridtest)
g++ $FLAGS $DIR/obj/tasgrid_main.o $DIR/obj/tasgridWrapper.o $DIR/obj/gridtestExternalTests.o $DIR/obj/gridtestTestFunctions.o $DIR/libtsg.a -lpthread -o $DIR/tasgrid >&2
cp $REPO/SparseGrids/GaussPattersonRule.table $DIR/ 2>/dev/null || true
touch $DIR/.done
echo $DIR
