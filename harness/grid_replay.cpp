// Conformance driver for the grid properties (C01-C11, C14, C16 api side).
// Executes action scripts on real TasmanianSparseGrid objects and writes, after every
// action, the projected abstract state plus observer bits as one ndjson event.
// No expected values live here: spec/GridTrace.tla judges every event.
//
// script: one action per line, scenarios start with "SCEN <label>"; see checks/gridlib.py
#include "TasmanianSparseGrid.hpp"
#include <cstdio>
#include <cmath>
#include <cstring>
#include <map>
#include <set>
#include <sstream>
#include <fstream>
#include <iostream>
#include <algorithm>
#include <functional>
#include <random>
#include <unistd.h>
#include <deque>
#include <sys/wait.h>
#include <signal.h>
#include <poll.h>

using namespace TasGrid;

static FILE *out = nullptr;
static std::string tmpdir = ".";
static int obs_mask = 0;    // 1 nodal, 2 routes, 4 roundtrip, 8 ratios always when refining, 16 quadrature/interp exactness, 32 gradient, 64 twin transform

enum { OBS_NODAL = 1, OBS_ROUTES = 2, OBS_RT = 4, OBS_EXACT = 16, OBS_GRAD = 32 };

// ---------------------------------------------------------------- small json helpers
static std::string jint(long long v){ return std::to_string(v); }
static std::string jnum(double v){
    if (std::isfinite(v) && std::floor(v) == v && std::fabs(v) < 2.0e9) return std::to_string((long long) v);
    char b[64]; snprintf(b, 64, "\"f:%.17g\"", v); return b;
}
template<typename T> static std::string jvec(std::vector<T> const &v, std::function<std::string(T const&)> f){
    std::string s = "["; for(size_t i=0; i<v.size(); i++){ if (i) s += ","; s += f(v[i]); } return s + "]";
}
static std::string jivec(std::vector<int> const &v){ std::string s = "["; for(size_t i=0; i<v.size(); i++){ if (i) s += ","; s += std::to_string(v[i]); } return s + "]"; }
static std::string jistrips(const int *p, int n, int d){
    std::string s = "[";
    for(int i=0; i<n; i++){ if (i) s += ","; s += "["; for(int j=0; j<d; j++){ if (j) s += ","; s += std::to_string(p[i*d+j]); } s += "]"; }
    return s + "]";
}
// loaded values: token values are integers; anything else (inferred values, garbage) is logged as one sentinel integer so that the
// comparison with a token in TLC is a well-typed mismatch instead of an evaluation error
static std::string jval(double v){
    if (std::isfinite(v) && std::floor(v) == v && std::fabs(v) < 2.0e9) return std::to_string((long long) v);
    return "-987654321";
}
static std::string jdstrips(const double *p, int n, int d){
    std::string s = "[";
    for(int i=0; i<n; i++){ if (i) s += ","; s += "["; for(int j=0; j<d; j++){ if (j) s += ","; s += jval(p[i*d+j]); } s += "]"; }
    return s + "]";
}
static std::string jdvec(std::vector<double> const &v){ std::string s = "["; for(size_t i=0; i<v.size(); i++){ if (i) s += ","; s += jnum(v[i]); } return s + "]"; }
// transform vectors as strings: the specification only compares them for equality, and a list that mixes integers and reals
// would be an ill-typed comparison in TLC
static std::string jsvec(std::vector<double> const &v){ std::string s = "["; for(size_t i=0; i<v.size(); i++){ char b[64]; snprintf(b, 64, "\"%.17g\"", v[i]); if (i) s += ","; s += b; } return s + "]"; }
static std::string jbool(bool b){ return b ? "true" : "false"; }
static std::string jstr(std::string const &s){ std::string r = "\""; for(char c : s){ if (c == '"' || c == '\\') r += '\\'; if (c == '\n') r += ' '; else r += c; } return r + "\""; }

// ---------------------------------------------------------------- tokens
// model value of output k at multi-index p supplied in epoch e (spec: Grid!Tok)
// the scenario's salt permutes which points carry the large values (salt 0: increasing with the index), so that the points
// a surplus refinement flags differ from scenario to scenario
static int tok_salt = 0;
static double tok(const int *p, int d, int k, int e){
    static const long long W[3] = {1, 100, 10000};
    long long v = (long long) e * 4000000LL + (long long) k * 1000000LL;
    for(int j=0; j<d && j<3; j++) v += W[j] * ((tok_salt == 0) ? (long long) (p[j] + 1) : (((long long) (p[j] + 1) * (long long) (1 + tok_salt)) % 97LL));
    return (double) v;
}

// ---------------------------------------------------------------- 1-D node tables (index -> canonical node)
struct NodeKey{ int fam; TypeOneDRule rule; int order; bool operator<(NodeKey const &o) const{ return std::tie(fam, rule, order) < std::tie(o.fam, o.rule, o.order); } };
static std::map<NodeKey, std::vector<double>> node_cache;
static int famOf(TasmanianSparseGrid const &g){ return g.isGlobal() ? 0 : g.isSequence() ? 1 : g.isLocalPolynomial() ? 2 : g.isWavelet() ? 3 : g.isFourier() ? 4 : -1; }
static const char* famName(int f){ static const char *n[] = {"global", "sequence", "localp", "wavelet", "fourier"}; return (f < 0) ? "empty" : n[f]; }

static std::vector<double> const& nodes1d(TasmanianSparseGrid const &g){
    NodeKey key{famOf(g), g.getRule(), g.getOrder()};
    auto it = node_cache.find(key);
    if (it != node_cache.end()) return it->second;
    TasmanianSparseGrid t;
    std::vector<double> nodes;
    try{
        switch(key.fam){
            case 0: {
                int depth = 0; // grow until at least 260 points or the rule's table ends
                for(depth = 1; depth < 40; depth++){
                    try{ TasmanianSparseGrid q; q.makeGlobalGrid(1, 0, depth, type_level, key.rule, std::vector<int>(), g.getAlpha(), g.getBeta());
                         t = q; if (q.getNumPoints() >= 260) break; }catch(std::exception &){ break; }
                }
                break; }
            case 1: t.makeSequenceGrid(1, 0, 40, type_level, key.rule); break;
            case 2: t.makeLocalPolynomialGrid(1, 0, (key.order == 0) ? 5 : 8, key.order, key.rule); break;
            case 3: t.makeWaveletGrid(1, 0, 6, key.order); break;
            case 4: t.makeFourierGrid(1, 0, 6, type_level); break;
            default: break;
        }
        if (!t.empty() && !OneDimensionalMeta::isNonNested(key.rule)){
            auto x = t.getPoints(); const int *idx = t.getPointsIndexes();
            int mx = 0; for(int i=0; i<t.getNumPoints(); i++) mx = std::max(mx, idx[i]);
            nodes.assign((size_t) mx + 1, std::nan(""));
            for(int i=0; i<t.getNumPoints(); i++) nodes[(size_t) idx[i]] = x[(size_t) i];
        }
    }catch(std::exception &){ }
    return node_cache[key] = nodes;
}

// ---------------------------------------------------------------- object slots
struct Slot{
    TasmanianSparseGrid g;
    std::set<std::vector<int>> delivered;   // samples delivered since beginConstruction() (loaded or parked): a second delivery is outside the contract
    int obase = 0;      // a copy of the outputs [b, e) keeps the token values of the source: output k of the copy is output b + k of the scenario
};
static int cur_obase = 0;
static Slot slots[3];

static void canon(TasmanianSparseGrid const &g, std::vector<double> &x){ // transformed -> canonical (linear transforms of [-1,1] and [0,1] rules only)
    if (!g.isSetDomainTransfrom()) return;
    std::vector<double> a, b; g.getDomainTransform(a, b);
    size_t d = (size_t) g.getNumDimensions();
    for(size_t i=0; i<x.size(); i++){
        size_t j = i % d;
        if (g.isFourier()) x[i] = (x[i] - a[j]) / (b[j] - a[j]);
        else x[i] = (2.0 * x[i] - (b[j] + a[j])) / (b[j] - a[j]);
    }
}
static void transf(TasmanianSparseGrid const &g, std::vector<double> &x){ // canonical -> transformed
    if (!g.isSetDomainTransfrom()) return;
    std::vector<double> a, b; g.getDomainTransform(a, b);
    size_t d = (size_t) g.getNumDimensions();
    for(size_t i=0; i<x.size(); i++){
        size_t j = i % d;
        if (g.isFourier()) x[i] = a[j] + x[i] * (b[j] - a[j]);
        else x[i] = 0.5 * ((b[j] - a[j]) * x[i] + (b[j] + a[j]));
    }
}

// map coordinates (transformed domain) to multi-indexes via the 1-D node table; -1 if no node matches
static std::vector<int> coordsToIndexes(TasmanianSparseGrid const &g, std::vector<double> x){
    canon(g, x);
    auto const &nodes = nodes1d(g);
    std::vector<int> idx(x.size(), -1);
    for(size_t i=0; i<x.size(); i++){
        for(size_t k=0; k<nodes.size(); k++)
            if (std::isfinite(nodes[k]) && std::fabs(nodes[k] - x[i]) < 1.0e-11){ idx[i] = (int) k; break; }
    }
    return idx;
}
static std::vector<double> indexesToCoords(TasmanianSparseGrid const &g, std::vector<int> const &idx){
    auto const &nodes = nodes1d(g);
    std::vector<double> x(idx.size());
    for(size_t i=0; i<idx.size(); i++) x[i] = ((size_t) idx[i] < nodes.size()) ? nodes[(size_t) idx[i]] : std::nan("");
    transf(g, x);
    return x;
}

// ---------------------------------------------------------------- projection
static std::string project(TasmanianSparseGrid const &g){
    std::string s = "{";
    int fam = famOf(g);
    s += "\"fam\":" + jstr(famName(fam));
    if (fam < 0){
        // an empty object carries nothing over from the grid it held before (C14: "either empty ... or exactly as before")
        bool residue = false;
        try{ residue = g.isSetDomainTransfrom() || g.isSetConformalTransformASIN() || !g.getLevelLimits().empty() || g.isUsingConstruction(); }catch(std::exception &){ residue = true; }
        return s + ",\"residue\":" + jbool(residue) + "}";
    }
    int d = g.getNumDimensions(), outs = g.getNumOutputs();
    int nl = g.getNumLoaded(), nn = g.getNumNeeded(), np = g.getNumPoints();
    s += ",\"rule\":" + jstr(IO::getRuleString(g.getRule()));
    s += ",\"order\":" + jint(g.getOrder()) + ",\"dims\":" + jint(d) + ",\"outs\":" + jint(outs);
    s += ",\"nl\":" + jint(nl) + ",\"nn\":" + jint(nn) + ",\"np\":" + jint(np);
    // loaded / needed multi-indexes (guarded accessors; with zero outputs every point counts as loaded)
    const int *pi = g.verifLoadedIndexes();
    const int *ni = g.verifNeededIndexes();
    int npi = (outs == 0) ? ((pi != nullptr) ? np : 0) : nl;
    s += ",\"pts\":" + ((pi && npi > 0) ? jistrips(pi, npi, d) : std::string("[]"));
    s += ",\"need\":" + ((ni && nn > 0) ? jistrips(ni, nn, d) : std::string("[]"));
    if (outs > 0 && nl > 0){
        const double *v = g.getLoadedValues();
        s += ",\"vals\":" + jdstrips(v, nl, outs);
    }else s += ",\"vals\":[]";
    s += ",\"lim\":" + jivec(g.getLevelLimits());
    s += ",\"con\":" + jbool(g.isUsingConstruction());
    if (g.isSetDomainTransfrom()){
        std::vector<double> a, b; g.getDomainTransform(a, b);
        s += ",\"ta\":" + jsvec(a) + ",\"tb\":" + jsvec(b);
    }else s += ",\"ta\":[],\"tb\":[]";
    s += ",\"conf\":" + (g.isSetConformalTransformASIN() ? jivec(g.getConformalTransformASIN()) : std::string("[]"));
    s += ",\"alpha\":" + jnum(g.getAlpha()) + ",\"beta\":" + jnum(g.getBeta());
    return s + "}";
}

// ---------------------------------------------------------------- observers
// route-vs-route comparison of a sum of products: the rounding error scales with the sum of the magnitudes of the terms
static double vsum_scale = 0.0; // sum of |loaded values| of the grid under observation: weights carry absolute rounding noise
static bool sclose(double a, double b, double scale){ return std::fabs(a - b) <= 1.0e-10 * (scale + std::fabs(b)) + 1.0e-12 * vsum_scale + 1.0e-13; }
static bool close(double a, double b, double tol){ return std::fabs(a - b) <= tol * (1.0 + std::fabs(a) + std::fabs(b)); }

static std::string obs_nodal(TasmanianSparseGrid const &g){
    // C01: all three evaluation routes reproduce the loaded values at the loaded points
    int nl = g.getNumLoaded(), outs = g.getNumOutputs(), d = g.getNumDimensions();
    if (nl == 0 || outs == 0) return "\"nodal\":{}";
    auto x = g.getLoadedPoints(); const double *v = g.getLoadedValues();
    std::vector<double> yb; g.evaluateBatch(x, yb);
    bool ev = true, eb = true, ef = true; double worst = 0.0;
    std::vector<double> y((size_t) outs), yf((size_t) outs);
    // rounding is relative to the size of the data of the output (a zero value next to values of 1e7 is reproduced to 1e-9, not to 1e-25)
    std::vector<double> vmax((size_t) outs, 0.0);
    for(int i=0; i<nl; i++) for(int k=0; k<outs; k++) vmax[(size_t) k] = std::max(vmax[(size_t) k], std::fabs(v[(size_t) i * outs + k]));
    auto near = [&](double a, double ref, int k){ return std::fabs(a - ref) <= 1.0e-9 * (1.0 + std::fabs(ref)) + 1.0e-12 * vmax[(size_t) k]; };
    for(int i=0; i<nl; i++){
        std::vector<double> xi(x.begin() + (size_t) i * d, x.begin() + (size_t) (i + 1) * d);
        g.evaluate(xi, y); g.evaluateFast(xi, yf);
        for(int k=0; k<outs; k++){
            double ref = v[(size_t) i * outs + k];
            ev = ev && near(y[(size_t) k], ref, k);
            ef = ef && near(yf[(size_t) k], ref, k);
            eb = eb && near(yb[(size_t) i * outs + k], ref, k);
            worst = std::max(worst, std::fabs(y[(size_t) k] - ref) / (1.0 + std::fabs(ref) + 1.0e-3 * vmax[(size_t) k]));
        }
    }
    // the same with outputs of very different magnitude (output k scaled by 10^(-4k)): every output is reproduced relative to its
    // own size -- iterative solves and normalisations must not couple the outputs
    bool scaled_ok = true; bool scaled_done = false;
    if (outs >= 2 && g.getNumNeeded() == 0 && !g.isUsingConstruction() && (g.isWavelet() || g.isLocalPolynomial() || g.isSequence() || g.isFourier() || g.isGlobal())){
        try{
            TasmanianSparseGrid t; t.copyGrid(g);
            std::vector<double> sv((size_t) nl * outs), smax((size_t) outs, 0.0);
            for(int i=0; i<nl; i++) for(int k=0; k<outs; k++){ sv[(size_t) i * outs + k] = v[(size_t) i * outs + k] * std::pow(10.0, -4.0 * k) * ((k % 2) ? 1.0 : 250.0); smax[(size_t) k] = std::max(smax[(size_t) k], std::fabs(sv[(size_t) i * outs + k])); }
            t.loadNeededValues(sv);
            std::vector<double> ys; t.evaluateBatch(x, ys);
            for(int i=0; i<nl; i++) for(int k=0; k<outs; k++) if (std::fabs(ys[(size_t) i * outs + k] - sv[(size_t) i * outs + k]) > 1.0e-9 * (smax[(size_t) k] + 1.0e-300)) scaled_ok = false;
            scaled_done = true;
        }catch(std::exception &){ scaled_ok = false; scaled_done = true; }
    }
    char b[64]; snprintf(b, 64, "%.2e", worst);
    if (scaled_done) ev = ev && scaled_ok;      // reported through the evaluate bit (the spec requires every nodal bit)
    return std::string("\"nodal\":{\"evaluate\":") + jbool(ev) + ",\"batch\":" + jbool(eb) + ",\"fast\":" + jbool(ef) + ",\"worst\":\"" + b + "\"}";
}

static std::vector<double> probe_points(TasmanianSparseGrid const &g, int n, unsigned seed){
    // points inside the (transformed) domain: some nodes, some interior points
    int d = g.getNumDimensions();
    std::vector<double> x;
    std::mt19937 gen(seed);
    std::uniform_real_distribution<double> u(0.0, 1.0);
    std::vector<double> a((size_t) d, -1.0), b((size_t) d, 1.0);
    if (g.isFourier()){ std::fill(a.begin(), a.end(), 0.0); }
    TypeOneDRule r = g.getRule();
    bool unbounded = (r == rule_gausslaguerre || r == rule_gausslaguerreodd || r == rule_gausshermite || r == rule_gausshermiteodd);
    if (g.isSetDomainTransfrom() && !unbounded) g.getDomainTransform(a, b);
    if (unbounded){ std::fill(a.begin(), a.end(), 0.1); std::fill(b.begin(), b.end(), 1.5); }
    auto pts = g.getPoints(); int np = g.getNumPoints();
    for(int i=0; i<n; i++){
        if (i % 3 == 0 && np > 0){ int p = (int) (gen() % (unsigned) np); x.insert(x.end(), pts.begin() + (size_t) p * d, pts.begin() + (size_t) (p + 1) * d); }
        else for(int j=0; j<d; j++) x.push_back(a[(size_t) j] + (0.02 + 0.96 * u(gen)) * (b[(size_t) j] - a[(size_t) j]));
    }
    return x;
}

static std::string obs_routes(TasmanianSparseGrid const &g, unsigned seed){
    // C04: documented routes to the same quantity agree (bits); "na" when the route does not apply
    int nl = g.getNumLoaded(), outs = g.getNumOutputs(), d = g.getNumDimensions(), np = g.getNumPoints();
    if (np == 0) return "\"routes\":{}";
    std::string s = "\"routes\":{";
    const int nx = 33;
    auto x = probe_points(g, nx, seed);
    const double tol = 1.0e-10;
    bool first = true;
    auto add = [&](const char *name, bool ok){ if (!first) s += ","; first = false; s += std::string("\"") + name + "\":" + jbool(ok); };
    try{
        // hierarchical functions: dense vs sparse (all families)
        std::vector<double> hd; g.evaluateHierarchicalFunctions(x, hd);
        size_t stride = hd.size() / (size_t) nx; // Fourier stores complex pairs
        if (!g.isFourier() && (g.isLocalPolynomial() || g.isWavelet())){
            std::vector<int> pntr, indx; std::vector<double> vals;
            g.evaluateSparseHierarchicalFunctions(x, pntr, indx, vals);
            bool ok = (pntr.size() == (size_t) nx + 1);
            for(int i=0; ok && i<nx; i++){
                std::vector<double> row((size_t) np, 0.0);
                for(int j=pntr[(size_t) i]; j<pntr[(size_t) i + 1]; j++) row[(size_t) indx[(size_t) j]] = vals[(size_t) j];
                for(int k=0; k<np; k++) ok = ok && close(row[(size_t) k], hd[(size_t) i * stride + (size_t) k], 1.0e-13);
            }
            // the sparse matrix is assembled in blocks of 32 rows: batch sizes on and around the block boundaries
            for(int bs : {1, 31, 32, 64}){
                std::vector<double> xb(x.begin(), x.begin() + (size_t) std::min(bs, nx) * d);
                while((int) (xb.size() / (size_t) d) < bs) xb.insert(xb.end(), x.begin(), x.begin() + (size_t) std::min(nx, bs - (int) (xb.size() / (size_t) d)) * d);
                std::vector<double> hb; g.evaluateHierarchicalFunctions(xb, hb);
                std::vector<int> bp, bi; std::vector<double> bv;
                g.evaluateSparseHierarchicalFunctions(xb, bp, bi, bv);
                if (bp.size() != (size_t) bs + 1){ ok = false; continue; }
                for(int i=0; ok && i<bs; i++){
                    std::vector<double> row((size_t) np, 0.0);
                    for(int j=bp[(size_t) i]; j<bp[(size_t) i + 1]; j++) row[(size_t) bi[(size_t) j]] = bv[(size_t) j];
                    for(int k=0; k<np; k++) ok = ok && close(row[(size_t) k], hb[(size_t) i * (size_t) np + (size_t) k], 1.0e-13);
                }
            }
            add("sparse_eq_dense", ok);
            // support: basis is zero farther than the support radius from its node, in any direction
            auto sup = g.getHierarchicalSupport(); auto nodes = g.getPoints();
            bool sok = true;
            for(int i=0; i<nx; i++) for(int k=0; k<np; k++){
                bool outside = false;
                for(int j=0; j<d; j++) if (std::fabs(x[(size_t) i * d + j] - nodes[(size_t) k * d + j]) > sup[(size_t) k * d + j] * (1.0 + 1.0e-12) + 1.0e-14) outside = true;
                if (outside && hd[(size_t) i * stride + (size_t) k] != 0.0) sok = false;
            }
            add("support_zero", sok);
        }
        if (outs > 0 && nl > 0){
            std::vector<double> yb; g.evaluateBatch(x, yb);
            const double *v = g.getLoadedValues();
            const double *c = g.getHierarchicalCoefficients();
            vsum_scale = 0.0; for(size_t i=0; i<(size_t) nl * (size_t) outs; i++) vsum_scale += std::fabs(v[i]);
            bool e_row = true, e_w = true, e_h = true, e_dw = true;
            bool has_needed = (g.getNumNeeded() > 0);
            for(int i=0; i<nx; i++){
                std::vector<double> xi(x.begin() + (size_t) i * d, x.begin() + (size_t) (i + 1) * d), y;
                g.evaluate(xi, y);
                for(int k=0; k<outs; k++) e_row = e_row && close(y[(size_t) k], yb[(size_t) i * outs + k], tol);
                if (!has_needed){ // weights and hierarchical functions refer to "points" = loaded points only when nothing is pending
                    auto w = g.getInterpolationWeights(xi);
                    for(int k=0; k<outs; k++){
                        double sum = 0.0, sc = 0.0; for(int p=0; p<nl; p++){ double t = w[(size_t) p] * v[(size_t) p * outs + k]; sum += t; sc += std::fabs(t); }
                        e_w = e_w && sclose(sum, y[(size_t) k], sc);
                    }
                    if (!g.isGlobal()){
                        for(int k=0; k<outs; k++){
                            double sum = 0.0, sc = 0.0;
                            if (g.isFourier()){
                                for(int p=0; p<nl; p++){ double t1 = c[(size_t) p * outs + k] * hd[(size_t) i * stride + 2 * (size_t) p], t2 = c[(size_t) (p + nl) * outs + k] * hd[(size_t) i * stride + 2 * (size_t) p + 1]; sum += t1 - t2; sc += std::fabs(t1) + std::fabs(t2); }
                            }else{
                                for(int p=0; p<nl; p++){ double t = c[(size_t) p * outs + k] * hd[(size_t) i * stride + (size_t) p]; sum += t; sc += std::fabs(t); }
                            }
                            e_h = e_h && sclose(sum, y[(size_t) k], sc);
                        }
                    }
                    // differentiation weights are compared at nodes and at points that keep a distance from every
                    // node coordinate (the closed-form derivative of the Fourier kernel loses digits like 1/distance^2)
                    bool well_separated = true;
                    {
                        auto nodes = g.getPoints();
                        for(int j=0; j<d && well_separated; j++){
                            double lo = nodes[(size_t) j], hi = nodes[(size_t) j];
                            for(int p=0; p<np; p++){ lo = std::min(lo, nodes[(size_t) p * d + j]); hi = std::max(hi, nodes[(size_t) p * d + j]); }
                            double width = std::max(hi - lo, 1.0e-3);
                            for(int p=0; p<np; p++){
                                double dist = std::fabs(xi[(size_t) j] - nodes[(size_t) p * d + j]);
                                if (dist != 0.0 && dist < 0.01 * width){ well_separated = false; break; }
                            }
                        }
                    }
                    if (i < 9 && well_separated){
                        try{
                            std::vector<double> jac; g.differentiate(xi, jac);
                            auto dw = g.getDifferentiationWeights(xi);
                            for(int k=0; k<outs; k++) for(int j=0; j<d; j++){
                                double sum = 0.0, sc = 0.0; for(int p=0; p<nl; p++){ double t = dw[(size_t) p * d + j] * v[(size_t) p * outs + k]; sum += t; sc += std::fabs(t); }
                                if (getenv("VERIF_DEBUG") && !sclose(sum, jac[(size_t) k * d + j], 100.0 * sc)) fprintf(stderr, "dw mismatch: x[0]=%.17g sum=%.17g jac=%.17g sc=%g vsum=%g\n", xi[0], sum, jac[(size_t) k * d + j], sc, vsum_scale);
                                e_dw = e_dw && sclose(sum, jac[(size_t) k * d + j], 100.0 * sc);   // derivative formulas lose digits next to nodes: 1e-8 of the term scale
                            }
                        }catch(std::exception &){ }
                    }
                }
            }
            add("batch_row", e_row);
            if (!has_needed){ add("weights_values", e_w); if (!g.isGlobal()) add("coeff_basis", e_h); add("diffweights_values", e_dw); }
            if (!has_needed){
                std::vector<double> q; g.integrate(q);
                auto qw = g.getQuadratureWeights();
                bool e_q = true, e_ih = true;
                for(int k=0; k<outs; k++){ double sum = 0.0, sc = 0.0; for(int p=0; p<nl; p++){ double t = qw[(size_t) p] * v[(size_t) p * outs + k]; sum += t; sc += std::fabs(t); } e_q = e_q && sclose(sum, q[(size_t) k], sc); }
                add("integrate_qweights", e_q);
                if (!g.isGlobal()){     // Fourier: the first nl strips are the real parts, only the constant mode has a non-zero integral
                    std::vector<double> ih((size_t) np); g.integrateHierarchicalFunctions(ih.data());
                    for(int k=0; k<outs; k++){ double sum = 0.0, sc = 0.0; for(int p=0; p<nl; p++){ double t = ih[(size_t) p] * c[(size_t) p * outs + k]; sum += t; sc += std::fabs(t); } e_ih = e_ih && sclose(sum, q[(size_t) k], sc); }
                    add("integrate_hier", e_ih);
                }
            }
        }
    }catch(std::exception &e){ add("exception", false); }
    return s + "}";
}


// ---------------------------------------------------------------- exactness observers (C02, C03)
// canonical moment of x^m with respect to the weight function documented for the rule
static bool rule_family(TypeOneDRule r, int &kind){
    // kind: 0 uniform on [-1,1], 1 jacobi-type (alpha, beta) on [-1,1], 2 laguerre, 3 hermite, 4 fourier
    switch(r){
        case rule_gausschebyshev1: case rule_gausschebyshev1odd: case rule_gausschebyshev2: case rule_gausschebyshev2odd:
        case rule_gaussgegenbauer: case rule_gaussgegenbauerodd: case rule_gaussjacobi: case rule_gaussjacobiodd: kind = 1; return true;
        case rule_gausslaguerre: case rule_gausslaguerreodd: kind = 2; return true;
        case rule_gausshermite: case rule_gausshermiteodd: kind = 3; return true;
        case rule_fourier: kind = 4; return true;
        case rule_clenshawcurtis0: case rule_customtabulated: return false;   // exactness not stated on plain monomials
        default: kind = 0; return true;
    }
}
static void jacobi_ab(TasmanianSparseGrid const &g, double &a, double &b){
    TypeOneDRule r = g.getRule();
    if (r == rule_gausschebyshev1 || r == rule_gausschebyshev1odd){ a = -0.5; b = -0.5; }
    else if (r == rule_gausschebyshev2 || r == rule_gausschebyshev2odd){ a = 0.5; b = 0.5; }
    else if (r == rule_gaussgegenbauer || r == rule_gaussgegenbauerodd){ a = g.getAlpha(); b = g.getAlpha(); }
    else { a = g.getAlpha(); b = g.getBeta(); }
}
static double moment1d(int kind, double alpha, double beta, int m){
    if (kind == 0) return (m % 2 == 1) ? 0.0 : 2.0 / (double) (m + 1);
    if (kind == 1){
        if (alpha == beta){ // symmetric: integral of (1-x^2)^alpha x^m = B((m+1)/2, alpha+1) for even m
            if (m % 2 == 1) return 0.0;
            return std::exp(std::lgamma(0.5 * (m + 1)) + std::lgamma(alpha + 1.0) - std::lgamma(0.5 * (m + 1) + alpha + 1.0));
        }
        // three-term recurrence from the vanishing integral of d/dx[(1-x^2) w(x) x^m]:
        //   mu_{m+1} = ((beta - alpha) mu_m + m mu_{m-1}) / (m + alpha + beta + 2),  mu_0 = 2^(a+b+1) B(a+1, b+1)
        double mu_prev = 0.0;
        double mu = std::pow(2.0, alpha + beta + 1.0) * std::exp(std::lgamma(alpha + 1.0) + std::lgamma(beta + 1.0) - std::lgamma(alpha + beta + 2.0));
        for(int k=0; k<m; k++){
            double next = ((beta - alpha) * mu + (double) k * mu_prev) / ((double) k + alpha + beta + 2.0);
            mu_prev = mu; mu = next;
        }
        return mu;
    }
    if (kind == 2) return std::tgamma(m + alpha + 1.0);
    if (kind == 3) return (m % 2 == 1) ? 0.0 : std::tgamma(0.5 * (m + alpha + 1.0));
    return 0.0;
}
// transformed point -> canonical coordinate of dimension j
static double to_canonical(TasmanianSparseGrid const &g, int kind, std::vector<double> const &a, std::vector<double> const &b, int j, double x){
    if (a.empty()) return x;
    if (kind == 2) return (x - a[(size_t) j]) * b[(size_t) j];
    if (kind == 3) return (x - a[(size_t) j]) * std::sqrt(b[(size_t) j]);
    if (kind == 4) return (x - a[(size_t) j]) / (b[(size_t) j] - a[(size_t) j]);
    return (2.0 * x - (b[(size_t) j] + a[(size_t) j])) / (b[(size_t) j] - a[(size_t) j]);
}
static double documented_scale(TasmanianSparseGrid const &g, int kind, std::vector<double> const &a, std::vector<double> const &b){
    if (a.empty()) return 1.0;
    double al = 0.0, be = 0.0; if (kind == 1) jacobi_ab(g, al, be); else al = g.getAlpha();
    double s = 1.0;
    for(size_t j=0; j<a.size(); j++){
        if (kind == 0) s *= 0.5 * (b[j] - a[j]);
        else if (kind == 1) s *= std::pow(0.5 * (b[j] - a[j]), al + be + 1.0);
        else if (kind == 2) s *= std::pow(b[j], -(1.0 + al));
        else if (kind == 3) s *= std::pow(b[j], -0.5 * (1.0 + al));
        else s *= (b[j] - a[j]);
    }
    return s;
}
static double vsum_scale_of(TasmanianSparseGrid const &g){ double v = 0.0; const double *p = g.getLoadedValues(); if (p) for(size_t i=0; i<(size_t) g.getNumLoaded() * (size_t) g.getNumOutputs(); i++) v += std::fabs(p[i]); return v; }
static std::string jspace(std::vector<int> const &sp, int d){ return jistrips(sp.data(), (int) (sp.size() / (size_t) std::max(d, 1)), d); }

static std::string obs_exact(TasmanianSparseGrid const &g, unsigned seed){
    // C02: quadrature weights integrate every monomial of getGlobalPolynomialSpace(false) exactly (Fourier: every mode)
    // C03: interpolation weights (and evaluate after loading nodal values) reproduce every monomial of getGlobalPolynomialSpace(true)
    //      (Fourier: modes; wavelet / local polynomial: affine functions), weights sum to one
    int d = g.getNumDimensions(), np = g.getNumPoints();
    if (np == 0 || g.isSetConformalTransformASIN()) return "\"exact\":{}";
    int kind = 0;
    if (!rule_family(g.getRule(), kind) && (g.isGlobal() || g.isSequence())) return "\"exact\":{}";
    std::vector<double> ta, tb; if (g.isSetDomainTransfrom()) g.getDomainTransform(ta, tb);
    double al = 0.0, be = 0.0; if (kind == 1) jacobi_ab(g, al, be); else if (kind == 2 || kind == 3) al = g.getAlpha();
    auto pts = g.getPoints();
    std::vector<double> cpts(pts.size());
    for(size_t i=0; i<pts.size(); i++) cpts[i] = to_canonical(g, kind, ta, tb, (int) (i % (size_t) d), pts[i]);
    auto qw = g.getQuadratureWeights();
    std::string s = "\"exact\":{";
    bool first = true;
    auto add = [&](const char *name, std::string v){ if (!first) s += ","; first = false; s += std::string("\"") + name + "\":" + v; };
    try{
        double scale = documented_scale(g, kind, ta, tb);
        if (g.isGlobal() || g.isSequence()){
            auto qs = g.getGlobalPolynomialSpace(false), is = g.getGlobalPolynomialSpace(true);
            add("qspace", jspace(qs, d)); add("ispace", jspace(is, d));
            // quadrature of every monomial of the declared space (in the canonical variable, times the documented scale)
            bool qok = true; int qbad = -1;
            for(size_t m=0; m<qs.size() / (size_t) d; m++){
                double exact = scale, sum = 0.0, sc = 0.0;
                for(int j=0; j<d; j++) exact *= moment1d(kind, al, be, qs[m * d + j]);
                for(int i=0; i<np; i++){ double t = qw[(size_t) i]; for(int j=0; j<d; j++) t *= std::pow(cpts[(size_t) i * d + j], qs[m * d + j]); sum += t; sc += std::fabs(t); }
                if (std::fabs(sum - exact) > 1.0e-9 * (sc + std::fabs(exact)) + 1.0e-12){ qok = false; if (qbad < 0) qbad = (int) m; }
            }
            add("q_monomials", jbool(qok));
            if (!qok) add("q_first_bad", jistrips(qs.data() + (size_t) qbad * d, 1, d));
            // interpolation weights reproduce every monomial of the interpolation space at probe points
            auto xp = probe_points(g, 7, seed);
            bool iok = true, w1 = true; int ibad = -1;
            for(int k=0; k<7; k++){
                std::vector<double> xi(xp.begin() + (size_t) k * d, xp.begin() + (size_t) (k + 1) * d);
                auto w = g.getInterpolationWeights(xi);
                double ws = 0.0, wsc = 0.0; for(auto v : w){ ws += v; wsc += std::fabs(v); }
                if (std::fabs(ws - 1.0) > 1.0e-9 * (wsc + 1.0)) w1 = false;
                for(size_t m=0; m<is.size() / (size_t) d; m++){
                    double exact = 1.0, sum = 0.0, sc = 0.0;
                    for(int j=0; j<d; j++) exact *= std::pow(to_canonical(g, kind, ta, tb, j, xi[(size_t) j]), is[m * d + j]);
                    for(int i=0; i<np; i++){ double t = w[(size_t) i]; for(int j=0; j<d; j++) t *= std::pow(cpts[(size_t) i * d + j], is[m * d + j]); sum += t; sc += std::fabs(t); }
                    if (std::fabs(sum - exact) > 1.0e-8 * (sc + std::fabs(exact)) + 1.0e-12){ iok = false; if (ibad < 0) ibad = (int) m; }
                }
            }
            add("i_monomials", jbool(iok)); add("i_wsum1", jbool(w1));
            if (!iok) add("i_first_bad", jistrips(is.data() + (size_t) ibad * d, 1, d));
            // evaluate() after loading the nodal values of a few monomials of the space (highest ones included)
            if (g.getNumOutputs() > 0){
                TasmanianSparseGrid t; t.copyGrid(g);
                if (t.isUsingConstruction()) t.finishConstruction();
                if (t.getNumNeeded() > 0 && t.getNumLoaded() > 0) t.clearRefinement();
                int outs = t.getNumOutputs(); size_t nm = is.size() / (size_t) d;
                auto tp = t.getPoints(); int tn = t.getNumPoints();
                bool eok = true;
                for(size_t pick=0; pick<4 && tn > 0; pick++){
                    // with several candidate monomials per output: the last ones (highest degree) and a spread
                    std::vector<double> vals((size_t) tn * outs);
                    std::vector<size_t> ms((size_t) outs);
                    for(int o=0; o<outs; o++) ms[(size_t) o] = (nm - 1 - ((pick * (size_t) outs + (size_t) o) * 7) % nm);
                    for(int i=0; i<tn; i++) for(int o=0; o<outs; o++){
                        double v = 1.0; for(int j=0; j<d; j++) v *= std::pow(to_canonical(g, kind, ta, tb, j, tp[(size_t) i * d + j]), is[ms[(size_t) o] * d + j]);
                        vals[(size_t) i * outs + o] = v;
                    }
                    t.loadNeededValues(vals);
                    for(int k=0; k<7; k++){
                        std::vector<double> xi(xp.begin() + (size_t) k * d, xp.begin() + (size_t) (k + 1) * d), y;
                        t.evaluate(xi, y);
                        for(int o=0; o<outs; o++){
                            double exact = 1.0; for(int j=0; j<d; j++) exact *= std::pow(to_canonical(g, kind, ta, tb, j, xi[(size_t) j]), is[ms[(size_t) o] * d + j]);
                            if (std::fabs(y[(size_t) o] - exact) > 1.0e-8 * (1.0 + std::fabs(exact))) eok = false;
                        }
                    }
                }
                add("i_evaluate", jbool(eok));
            }
        }else if (g.isFourier()){
            // every trigonometric mode attached to a grid point integrates to its exact value (0 unless constant) and is reproduced
            const int *idx = g.verifLoadedIndexes() ? g.verifLoadedIndexes() : g.verifNeededIndexes();
            bool qok = true, iok = true, w1 = true;
            auto xp = probe_points(g, 5, seed);
            for(int m=0; m<np; m++){
                // mode index i in 0..: frequency 0, 1, -1, 2, -2, ...
                std::vector<int> freq((size_t) d);
                for(int j=0; j<d; j++){ int i = idx[(size_t) m * d + j]; freq[(size_t) j] = (i % 2 == 1) ? (i + 1) / 2 : -(i / 2); }
                double sr = 0.0, si = 0.0, sc = 0.0;
                for(int i=0; i<np; i++){ double ph = 0.0; for(int j=0; j<d; j++) ph += 2.0 * M_PI * freq[(size_t) j] * cpts[(size_t) i * d + j]; sr += qw[(size_t) i] * std::cos(ph); si += qw[(size_t) i] * std::sin(ph); sc += std::fabs(qw[(size_t) i]); }
                bool constant = true; for(int j=0; j<d; j++) if (freq[(size_t) j] != 0) constant = false;
                double er = constant ? scale : 0.0;
                if (std::fabs(sr - er) > 1.0e-9 * (sc + 1.0) || std::fabs(si) > 1.0e-9 * (sc + 1.0)) qok = false;
                for(int k=0; k<5; k++){
                    std::vector<double> xi(xp.begin() + (size_t) k * d, xp.begin() + (size_t) (k + 1) * d);
                    auto w = g.getInterpolationWeights(xi);
                    double wr = 0.0, wi = 0.0, ws = 0.0, wsc = 0.0, phx = 0.0;
                    for(int j=0; j<d; j++) phx += 2.0 * M_PI * freq[(size_t) j] * to_canonical(g, kind, ta, tb, j, xi[(size_t) j]);
                    for(int i=0; i<np; i++){ double ph = 0.0; for(int j=0; j<d; j++) ph += 2.0 * M_PI * freq[(size_t) j] * cpts[(size_t) i * d + j]; wr += w[(size_t) i] * std::cos(ph); wi += w[(size_t) i] * std::sin(ph); ws += w[(size_t) i]; wsc += std::fabs(w[(size_t) i]); }
                    if (std::fabs(wr - std::cos(phx)) > 1.0e-8 * (wsc + 1.0) || std::fabs(wi - std::sin(phx)) > 1.0e-8 * (wsc + 1.0)) iok = false;
                    if (std::fabs(ws - 1.0) > 1.0e-9 * (wsc + 1.0)) w1 = false;
                }
            }
            add("q_modes", jbool(qok)); add("i_modes", jbool(iok)); add("i_wsum1", jbool(w1));
            // evaluate() after loading the nodal values of a few modes (real and imaginary parts), highest ones included
            if (g.getNumOutputs() > 0){
                TasmanianSparseGrid t; t.copyGrid(g);
                if (t.isUsingConstruction()) t.finishConstruction();
                if (t.getNumNeeded() > 0 && t.getNumLoaded() > 0) t.clearRefinement();
                int outs = t.getNumOutputs(); int tn = t.getNumPoints();
                const int *tidx = t.verifLoadedIndexes() ? t.verifLoadedIndexes() : t.verifNeededIndexes();
                auto tp = t.getPoints();
                bool eok = true;
                for(size_t pick=0; pick<4 && tn > 0 && tidx != nullptr; pick++){
                    std::vector<std::vector<int>> fr((size_t) outs, std::vector<int>((size_t) d));
                    for(int o=0; o<outs; o++){
                        size_t m = ((size_t) tn - 1 - ((pick * (size_t) outs + (size_t) o) * 7) % (size_t) tn);
                        for(int j=0; j<d; j++){ int i = tidx[m * (size_t) d + (size_t) j]; fr[(size_t) o][(size_t) j] = (i % 2 == 1) ? (i + 1) / 2 : -(i / 2); }
                    }
                    bool use_sin = (pick % 2 == 1);
                    std::vector<double> vals((size_t) tn * outs);
                    for(int i=0; i<tn; i++) for(int o=0; o<outs; o++){
                        double ph = 0.0; for(int j=0; j<d; j++) ph += 2.0 * M_PI * fr[(size_t) o][(size_t) j] * to_canonical(g, kind, ta, tb, j, tp[(size_t) i * d + j]);
                        vals[(size_t) i * outs + o] = use_sin ? std::sin(ph) : std::cos(ph);
                    }
                    t.loadNeededValues(vals);
                    for(int k=0; k<5; k++){
                        std::vector<double> xi(xp.begin() + (size_t) k * d, xp.begin() + (size_t) (k + 1) * d), y;
                        t.evaluate(xi, y);
                        for(int o=0; o<outs; o++){
                            double ph = 0.0; for(int j=0; j<d; j++) ph += 2.0 * M_PI * fr[(size_t) o][(size_t) j] * to_canonical(g, kind, ta, tb, j, xi[(size_t) j]);
                            double exact = use_sin ? std::sin(ph) : std::cos(ph);
                            if (std::fabs(y[(size_t) o] - exact) > 1.0e-8 * (double) (tn + 1)) eok = false;
                        }
                    }
                }
                add("i_evaluate", jbool(eok));
            }
        }else{
            // wavelet, local polynomial (order != 0, rules that include the boundary, depth >= 1): affine functions
            bool applies = g.isWavelet() || (g.isLocalPolynomial() && g.getOrder() != 0 && g.getRule() != rule_localp0);
            int maxidx = 0; const int *idx = g.verifLoadedIndexes() ? g.verifLoadedIndexes() : g.verifNeededIndexes();
            for(int i=0; i<np * d; i++) maxidx = std::max(maxidx, idx[i]);
            if (applies && g.isLocalPolynomial()){
                // every direction must hold both end points and the centre (depth >= 1 in every direction)
                for(int j=0; j<d; j++){
                    std::set<int> have; for(int i=0; i<np; i++) have.insert(idx[(size_t) i * d + j]);
                    if (!(have.count(0) && have.count(1) && have.count(2))) applies = false;
                }
            }
            if (applies){
                auto xp = probe_points(g, 7, seed);
                bool iok = true, w1 = true;
                for(int k=0; k<7; k++){
                    std::vector<double> xi(xp.begin() + (size_t) k * d, xp.begin() + (size_t) (k + 1) * d);
                    auto w = g.getInterpolationWeights(xi);
                    double ws = 0.0, wsc = 0.0; for(auto v : w){ ws += v; wsc += std::fabs(v); }
                    if (std::fabs(ws - 1.0) > 1.0e-9 * (wsc + 1.0)) w1 = false;
                    for(int j=0; j<d; j++){
                        double sum = 0.0; for(int i=0; i<np; i++) sum += w[(size_t) i] * pts[(size_t) i * d + j];
                        if (std::fabs(sum - xi[(size_t) j]) > 1.0e-8 * (wsc + 1.0) * (1.0 + std::fabs(xi[(size_t) j]))) iok = false;
                    }
                }
                add("i_affine", jbool(iok)); add("i_wsum1", jbool(w1));
                // evaluate() after loading the nodal values of the coordinate functions and of a constant
                if (g.getNumOutputs() > 0){
                    TasmanianSparseGrid t; t.copyGrid(g);
                    if (t.isUsingConstruction()) t.finishConstruction();
                    if (t.getNumNeeded() > 0 && t.getNumLoaded() > 0) t.clearRefinement();
                    int outs = t.getNumOutputs(); int tn = t.getNumPoints();
                    auto tp = t.getPoints();
                    bool eok = true;
                    for(int pick=0; pick<=d && tn > 0; pick++){
                        // output o carries coordinate (pick + o) mod (d + 1); index d stands for the constant 3
                        std::vector<double> vals((size_t) tn * outs);
                        for(int i=0; i<tn; i++) for(int o=0; o<outs; o++){ int c = (pick + o) % (d + 1); vals[(size_t) i * outs + o] = (c == d) ? 3.0 : tp[(size_t) i * d + c]; }
                        t.loadNeededValues(vals);
                        for(int k=0; k<7; k++){
                            std::vector<double> xi(xp.begin() + (size_t) k * d, xp.begin() + (size_t) (k + 1) * d), y;
                            t.evaluate(xi, y);
                            for(int o=0; o<outs; o++){ int c = (pick + o) % (d + 1); double exact = (c == d) ? 3.0 : xi[(size_t) c];
                                if (std::fabs(y[(size_t) o] - exact) > 1.0e-8 * (1.0 + std::fabs(exact)) * (double) (tn + 1)) eok = false; }
                        }
                    }
                    add("i_evaluate", jbool(eok));
                }
            }
        }
        // weights sum to the measure of the (transformed) domain, integrate() equals weights times values
        if (g.isGlobal() || g.isSequence() || g.isFourier()){
            double ws = 0.0, wsc = 0.0; for(auto v : qw){ ws += v; wsc += std::fabs(v); }
            double measure = scale; if (kind != 4) for(int j=0; j<d; j++) measure *= moment1d(kind, al, be, 0);
            add("q_wsum", jbool(std::fabs(ws - measure) <= 1.0e-9 * (wsc + std::fabs(measure))));
        }
    }catch(std::exception &e){ add("exception", jbool(false)); }
    return s + "}";
}

// ---------------------------------------------------------------- gradient observer (C05)
// probe points that keep away from every node coordinate of the grid (kinks of local bases) and from the boundary
static std::vector<double> smooth_probes(TasmanianSparseGrid const &g, int n, unsigned seed){
    int d = g.getNumDimensions(), np = g.getNumPoints();
    auto pts = g.getPoints();
    std::mt19937 gen(seed);
    std::vector<double> x;
    TypeOneDRule r = g.getRule();
    bool unbounded = (r == rule_gausslaguerre || r == rule_gausslaguerreodd || r == rule_gausshermite || r == rule_gausshermiteodd);
    for(int k=0; k<n; k++){
        for(int j=0; j<d; j++){
            std::vector<double> c;
            for(int i=0; i<np; i++) c.push_back(pts[(size_t) i * d + j]);
            if (!unbounded){ // domain end points are kink candidates as well
                std::vector<double> a, b; double lo = g.isFourier() ? 0.0 : -1.0, hi = 1.0;
                if (g.isSetDomainTransfrom()){ g.getDomainTransform(a, b); lo = a[(size_t) j]; hi = b[(size_t) j]; }
                c.push_back(lo); c.push_back(hi);
            }
            std::sort(c.begin(), c.end()); c.erase(std::unique(c.begin(), c.end(), [](double u, double v){ return std::fabs(u - v) < 1.0e-12; }), c.end());
            if (c.size() < 2){ x.push_back(c.empty() ? 0.3 : c[0] + 0.37); continue; }
            // pick one of the widest few cells and a point well inside it
            std::vector<std::pair<double, size_t>> cells;
            for(size_t i=0; i+1<c.size(); i++) cells.push_back({c[i + 1] - c[i], i});
            std::sort(cells.rbegin(), cells.rend());
            size_t pick = cells[gen() % std::min<size_t>(cells.size(), 4)].second;
            // never a dyadic fraction of the cell: cubic wavelets are tabulated functions interpolated piece-wise, their table knots
            // (dyadic points finer than the nodes) are kinks of the implemented surrogate, where it is not differentiable
            double t = 0.3 + 0.4 * (((double) (gen() % 1000) + 0.372) / 1000.0);
            x.push_back(c[pick] + t * (c[pick + 1] - c[pick]));
        }
    }
    return x;
}

static std::string obs_grad(TasmanianSparseGrid const &g, unsigned seed){
    // C05: differentiate() is the gradient of evaluate(): exact on the reproduced space (monomials / modes / affine functions),
    // matches 4th order central differences of evaluate() for smooth loaded data, in the transformed coordinates (chain rule)
    int d = g.getNumDimensions(), np = g.getNumPoints(), outs = g.getNumOutputs();
    if (np == 0 || outs == 0 || g.isSetConformalTransformASIN()) return "\"grad\":{}";
    int kind = 0; bool known = rule_family(g.getRule(), kind);
    std::vector<double> ta, tb; if (g.isSetDomainTransfrom()) g.getDomainTransform(ta, tb);
    std::string s = "\"grad\":{", note = "";
    bool first = true;
    auto add = [&](const char *name, std::string v){ if (!first) s += ","; first = false; s += std::string("\"") + name + "\":" + v; };
    try{
        TasmanianSparseGrid t; t.copyGrid(g);
        if (t.isUsingConstruction()) t.finishConstruction();
        if (t.getNumNeeded() > 0 && t.getNumLoaded() > 0) t.clearRefinement();
        auto tp = t.getPoints(); int tn = t.getNumPoints();
        if (tn == 0) return "\"grad\":{}";
        auto xs = smooth_probes(t, 6, seed);
        // width of the domain per dimension (for step sizes)
        std::vector<double> width((size_t) d, 2.0);
        for(int j=0; j<d; j++){ double lo = tp[(size_t) j], hi = tp[(size_t) j]; for(int i=0; i<tn; i++){ lo = std::min(lo, tp[(size_t) i * d + j]); hi = std::max(hi, tp[(size_t) i * d + j]); } width[(size_t) j] = std::max(hi - lo, 0.5); }
        // (i) exact gradient of a reproduced function
        if ((t.isGlobal() || t.isSequence()) && known){
            auto is = t.getGlobalPolynomialSpace(true); size_t nm = is.size() / (size_t) d;
            bool ok = true;
            for(size_t pick=0; pick<3; pick++){
                std::vector<size_t> ms((size_t) outs); for(int o=0; o<outs; o++) ms[(size_t) o] = (nm - 1 - ((pick * (size_t) outs + (size_t) o) * 5) % nm);
                std::vector<double> vals((size_t) tn * outs);
                for(int i=0; i<tn; i++) for(int o=0; o<outs; o++){ double v = 1.0; for(int j=0; j<d; j++) v *= std::pow(to_canonical(g, kind, ta, tb, j, tp[(size_t) i * d + j]), is[ms[(size_t) o] * d + j]); vals[(size_t) i * outs + o] = v; }
                t.loadNeededValues(vals);
                for(int k=0; k<6; k++){
                    std::vector<double> xi(xs.begin() + (size_t) k * d, xs.begin() + (size_t) (k + 1) * d), jac;
                    t.differentiate(xi, jac);
                    for(int o=0; o<outs; o++) for(int j=0; j<d; j++){
                        // d/dx_j of prod_i c_i(x_i)^{m_i} with c the canonical coordinate: chain rule factor dc/dx
                        double dc = (to_canonical(g, kind, ta, tb, j, xi[(size_t) j] + 1.0) - to_canonical(g, kind, ta, tb, j, xi[(size_t) j]));
                        double ex = dc, mag = 1.0;
                        for(int i=0; i<d; i++){
                            double c = to_canonical(g, kind, ta, tb, i, xi[(size_t) i]); int m = is[ms[(size_t) o] * d + i];
                            ex *= (i == j) ? ((m == 0) ? 0.0 : m * std::pow(c, m - 1)) : std::pow(c, m);
                            mag *= std::max(1.0, std::pow(std::fabs(c), m));
                        }
                        if (std::fabs(jac[(size_t) o * d + j] - ex) > 1.0e-7 * (std::fabs(ex) + mag * std::fabs(dc) * 10.0)) ok = false;
                    }
                }
            }
            add("exact_monomials", jbool(ok));
        }else if (t.isLocalPolynomial() || t.isWavelet()){
            bool applies = t.isWavelet() || (t.getOrder() != 0 && t.getRule() != rule_localp0);
            const int *idx = t.verifLoadedIndexes() ? t.verifLoadedIndexes() : t.verifNeededIndexes();
            if (applies && t.isLocalPolynomial()) for(int j=0; j<d; j++){ std::set<int> have; for(int i=0; i<tn; i++) have.insert(idx[(size_t) i * d + j]); if (!(have.count(0) && have.count(1) && have.count(2))) applies = false; }
            if (applies){
                std::vector<double> vals((size_t) tn * outs);
                for(int i=0; i<tn; i++) for(int o=0; o<outs; o++){ double v = 0.5 * (o + 1); for(int j=0; j<d; j++) v += (1.0 + 0.25 * j + 0.5 * o) * tp[(size_t) i * d + j]; vals[(size_t) i * outs + o] = v; }
                t.loadNeededValues(vals);
                bool ok = true;
                for(int k=0; k<6; k++){
                    std::vector<double> xi(xs.begin() + (size_t) k * d, xs.begin() + (size_t) (k + 1) * d), jac;
                    t.differentiate(xi, jac);
                    for(int o=0; o<outs; o++) for(int j=0; j<d; j++) if (std::fabs(jac[(size_t) o * d + j] - (1.0 + 0.25 * j + 0.5 * o)) > 1.0e-8 * 10.0){ ok = false;
                        if (getenv("VERIF_DEBUG")) fprintf(stderr, "exact_affine: x=(%g,%g,%g) o=%d j=%d jac=%.15g expected=%.15g\n", xi[0], d > 1 ? xi[1] : 0.0, d > 2 ? xi[2] : 0.0, o, j, jac[(size_t) o * d + j], 1.0 + 0.25 * j + 0.5 * o); }
                }
                add("exact_affine", jbool(ok));
            }
        }
        // (ii) finite differences of evaluate() for smooth data (piece-wise constant grids are not differentiable across
        //      cell boundaries, which do not coincide with node coordinates: their documented derivative is zero)
        if (t.isLocalPolynomial() && t.getOrder() == 0){
            std::vector<double> vals((size_t) tn * outs); for(size_t i=0; i<vals.size(); i++) vals[i] = 1.0 + (double) (i % 7);
            t.loadNeededValues(vals);
            bool ok = true;
            for(int k=0; k<6; k++){ std::vector<double> xi(xs.begin() + (size_t) k * d, xs.begin() + (size_t) (k + 1) * d), jac; t.differentiate(xi, jac); for(auto v : jac) if (v != 0.0) ok = false; }
            add("pwc_zero", jbool(ok));
        }else{
            std::vector<double> vals((size_t) tn * outs);
            for(int i=0; i<tn; i++) for(int o=0; o<outs; o++){ double v = 0.0; for(int j=0; j<d; j++) v += std::sin((1.1 + 0.3 * o) * tp[(size_t) i * d + j] / width[(size_t) j] * 2.0 + 0.4 * j); vals[(size_t) i * outs + o] = v; }
            t.loadNeededValues(vals);
            bool ok = true; double worst = 0.0;
            auto nodes = t.getPoints();
            for(int k=0; k<6; k++){
                std::vector<double> xi(xs.begin() + (size_t) k * d, xs.begin() + (size_t) (k + 1) * d), jac;
                t.differentiate(xi, jac);
                for(int j=0; j<d; j++){
                    // the step keeps all four evaluation points inside the cell between the neighbouring node coordinates
                    double gap = 1.0e9; for(int i=0; i<tn; i++){ double dd = std::fabs(nodes[(size_t) i * d + j] - xi[(size_t) j]); if (dd > 0) gap = std::min(gap, dd); }
                    double h = std::min(1.0e-3 * width[(size_t) j], gap / 4.0);
                    std::vector<double> y1, y2, y3, y4, xa = xi;
                    xa[(size_t) j] = xi[(size_t) j] + h; t.evaluate(xa, y1); xa[(size_t) j] = xi[(size_t) j] - h; t.evaluate(xa, y2);
                    xa[(size_t) j] = xi[(size_t) j] + 2 * h; t.evaluate(xa, y3); xa[(size_t) j] = xi[(size_t) j] - 2 * h; t.evaluate(xa, y4);
                    for(int o=0; o<outs; o++){
                        double fd = (8.0 * (y1[(size_t) o] - y2[(size_t) o]) - (y3[(size_t) o] - y4[(size_t) o])) / (12.0 * h);
                        double scale = 1.0 / width[(size_t) j] + std::fabs(fd);
                        double err = std::fabs(fd - jac[(size_t) o * d + j]) / scale;
                        worst = std::max(worst, err);
                        if (err > ((t.isLocalPolynomial() || t.isWavelet()) ? 1.0e-3 : 1.0e-5)) ok = false;   // piece-wise bases: the stencil may straddle an interior breakpoint of a wavelet
                    }
                }
            }
            add("finite_difference", jbool(ok));
            char b[64]; snprintf(b, 64, "%.2e", worst); note = b;
        }
    }catch(std::exception &e){ add("exception", jbool(false)); }
    return s + "},\"grad_fd_worst\":\"" + note + "\"";
}

// ---------------------------------------------------------------- transform twin observer (C10)
static std::string obs_twin(TasmanianSparseGrid const &g, unsigned seed){
    // C10: a grid with a linear domain transform behaves as the canonical grid composed with the documented map of its rule family
    int d = g.getNumDimensions(), np = g.getNumPoints(), outs = g.getNumOutputs();
    if (np == 0 || !g.isSetDomainTransfrom() || g.isSetConformalTransformASIN()) return "\"twin\":{}";
    int kind = 0; if (!rule_family(g.getRule(), kind)) kind = 0;
    std::vector<double> ta, tb; g.getDomainTransform(ta, tb);
    std::string s = "\"twin\":{";
    bool first = true;
    auto add = [&](const char *name, std::string v){ if (!first) s += ","; first = false; s += std::string("\"") + name + "\":" + v; };
    try{
        TasmanianSparseGrid c; c.copyGrid(g); c.clearDomainTransform();
        auto pt = g.getPoints(), pc = c.getPoints();
        bool pm = (pt.size() == pc.size());
        for(size_t i=0; pm && i<pt.size(); i++) pm = close(to_canonical(g, kind, ta, tb, (int) (i % (size_t) d), pt[i]), pc[i], 1.0e-12);
        add("points_mapped", jbool(pm));
        // quadrature weights and basis integrals scale by the documented factor
        double scale = documented_scale(g, kind, ta, tb);
        auto wt = g.getQuadratureWeights(), wc = c.getQuadratureWeights();
        bool ws = (wt.size() == wc.size()); for(size_t i=0; ws && i<wt.size(); i++) ws = std::fabs(wt[i] - scale * wc[i]) <= 1.0e-11 * (std::fabs(wt[i]) + std::fabs(scale * wc[i])) + 1.0e-14 * scale;
        add("weights_scale", jbool(ws));
        if (!g.isGlobal()){
            std::vector<double> it((size_t) np), ic((size_t) np); g.integrateHierarchicalFunctions(it.data()); c.integrateHierarchicalFunctions(ic.data());
            bool is = true; for(int i=0; i<np; i++) is = is && std::fabs(it[(size_t) i] - scale * ic[(size_t) i]) <= 1.0e-11 * (std::fabs(it[(size_t) i]) + std::fabs(scale * ic[(size_t) i])) + 1.0e-14 * scale;
            add("basis_integrals_scale", jbool(is));
        }
        if (!g.isGlobal() && !g.isFourier()){
            // supports scale by the Jacobian of the map
            auto st = g.getHierarchicalSupport(), sc = c.getHierarchicalSupport();
            bool ss = (st.size() == sc.size());
            for(size_t i=0; ss && i<st.size(); i++){ size_t j = i % (size_t) d; double jacobian = 0.5 * (tb[j] - ta[j]); ss = close(st[i], jacobian * sc[i], 1.0e-12); }
            add("support_scale", jbool(ss));
        }
        // evaluate: pull back; differentiate: chain rule
        if (outs > 0 && g.getNumLoaded() > 0){
            auto xs = smooth_probes(g, 5, seed);
            bool ev = true, df = true;
            for(int k=0; k<5; k++){
                std::vector<double> xi(xs.begin() + (size_t) k * d, xs.begin() + (size_t) (k + 1) * d), xc((size_t) d), yt, yc, jt, jc;
                for(int j=0; j<d; j++) xc[(size_t) j] = to_canonical(g, kind, ta, tb, j, xi[(size_t) j]);
                g.evaluate(xi, yt); c.evaluate(xc, yc);
                for(int o=0; o<outs; o++) ev = ev && close(yt[(size_t) o], yc[(size_t) o], 1.0e-11);
                g.differentiate(xi, jt); c.differentiate(xc, jc);
                for(int o=0; o<outs; o++) for(int j=0; j<d; j++){
                    double dc = to_canonical(g, kind, ta, tb, j, xi[(size_t) j] + 1.0) - to_canonical(g, kind, ta, tb, j, xi[(size_t) j]);
                    df = df && std::fabs(jt[(size_t) o * d + j] - dc * jc[(size_t) o * d + j]) <= 1.0e-9 * (std::fabs(jt[(size_t) o * d + j]) + std::fabs(dc * jc[(size_t) o * d + j])) + 1.0e-12 * vsum_scale_of(g);
                }
            }
            add("evaluate_pullback", jbool(ev)); add("differentiate_chain_rule", jbool(df));
        }
        // domain predicate: accepts the points of the transformed domain, rejects points beyond its bounds
        auto inside = g.getDomainInside();
        bool in_ok = true, out_ok = true;
        for(int i=0; i<np; i++){ std::vector<double> p(pt.begin() + (size_t) i * d, pt.begin() + (size_t) (i + 1) * d); bool interior = true;
            for(int j=0; j<d; j++) if (kind != 2 && kind != 3 && (std::fabs(p[(size_t) j] - ta[(size_t) j]) < 1.0e-12 || std::fabs(p[(size_t) j] - tb[(size_t) j]) < 1.0e-12)) interior = false; // rounding at the boundary itself is excused
            if (interior && !inside(p)) in_ok = false; }
        if (kind != 3){
            for(int j=0; j<d; j++){
                std::vector<double> p(pt.begin(), pt.begin() + d);
                double w = (kind == 2) ? 1.0 : (tb[(size_t) j] - ta[(size_t) j]);
                p[(size_t) j] = ta[(size_t) j] - 0.01 * w; if (inside(p)) out_ok = false;
                if (kind != 2){ p[(size_t) j] = tb[(size_t) j] + 0.01 * w; if (inside(p)) out_ok = false; }
            }
        }
        add("inside_accepts", jbool(in_ok)); add("inside_rejects", jbool(out_ok));
    }catch(std::exception &e){ add("exception", jbool(false)); }
    return s + "}";
}

// ---------------------------------------------------------------- numeric digest (C13, C16): compared between builds / front ends
static std::string obs_num(TasmanianSparseGrid const &g, unsigned seed){
    int np = g.getNumPoints(), outs = g.getNumOutputs(), nl = g.getNumLoaded();
    if (np == 0) return "\"num\":[]";
    std::string s = "\"num\":[";
    bool first = true;
    auto put = [&](double v){ char b[48]; snprintf(b, 48, "\"%.17g\"", v); if (!first) s += ","; first = false; s += b; };
    try{
        auto qw = g.getQuadratureWeights(); for(size_t i=0; i<qw.size() && i<60; i++) put(qw[i]);
        if (outs > 0 && nl > 0){
            const double *c = g.getHierarchicalCoefficients(); size_t nc = (size_t) nl * (size_t) outs * (g.isFourier() ? 2 : 1);
            for(size_t i=0; i<nc && i<80; i++) put(c[i]);
            auto x = probe_points(g, 9, seed); std::vector<double> y; g.evaluateBatch(x, y); for(auto v : y) put(v);
            std::vector<double> q; g.integrate(q); for(auto v : q) put(v);
        }
    }catch(std::exception &){ }
    return s + "]";
}

static std::string slurp(std::string const &f){ std::ifstream i(f, std::ios::binary); std::stringstream ss; ss << i.rdbuf(); return ss.str(); }

static std::string obs_roundtrip(TasmanianSparseGrid const &g, unsigned seed){
    // C06: write/read restores the observable state (projection, evaluations), rewriting reproduces the bytes, formats agree
    std::string s = "\"rt\":{";
    bool first = true;
    auto add = [&](const char *name, bool ok){ if (!first) s += ","; first = false; s += std::string("\"") + name + "\":" + jbool(ok); };
    try{
        std::string p0 = project(g);
        std::vector<double> x = (g.getNumPoints() > 0) ? probe_points(g, 9, seed) : std::vector<double>();
        std::vector<double> y0; if (g.getNumLoaded() > 0 && g.getNumOutputs() > 0) g.evaluateBatch(x, y0);
        std::string bytes[2];
        for(int bin=0; bin<2; bin++){
            std::stringstream ss; g.write(ss, bin == 1); bytes[bin] = ss.str();
            TasmanianSparseGrid r; std::stringstream in(bytes[bin]); r.read(in, bin == 1);
            bool proj = (project(r) == p0);
            std::stringstream s2; r.write(s2, bin == 1);
            bool same = (s2.str() == bytes[bin]);
            std::stringstream s3; r.write(s3, bin == 0); // cross format after restoring
            std::stringstream s4; g.write(s4, bin == 0);
            bool cross = (s3.str() == s4.str());
            bool evalok = true;
            if (!y0.empty()){ std::vector<double> y1; r.evaluateBatch(x, y1); for(size_t i=0; i<y0.size(); i++) evalok = evalok && (y0[i] == y1[i] || close(y0[i], y1[i], 1.0e-13)); }
            // needed points order, quadrature weights (weights of optimised sequence rules depend at the 1e-12 level on how many nodes the rule has cached)
            bool wok = true;
            if (g.getNumPoints() > 0){ auto w0 = g.getQuadratureWeights(), w1 = r.getQuadratureWeights(); wok = (w0.size() == w1.size());
                for(size_t i=0; wok && i<w0.size(); i++){ wok = close(w0[i], w1[i], 1.0e-10); if (!wok && getenv("VERIF_DEBUG")) fprintf(stderr, "qw differ: %zu %.17g %.17g\n", i, w0[i], w1[i]); } }
            add(bin ? "bin_proj" : "asc_proj", proj); add(bin ? "bin_bytes" : "asc_bytes", same); add(bin ? "bin_cross" : "asc_cross", cross);
            add(bin ? "bin_eval" : "asc_eval", evalok); add(bin ? "bin_qw" : "asc_qw", wok);
            // file entry points
            std::string fn = tmpdir + "/rt_" + std::to_string(getpid()) + (bin ? ".bin" : ".asc");
            g.write(fn.c_str(), bin == 1);
            bool fsame = (slurp(fn) == bytes[bin]);
            TasmanianSparseGrid rf; rf.read(fn.c_str());
            add(bin ? "bin_file" : "asc_file", fsame && project(rf) == p0);
            unlink(fn.c_str());
        }
    }catch(std::exception &e){ add("exception", false); }
    return s + "}";
}

// normalised hierarchical coefficient ratios per loaded point (observer for surplus refinement), scaled by 1e8
static bool ratios_degenerate = false;
static std::vector<long long> ratios(TasmanianSparseGrid const &g, int output, std::vector<double> const &scale){
    ratios_degenerate = false;
    int nl = g.getNumLoaded(), outs = g.getNumOutputs();
    std::vector<long long> r((size_t) nl, 0);
    if (nl == 0 || outs == 0) return r;
    const double *v = g.getLoadedValues(); const double *c = g.getHierarchicalCoefficients();
    std::vector<double> norm((size_t) outs, 0.0);
    for(int i=0; i<nl; i++) for(int k=0; k<outs; k++) norm[(size_t) k] = std::max(norm[(size_t) k], std::fabs(v[(size_t) i * outs + k]));
    int act = (output == -1) ? outs : 1;
    for(int k=0; k<outs; k++) if ((output == -1 || k == output) && norm[(size_t) k] == 0.0) ratios_degenerate = true; // all values zero: 0/0
    for(int i=0; i<nl; i++){
        double m = 0.0;
        for(int k=0; k<outs; k++){
            if (output != -1 && k != output) continue;
            double sc = scale.empty() ? 1.0 : scale[(size_t) i * act + ((output == -1) ? k : 0)];
            double q = sc * std::fabs(c[(size_t) i * outs + k]) / norm[(size_t) k];
            m = std::max(m, q);
        }
        r[(size_t) i] = (long long) std::llround(std::min(m, 20.0) * 1.0e8);   // quantised to 1e-8, capped below 2^31
    }
    return r;
}

// tolerance between the rank-th and (rank+1)-th largest distinct quantised ratio; the two must differ by at least two quanta so that
// the comparison "ratio > tolerance" gives the same answer on the doubles and on the quantised integers the specification sees
static double pick_tolerance(std::vector<long long> const &sorted, int rank){
    if (rank < 0) return 0.0;
    if (sorted.empty() || rank == 0) return 21.0;
    if ((size_t) rank >= sorted.size()) return (sorted.back() >= 2) ? ((double) sorted.back()) * 0.5e-8 + 1.0e-13 : 21.0;
    for(size_t r = (size_t) rank; r < sorted.size(); r++) if (sorted[r - 1] - sorted[r] >= 2) return 0.5e-8 * ((double) sorted[r - 1] + (double) sorted[r]);
    for(size_t r = (size_t) rank; r-- > 1; ) if (sorted[r - 1] - sorted[r] >= 2) return 0.5e-8 * ((double) sorted[r - 1] + (double) sorted[r]);
    return 21.0;
}

// ---------------------------------------------------------------- watchdog
// Runs the action first in a forked child: if the child does not finish in time the action is reported
// as "timeout" and NOT executed in the parent (C08: refinement must terminate).  The library is deterministic,
// so an action that finished in the child finishes in the parent as well.
static bool finishes_in_time(std::function<void()> action, int seconds){
    if (getenv("VERIF_NO_FORK") != nullptr) return true;   // OpenMP runtimes do not survive fork(): the outer time limit is the watchdog there
    fflush(out);
    int fd[2]; if (pipe(fd) != 0) return true;
    pid_t pid = fork();
    if (pid < 0){ close(fd[0]); close(fd[1]); return true; }
    if (pid == 0){
        close(fd[0]);
        try{ action(); }catch(...){ }
        char c = 1; if (write(fd[1], &c, 1) != 1){ }
        _exit(0);
    }
    close(fd[1]);
    struct pollfd pf; pf.fd = fd[0]; pf.events = POLLIN;
    int rc = poll(&pf, 1, seconds * 1000);
    bool ok = (rc > 0);
    if (!ok) kill(pid, SIGKILL);
    int status; waitpid(pid, &status, 0);
    close(fd[0]);
    return ok;
}

// ---------------------------------------------------------------- script parsing helpers
static std::vector<int> rdivec(std::istringstream &in){ int n; in >> n; std::vector<int> v((size_t) std::max(n, 0)); for(auto &e : v) in >> e; return v; }
static std::vector<double> rddvec(std::istringstream &in){ int n; in >> n; std::vector<double> v((size_t) std::max(n, 0)); for(auto &e : v) in >> e; return v; }

static std::vector<double> tokens_for(TasmanianSparseGrid const &g, const int *idx, int n, int epoch){
    int d = g.getNumDimensions(), outs = g.getNumOutputs();
    std::vector<double> v((size_t) n * outs);
    for(int i=0; i<n; i++) for(int k=0; k<outs; k++) v[(size_t) i * outs + k] = tok(idx + (size_t) i * d, d, k + cur_obase, epoch);
    return v;
}

#ifndef GRID_REPLAY_NO_MAIN
int main(int argc, char **argv){
    if (argc < 3){ fprintf(stderr, "usage: grid_replay script.txt trace.ndjson [obs_mask] [tmpdir]\n"); return 2; }
    std::ifstream in(argv[1]);
    out = fopen(argv[2], "w");
    if (argc > 3) obs_mask = atoi(argv[3]);
    if (argc > 4) tmpdir = argv[4];
    std::string line;
    int scen = 0, step = 0, scen_key = 0;
    std::deque<std::string> pending;             // lines generated by macro commands (loadpool)
    bool skip_rest = false;
    int max_points = (getenv("VERIF_MAX_POINTS") != nullptr) ? atoi(getenv("VERIF_MAX_POINTS")) : 160;
    std::vector<int> last_cand[3];               // last candidate list per slot (multi-indexes, flattened)
    while(true){
        if (!pending.empty()){ line = pending.front(); pending.pop_front(); }
        else if (!std::getline(in, line)) break;
        if (line.empty() || line[0] == '#') continue;
        std::istringstream ls(line);
        std::string cmd; ls >> cmd;
        if (cmd == "SCEN"){
            if (scen > 0) fprintf(out, "{\"e\":\"End\"}\n");
            std::string label; ls >> label; scen++; step = 0; skip_rest = false; pending.clear();
            // probe points are seeded by the label, not by the position in the file: a scenario gives the same observations whether it
            // runs in a full file, alone, or after a restart of the driver (serial and OpenMP runs are compared event by event)
            { unsigned h = 2166136261u; for(char ch : label){ h ^= (unsigned char) ch; h *= 16777619u; } scen_key = (int) (h % 100003u); }
            tok_salt = 0; ls >> tok_salt; if (tok_salt < 0 || tok_salt > 95) tok_salt = 0;
            for(auto &s : slots){ s.g = TasmanianSparseGrid(); s.obase = 0; s.delivered.clear(); }
            fprintf(out, "{\"e\":\"Reset\",\"scen\":%s,\"salt\":%d}\n", jstr(label).c_str(), tok_salt);
            continue;
        }
        if (cmd == "OBS"){ ls >> obs_mask; continue; }
        if (skip_rest) continue;      // the grid outgrew the size the judge handles comfortably: the scenario ends here
        int o = 1;
        if (cmd == "@2"){ o = 2; ls >> cmd; } else if (cmd == "@1"){ o = 1; ls >> cmd; }
        TasmanianSparseGrid &g = slots[o].g;
        cur_obase = slots[o].obase;
        if (cmd == "loadpool"){
            // macro: deliver `count` (0 = all) of the last candidates in a seeded random order, in batches of 1..maxbatch points
            int epoch, count, maxbatch; unsigned seed; ls >> epoch >> count >> seed >> maxbatch;
            int d = std::max(g.getNumDimensions(), 1);
            std::vector<std::vector<int>> pts;
            for(size_t i=0; i + (size_t) d <= last_cand[o].size(); i += (size_t) d){
                std::vector<int> p(last_cand[o].begin() + (long) i, last_cand[o].begin() + (long) i + d);
                if (std::find(p.begin(), p.end(), -1) == p.end()) pts.push_back(p);
            }
            std::mt19937 gen(seed);
            std::shuffle(pts.begin(), pts.end(), gen);
            if (count > 0 && (size_t) count < pts.size()) pts.resize((size_t) count);
            std::vector<std::string> gen_lines;
            size_t i = 0;
            while(i < pts.size()){
                size_t b = 1 + (size_t) (gen() % (unsigned) std::max(maxbatch, 1));
                b = std::min(b, pts.size() - i);
                std::string l2 = std::string(o == 2 ? "@2 " : "") + "loadc " + std::to_string(epoch) + " " + std::to_string(b);
                for(size_t k=0; k<b; k++) for(int v : pts[i + k]) l2 += " " + std::to_string(v);
                gen_lines.push_back(l2);
                i += b;
            }
            for(auto it = gen_lines.rbegin(); it != gen_lines.rend(); ++it) pending.push_front(*it);
            continue;
        }
        if (cmd == "loadtarget"){
            // macro: deliver every point of a fixed target grid (same family / rule / order, level-type depth `depth`) that is not loaded yet,
            // in a seeded random order and in batches of 1..maxbatch points -- whether or not the library proposed those points
            int epoch, depth, maxbatch; unsigned seed; ls >> epoch >> depth >> seed >> maxbatch;
            int count = 0, candevery = 0; ls >> count >> candevery;     // optional: deliver only `count` points (0 = all); a candidate request after every `candevery` deliveries
            std::vector<std::string> gen_lines;
            if (!g.empty() && g.getNumOutputs() > 0 && g.isUsingConstruction()){
                int d = g.getNumDimensions();
                TasmanianSparseGrid t;
                try{
                    if (g.isGlobal()) t.makeGlobalGrid(d, 1, depth, type_level, g.getRule(), std::vector<int>(), g.getAlpha(), g.getBeta());
                    else if (g.isSequence()) t.makeSequenceGrid(d, 1, depth, type_level, g.getRule());
                    else if (g.isFourier()) t.makeFourierGrid(d, 1, depth, type_level);
                    else if (g.isLocalPolynomial()) t.makeLocalPolynomialGrid(d, 1, depth, g.getOrder(), g.getRule());
                    else if (g.isWavelet()) t.makeWaveletGrid(d, 1, depth, g.getOrder());
                }catch(std::exception &){ }
                std::set<std::vector<int>> have = slots[o].delivered;
                const int *li = g.verifLoadedIndexes(); int nl0 = g.getNumLoaded();
                for(int i=0; li != nullptr && i<nl0; i++) have.insert(std::vector<int>(li + (size_t) i * d, li + (size_t) (i + 1) * d));
                std::vector<std::vector<int>> pts;
                const int *ti = t.empty() ? nullptr : t.verifNeededIndexes();
                for(int i=0; ti != nullptr && i<t.getNumNeeded(); i++){
                    std::vector<int> p(ti + (size_t) i * d, ti + (size_t) (i + 1) * d);
                    if (!have.count(p)) pts.push_back(p);
                }
                std::mt19937 gen(seed);
                std::shuffle(pts.begin(), pts.end(), gen);
                if (count > 0 && (size_t) count < pts.size()) pts.resize((size_t) count);
                size_t i = 0; int ncalls = 0;
                while(i < pts.size()){
                    size_t b = 1 + (size_t) (gen() % (unsigned) std::max(maxbatch, 1));
                    b = std::min(b, pts.size() - i);
                    std::string l2 = std::string(o == 2 ? "@2 " : "") + "loadc " + std::to_string(epoch) + " " + std::to_string(b);
                    for(size_t k=0; k<b; k++) for(int v : pts[i + k]) l2 += " " + std::to_string(v);
                    gen_lines.push_back(l2);
                    i += b; ncalls++;
                    if (candevery > 0 && ncalls % candevery == 0 && i < pts.size())
                        gen_lines.push_back(std::string(o == 2 ? "@2 " : "") + ((g.isLocalPolynomial() || g.isWavelet()) ? "candl -1 -1 classic 0" : "cand level 0 0 0"));
                }
            }
            for(auto it = gen_lines.rbegin(); it != gen_lines.rend(); ++it) pending.push_front(*it);
            continue;
        }
        step++;
        std::string args = "{", extra = "";
        std::string res = "ok", what;
        auto A = [&](const char *k, std::string v){ if (args.size() > 1) args += ","; args += std::string("\"") + k + "\":" + v; };
        try{
            if (cmd == "make"){
                std::string fam; ls >> fam; A("fam", jstr(fam));
                int d, outs, depth; ls >> d >> outs >> depth; A("dims", jint(d)); A("outs", jint(outs)); A("depth", jint(depth));
                if (fam == "global" || fam == "sequence" || fam == "fourier"){
                    std::string type, rule = "fourier"; ls >> type; if (fam != "fourier") ls >> rule;
                    auto aw = rdivec(ls); auto ll = rdivec(ls);
                    double alpha = 0, beta = 0; if (fam == "global") ls >> alpha >> beta;
                    A("type", jstr(type)); A("rule", jstr(rule)); A("aw", jivec(aw)); A("ll", jivec(ll)); A("alpha", jnum(alpha)); A("beta", jnum(beta));
                    if (fam == "global" && rule == "custom-tabulated"){
                        // a custom rule file holding the Gauss-Legendre tables (level l: l+1 nodes, exactness 2l+1): Rules1D.tla treats it as that rule
                        std::string fn = tmpdir + "/custom_" + std::to_string(getpid()) + ".tbl";
                        {   std::ofstream cf(fn); cf.precision(17); const int nl = 8;
                            cf << "description: Gauss-Legendre tables written by the verification driver\nlevels: " << nl << "\n";
                            for(int l=0; l<nl; l++) cf << (l + 1) << " " << (2 * l + 1) << "\n";
                            for(int l=0; l<nl; l++){
                                TasmanianSparseGrid q; q.makeGlobalGrid(1, 0, l, type_level, rule_gausslegendre);
                                auto w = q.getQuadratureWeights(); auto x = q.getPoints();
                                for(size_t i=0; i<w.size(); i++) cf << std::scientific << w[i] << " " << x[i] << " ";
                                cf << "\n";
                            } }
                        try{ g.makeGlobalGrid(d, outs, depth, IO::getDepthTypeString(type), rule_customtabulated, aw, alpha, beta, fn.c_str(), ll); }catch(...){ unlink(fn.c_str()); throw; }
                        unlink(fn.c_str());
                    }else
                    if (fam == "global") g.makeGlobalGrid(d, outs, depth, IO::getDepthTypeString(type), IO::getRuleString(rule), aw, alpha, beta, nullptr, ll);
                    else if (fam == "sequence") g.makeSequenceGrid(d, outs, depth, IO::getDepthTypeString(type), IO::getRuleString(rule), aw, ll);
                    else g.makeFourierGrid(d, outs, depth, IO::getDepthTypeString(type), aw, ll);
                }else{
                    int order; std::string rule = "wavelet"; ls >> order; if (fam == "localp") ls >> rule;
                    auto ll = rdivec(ls);
                    A("order", jint(order)); A("rule", jstr(rule)); A("ll", jivec(ll));
                    if (fam == "localp") g.makeLocalPolynomialGrid(d, outs, depth, order, IO::getRuleString(rule), ll);
                    else g.makeWaveletGrid(d, outs, depth, order, ll);
                }
            }else if (cmd == "transform"){
                auto a = rddvec(ls), b = rddvec(ls); A("a", jsvec(a)); A("b", jsvec(b));
                g.setDomainTransform(a, b);
            }else if (cmd == "cleartransform"){ g.clearDomainTransform();
            }else if (cmd == "conformal"){ auto t = rdivec(ls); A("t", jivec(t)); g.setConformalTransformASIN(t);
            }else if (cmd == "clearconformal"){ g.clearConformalTransform();
            }else if (cmd == "clearlimits"){ g.clearLevelLimits();
            }else if (cmd == "load"){
                int epoch; ls >> epoch; A("epoch", jint(epoch));
                if (!g.empty() && g.getNumPoints() == 0 && g.getNumNeeded() == 0) throw std::string("skipped");   // a grid without any point (construction finished before any delivery): nothing to load, call not made
                int nn = g.getNumNeeded();
                const int *idx = (nn > 0) ? g.verifNeededIndexes() : g.verifLoadedIndexes();
                int n = (nn > 0) ? nn : g.getNumPoints();
                auto v = tokens_for(g, idx, n, epoch);
                if (g.empty()) g.loadNeededValues(v.data());    // the overload that announces runtime_error for an empty grid
                else g.loadNeededValues(v);
            }else if (cmd == "loadwrong"){ // vector of the wrong size
                int delta; ls >> delta; A("delta", jint(delta));
                int n = (g.getNumNeeded() > 0) ? g.getNumNeeded() : g.getNumPoints();
                std::vector<double> v((size_t) std::max(0, n * g.getNumOutputs() + delta), 1.0);
                g.loadNeededValues(v);
            }else if (cmd == "update"){
                int depth; std::string type; ls >> depth >> type; auto aw = rdivec(ls); auto ll = rdivec(ls);
                A("depth", jint(depth)); A("type", jstr(type)); A("aw", jivec(aw)); A("ll", jivec(ll));
                if (!finishes_in_time([&](){ TasmanianSparseGrid t(g); t.updateGrid(depth, IO::getDepthTypeString(type), aw, ll); }, 10)) throw std::string("timeout");
                g.updateGrid(depth, IO::getDepthTypeString(type), aw, ll);
            }else if (cmd == "aniso"){
                std::string type; int mg, output; ls >> type >> mg >> output; auto ll = rdivec(ls);
                A("type", jstr(type)); A("min_growth", jint(mg)); A("output", jint(output)); A("ll", jivec(ll));
                std::vector<int> w;
                try{ w = g.estimateAnisotropicCoefficients(IO::getDepthTypeString(type), output); }catch(std::exception &){ }
                A("est", jivec(w));
                if (!finishes_in_time([&](){ TasmanianSparseGrid t(g); t.setAnisotropicRefinement(IO::getDepthTypeString(type), mg, output, ll); }, 10)) throw std::string("timeout");
                g.setAnisotropicRefinement(IO::getDepthTypeString(type), mg, output, ll);
            }else if (cmd == "surp" || cmd == "surpl"){
                // tolerance chosen by rank: between the rank-th and (rank+1)-th largest ratio (rank 0: above all; -1: tolerance zero)
                int rank, output; std::string crit = "classic"; ls >> rank >> output; if (cmd == "surpl") ls >> crit;
                auto ll = rdivec(ls);
                int smode = 0; if (cmd == "surpl") ls >> smode; // 0 none, 1 vector overload with documented size, 2 raw pointer
                std::vector<double> scale;
                int act = (output == -1) ? g.getNumOutputs() : 1;
                if (smode > 0){ scale.resize((size_t) g.getNumLoaded() * act); for(size_t i=0; i<scale.size(); i++) scale[i] = 0.5 + 0.25 * (double) ((i * 7) % 5); }
                auto r = ((output >= -1) && (output < g.getNumOutputs())) ? ratios(g, output, scale) : std::vector<long long>();
                std::vector<long long> sorted = r; std::sort(sorted.begin(), sorted.end(), std::greater<long long>());
                sorted.erase(std::unique(sorted.begin(), sorted.end()), sorted.end());
                double tol = pick_tolerance(sorted, rank);
                A("output", jint(output)); A("crit", jstr(crit)); A("ll", jivec(ll)); A("smode", jint(smode));
                A("tolq", jint((long long) std::llround(tol * 1.0e8))); A("tolzero", jbool(tol == 0.0)); A("degenerate", jbool(ratios_degenerate));
                std::string rs = "["; for(size_t i=0; i<r.size(); i++){ if (i) rs += ","; rs += std::to_string(r[i]); } rs += "]";
                A("ratios", rs);
                if (!finishes_in_time([&](){ TasmanianSparseGrid t(g);
                        if (cmd == "surp") t.setSurplusRefinement(tol, output, ll);
                        else if (smode == 1) t.setSurplusRefinement(tol, IO::getTypeRefinementString(crit), output, ll, scale);
                        else if (smode == 2) t.setSurplusRefinement(tol, IO::getTypeRefinementString(crit), output, ll.empty() ? nullptr : ll.data(), scale.data());
                        else t.setSurplusRefinement(tol, IO::getTypeRefinementString(crit), output, ll); }, 10)) throw std::string("timeout");
                if (cmd == "surp") g.setSurplusRefinement(tol, output, ll);
                else if (smode == 1) g.setSurplusRefinement(tol, IO::getTypeRefinementString(crit), output, ll, scale);
                else if (smode == 2) g.setSurplusRefinement(tol, IO::getTypeRefinementString(crit), output, ll.empty() ? nullptr : ll.data(), scale.data());
                else g.setSurplusRefinement(tol, IO::getTypeRefinementString(crit), output, ll);
            }else if (cmd == "clear"){ g.clearRefinement();
            }else if (cmd == "merge"){ g.mergeRefinement();
            }else if (cmd == "begin"){ if (!g.isUsingConstruction()) slots[o].delivered.clear(); g.beginConstruction();
            }else if (cmd == "finish"){ g.finishConstruction(); slots[o].delivered.clear();
            }else if (cmd == "cand" || cmd == "candl"){
                std::vector<double> x;
                if (cmd == "cand"){
                    std::string type; int output; ls >> type >> output; auto aw = rdivec(ls); auto ll = rdivec(ls);
                    A("type", jstr(type)); A("output", jint(output)); A("aw", jivec(aw)); A("ll", jivec(ll));
                    if (output == -2) x = g.getCandidateConstructionPoints(IO::getDepthTypeString(type), aw, ll);
                    else x = g.getCandidateConstructionPoints(IO::getDepthTypeString(type), output, ll);
                }else{
                    int rank, output; std::string crit; ls >> rank >> output >> crit; auto ll = rdivec(ls);
                    auto r = ((output >= -1) && (output < g.getNumOutputs())) ? ratios(g, output, std::vector<double>()) : std::vector<long long>();
                    std::vector<long long> sorted = r; std::sort(sorted.begin(), sorted.end(), std::greater<long long>());
                    sorted.erase(std::unique(sorted.begin(), sorted.end()), sorted.end());
                    double tol = pick_tolerance(sorted, rank);
                    A("output", jint(output)); A("crit", jstr(crit)); A("ll", jivec(ll));
                    A("tolq", jint((long long) std::llround(tol * 1.0e8))); A("tolzero", jbool(tol == 0.0)); A("degenerate", jbool(ratios_degenerate));
                    std::string rs = "["; for(size_t i=0; i<r.size(); i++){ if (i) rs += ","; rs += std::to_string(r[i]); } rs += "]";
                    A("ratios", rs);
                    x = g.getCandidateConstructionPoints(tol, IO::getTypeRefinementString(crit), output, ll);
                }
                auto idx = coordsToIndexes(g, x);
                int d = g.getNumDimensions();
                if (std::find(idx.begin(), idx.end(), -1) != idx.end()){ skip_rest = true; continue; }   // beyond the node tables of the driver: the scenario ends before this event
                last_cand[o] = idx;
                extra += ",\"cand\":" + jistrips(idx.data(), (int) (idx.size() / (size_t) std::max(d, 1)), d);
            }else if (cmd == "loadc"){
                // deliver samples for the listed multi-indexes in one call (epoch for token values)
                int epoch, n; ls >> epoch >> n; int d = g.getNumDimensions();
                std::vector<int> idx((size_t) n * d); for(auto &e : idx) ls >> e;
                {   // a sample for a point that is already loaded is outside the contract (duplicate delivery): not delivered
                    std::set<std::vector<int>> have = slots[o].delivered;
                    const int *li = g.verifLoadedIndexes(); int nl0 = (g.getNumOutputs() > 0) ? g.getNumLoaded() : g.getNumPoints();
                    for(int i=0; li != nullptr && i<nl0; i++) have.insert(std::vector<int>(li + (size_t) i * d, li + (size_t) (i + 1) * d));
                    std::vector<int> kept;
                    for(int i=0; i<n; i++){
                        std::vector<int> q(idx.begin() + (size_t) i * d, idx.begin() + (size_t) (i + 1) * d);
                        if (have.count(q) == 0){ kept.insert(kept.end(), q.begin(), q.end()); have.insert(q); }
                    }
                    idx = kept; n = (int) (idx.size() / (size_t) std::max(d, 1));
                }
                A("epoch", jint(epoch)); A("p", jistrips(idx.data(), n, d));
                if (n == 0) throw std::string("skipped");
                auto x = indexesToCoords(g, idx);
                auto y = tokens_for(g, idx.data(), n, epoch);
                for(int i=0; i<n; i++) slots[o].delivered.insert(std::vector<int>(idx.begin() + (size_t) i * d, idx.begin() + (size_t) (i + 1) * d));
                g.loadConstructedPoints(x, y);
            }else if (cmd == "setcoef"){
                // overwrite coefficients with token-like integers (values are inferred by the library; for Global grids the coefficients are the values)
                int epoch; ls >> epoch; A("epoch", jint(epoch));
                // no contract for an empty grid, for zero outputs or during construction: call not made
                if (g.empty() || g.getNumOutputs() == 0 || g.getNumPoints() == 0 || g.isUsingConstruction()) throw std::string("skipped");
                int np = g.getNumPoints(); const int *idx = (g.getNumLoaded() > 0) ? g.verifLoadedIndexes() : g.verifNeededIndexes();
                auto c = tokens_for(g, idx, np, epoch);
                if (g.isFourier()){ auto c2 = c; for(auto &v : c2) v = 0.0; c.insert(c.end(), c2.begin(), c2.end()); }
                g.setHierarchicalCoefficients(c);
                const double *cc = g.getHierarchicalCoefficients();
                bool same = true; for(size_t i=0; i<c.size(); i++) same = same && (cc[i] == c[i]);
                extra += ",\"coef_roundtrip\":" + jbool(same);
            }else if (cmd == "copy"){ // slot o := copy of the other slot, optional output range
                int b, e; ls >> b >> e; A("b", jint(b)); A("e", jint(e));
                TasmanianSparseGrid const &src = slots[3 - o].g;
                g.copyGrid(src, b, e);
                slots[o].obase = slots[3 - o].obase + std::max(b, 0); slots[o].delivered = slots[3 - o].delivered;
            }else if (cmd == "copyctor"){ TasmanianSparseGrid t(slots[3 - o].g); g = std::move(t); slots[o].obase = slots[3 - o].obase; slots[o].delivered = slots[3 - o].delivered;
            }else if (cmd == "assign"){ g = slots[3 - o].g; slots[o].obase = slots[3 - o].obase; slots[o].delivered = slots[3 - o].delivered;
            }else if (cmd == "rtswap"){ // continue on the object restored from a file image
                int bin; ls >> bin; A("bin", jint(bin));
                std::stringstream ss; g.write(ss, bin == 1);
                TasmanianSparseGrid r; r.read(ss, bin == 1);
                g = std::move(r);
            }else if (cmd == "remove" || cmd == "removen"){
                // remove: tolerance between the rank-th and (rank+1)-th largest ratio; removen: keep the `rank` points with the largest ratios
                int rank, output; ls >> rank >> output;
                A("output", jint(output));
                if (g.empty() || !g.isLocalPolynomial()){
                    // documented: runtime_error for anything that is not a local polynomial grid
                    A("tolq", jint(0)); A("keep", jint(rank)); A("ratios", "[]");
                    if (cmd == "remove") g.removePointsByHierarchicalCoefficient(0.1, -1); else g.removePointsByHierarchicalCoefficient(std::max(rank, 1), -1);
                }else{
                    // no contract without loaded values, during construction or for an output that does not exist: call not made
                    if (g.getNumOutputs() == 0 || g.getNumLoaded() == 0 || g.isUsingConstruction() || output < -1 || output >= g.getNumOutputs()) throw std::string("skipped");
                    auto r = ratios(g, output, std::vector<double>());
                    if (ratios_degenerate) throw std::string("skipped");     // all values zero: 0/0
                    std::vector<long long> sorted = r; std::sort(sorted.begin(), sorted.end(), std::greater<long long>());
                    sorted.erase(std::unique(sorted.begin(), sorted.end()), sorted.end());
                    double tol = pick_tolerance(sorted, std::max(rank, 0));
                    int keep = std::max(0, std::min(rank, g.getNumLoaded()));
                    A("tolq", jint((long long) std::llround(tol * 1.0e8))); A("keep", jint(keep));
                    std::string rs = "["; for(size_t i=0; i<r.size(); i++){ if (i) rs += ","; rs += std::to_string(r[i]); } rs += "]";
                    A("ratios", rs);
                    {   // the loaded points the ratios belong to, in the library's order
                        const int *li = g.verifLoadedIndexes(); int d = g.getNumDimensions();
                        extra += ",\"before\":" + jistrips(li, g.getNumLoaded(), d);
                    }
                    if (cmd == "remove") g.removePointsByHierarchicalCoefficient(tol, output);
                    else g.removePointsByHierarchicalCoefficient(keep, output);
                }
            }else if (cmd == "bad"){
                // documented misuse: each call must throw invalid_argument / runtime_error and leave the grid untouched
                std::string which; ls >> which; A("which", jstr(which));
                int d = std::max(g.getNumDimensions(), 1), outs = g.getNumOutputs();
                if (which == "make_dims0") g.makeSequenceGrid(0, 1, 2, type_level, rule_leja);
                else if (which == "make_outs_neg") g.makeLocalPolynomialGrid(2, -1, 2, 1, rule_localp);
                else if (which == "make_depth_neg") g.makeGlobalGrid(2, 1, -1, type_level, rule_clenshawcurtis);
                else if (which == "make_rule_seq") g.makeSequenceGrid(2, 1, 2, type_level, rule_gausslegendre);
                else if (which == "make_global_rule_none") g.makeGlobalGrid(2, 1, 2, type_level, rule_none);
                else if (which == "make_global_rule_localp") g.makeGlobalGrid(2, 1, 2, type_level, rule_semilocalp);
                else if (which == "make_global_rule_wavelet") g.makeGlobalGrid(2, 1, 2, type_level, rule_wavelet);
                else if (which == "make_global_rule_fourier") g.makeGlobalGrid(2, 1, 2, type_level, rule_fourier);
                else if (which == "make_seq_rule_none") g.makeSequenceGrid(2, 1, 2, type_level, rule_none);
                else if (which == "make_seq_rule_cc") g.makeSequenceGrid(2, 1, 2, type_level, rule_clenshawcurtis);
                else if (which == "make_seq_rule_localp") g.makeSequenceGrid(2, 1, 2, type_level, rule_localp);
                else if (which == "make_local_rule_none") g.makeLocalPolynomialGrid(2, 1, 2, 1, rule_none);
                else if (which == "make_local_rule_cc") g.makeLocalPolynomialGrid(2, 1, 2, 1, rule_clenshawcurtis);
                else if (which == "make_local_rule_wavelet") g.makeLocalPolynomialGrid(2, 1, 2, 1, rule_wavelet);
                else if (which == "make_rule_local") g.makeLocalPolynomialGrid(2, 1, 2, 1, rule_leja);
                else if (which == "make_order") g.makeLocalPolynomialGrid(2, 1, 2, -2, rule_localp);
                else if (which == "make_wavelet_order") g.makeWaveletGrid(2, 1, 2, 2);
                else if (which == "make_aw_size") g.makeGlobalGrid(2, 1, 2, type_level, rule_clenshawcurtis, std::vector<int>{1, 2, 3});
                else if (which == "make_ll_size") g.makeSequenceGrid(2, 1, 2, type_level, rule_leja, std::vector<int>(), std::vector<int>{1});
                else if (which == "make_custom_missing") g.makeGlobalGrid(2, 1, 2, type_level, rule_customtabulated, std::vector<int>(), 0.0, 0.0, "/nonexistent/file/for/custom/rule");
                else if (which == "update_neg") g.updateGrid(-1, type_level, std::vector<int>());
                else if (which == "update_aw_size") g.updateGrid(2, type_level, std::vector<int>((size_t) d + 1, 1));
                else if (which == "update_ll_size") g.updateGrid(2, type_level, std::vector<int>(), std::vector<int>((size_t) d + 1, 1));
                else if (which == "transform_size") g.setDomainTransform(std::vector<double>((size_t) d + 1, 0.0), std::vector<double>((size_t) d + 1, 1.0));
                // one argument right (and different from what is stored), the other wrong: nothing may be stored
                else if (which == "transform_a_size") g.setDomainTransform(std::vector<double>((size_t) d + 1, 3.0), std::vector<double>((size_t) d, 7.0));
                else if (which == "transform_b_size") g.setDomainTransform(std::vector<double>((size_t) d, 3.0), std::vector<double>((size_t) d + 1, 7.0));
                else if (which == "transform_b_empty") g.setDomainTransform(std::vector<double>((size_t) d, 3.0), std::vector<double>());
                else if (which == "cand_aw_ok_ll_bad") g.getCandidateConstructionPoints(type_level, std::vector<int>((size_t) d, 1), std::vector<int>((size_t) d + 1, 1));
                else if (which == "cand_aw_bad_ll_ok") g.getCandidateConstructionPoints(type_level, std::vector<int>((size_t) d + 1, 1), std::vector<int>());
                else if (which == "make_aw_ok_ll_bad") g.makeGlobalGrid(2, 1, 2, type_level, rule_clenshawcurtis, std::vector<int>{1, 2}, 0.0, 0.0, nullptr, std::vector<int>{1, 2, 3});
                else if (which == "make_local_ll_size") g.makeLocalPolynomialGrid(2, 1, 2, 1, rule_localp, std::vector<int>{1});
                else if (which == "make_wavelet_ll_size") g.makeWaveletGrid(2, 1, 2, 1, std::vector<int>{1, 2, 3});
                else if (which == "make_fourier_aw_size") g.makeFourierGrid(2, 1, 2, type_level, std::vector<int>{1});
                else if (which == "conformal_size") g.setConformalTransformASIN(std::vector<int>((size_t) d + 1, 4));
                else if (which == "load_size") g.loadNeededValues(std::vector<double>((size_t) (((g.getNumNeeded() > 0) ? g.getNumNeeded() : g.getNumPoints()) * outs + 1), 1.0));
                else if (which == "eval_size"){ std::vector<double> y; g.evaluate(std::vector<double>((size_t) d + 1, 0.1), y); }
                else if (which == "batch_size"){ std::vector<double> y; g.evaluateBatch(std::vector<double>((size_t) d + 1, 0.1), y); }
                else if (which == "iweights_size"){ g.getInterpolationWeights(std::vector<double>((size_t) d + 1, 0.1)); }
                else if (which == "dweights_size"){ g.getDifferentiationWeights(std::vector<double>((size_t) d + 1, 0.1)); }
                else if (which == "diff_size"){ std::vector<double> j; g.differentiate(std::vector<double>((size_t) d + 1, 0.1), j); }
                else if (which == "aniso_growth") g.setAnisotropicRefinement(type_iptotal, 0, 0, std::vector<int>());
                else if (which == "aniso_output") g.setAnisotropicRefinement(type_iptotal, 1, outs + 3, std::vector<int>());
                else if (which == "aniso_ll_size") g.setAnisotropicRefinement(type_iptotal, 1, 0, std::vector<int>((size_t) d + 1, 1));
                else if (which == "surp_tol_neg") g.setSurplusRefinement(-0.1, 0, std::vector<int>());
                else if (which == "surp_output") g.setSurplusRefinement(0.1, outs + 3, std::vector<int>());
                else if (which == "surp_ll_size") g.setSurplusRefinement(0.1, 0, std::vector<int>((size_t) d + 1, 1));
                else if (which == "surpl_tol_neg") g.setSurplusRefinement(-0.1, refine_classic, 0, std::vector<int>());
                else if (which == "surpl_output") g.setSurplusRefinement(0.1, refine_classic, outs + 3, std::vector<int>());
                else if (which == "surpl_ll_size") g.setSurplusRefinement(0.1, refine_classic, 0, std::vector<int>((size_t) d + 1, 1));
                else if (which == "surpl_scale_size") g.setSurplusRefinement(0.1, refine_classic, -1, std::vector<int>(), std::vector<double>((size_t) g.getNumLoaded() * std::max(outs, 1) + 1, 1.0));
                else if (which == "cand_not_constructing") g.getCandidateConstructionPoints(type_level, 0);
                else if (which == "cand_ll_size") g.getCandidateConstructionPoints(type_level, 0, std::vector<int>((size_t) d + 1, 1));
                else if (which == "cand_output") g.getCandidateConstructionPoints(type_level, outs + 3);
                else if (which == "cand_aw_size") g.getCandidateConstructionPoints(type_level, std::vector<int>((size_t) d + 1, 1));
                else if (which == "candl_output") g.getCandidateConstructionPoints(0.1, refine_classic, outs + 3);
                else if (which == "candl_ll_size") g.getCandidateConstructionPoints(0.1, refine_classic, 0, std::vector<int>((size_t) d + 1, 1));
                else if (which == "loadc_not_constructing") g.loadConstructedPoints(std::vector<double>((size_t) d, 0.0), std::vector<double>((size_t) std::max(outs, 1), 1.0));
                else if (which == "loadc_ysize") g.loadConstructedPoints(std::vector<double>((size_t) 2 * d, 0.0), std::vector<double>((size_t) std::max(outs, 1), 1.0));
                else if (which == "setcoef_size") g.setHierarchicalCoefficients(std::vector<double>((size_t) g.getNumPoints() * std::max(outs, 1) * (g.isFourier() ? 2 : 1) + 1, 1.0));
                else if (which == "copy_range_neg") g.copyGrid(slots[3 - o].g, -1, 1);
                else if (which == "copy_range_big") g.copyGrid(slots[3 - o].g, 0, slots[3 - o].g.getNumOutputs() + 2);
                else if (which == "copy_range_empty") g.copyGrid(slots[3 - o].g, 1, 1);
                else if (which == "remove_nonlocal") g.removePointsByHierarchicalCoefficient(0.1, 0);
                else if (which == "remove_tol_neg") g.removePointsByHierarchicalCoefficient(-0.1, 0);
                else if (which == "remove_num_neg") g.removePointsByHierarchicalCoefficient(-3, 0);
                else if (which == "read_missing") g.read((tmpdir + "/does_not_exist.tsg").c_str());
                else if (which == "read_garbage" || which == "read_future" || which == "read_unknown_type" || which == "read_trunc_asc" || which == "read_trunc_bin" || which == "read_bin_garbage"){
                    std::string fn = tmpdir + "/bad_" + std::to_string(getpid()) + ".tsg";
                    std::ofstream f(fn, std::ios::binary);
                    if (which == "read_garbage") f << "this is not a grid file\nat all\n";
                    else if (which == "read_bin_garbage") f << "TSXX" << std::string(40, '\3');
                    else if (which == "read_future") f << "TASMANIAN SG 99.0\nWARNING: do not edit this manually\nglobal\n";
                    else if (which == "read_unknown_type") f << "TASMANIAN SG 6.0\nWARNING: do not edit this manually\nhexagonal\n";
                    else{
                        TasmanianSparseGrid t; t.makeLocalPolynomialGrid(2, 1, 2, 1, rule_localp);
                        std::stringstream ss; t.write(ss, which == "read_trunc_bin"); std::string all = ss.str();
                        f << all.substr(0, all.size() / 2);
                    }
                    f.close();
                    try{ g.read(fn.c_str()); }catch(...){ unlink(fn.c_str()); throw; }
                    unlink(fn.c_str());
                }
                else if (which == "unknown"){ res = "unknown-bad-call"; }
                else res = "unknown-bad-call";
            }else if (cmd == "nop"){
            }else{
                res = "unknown-command";
            }
        }catch(std::string &e){ res = e;
        }catch(std::invalid_argument &e){ res = "invalid_argument"; what = e.what();
        }catch(std::runtime_error &e){ res = "runtime_error"; what = e.what();
        }catch(std::exception &e){ res = std::string("other:") + typeid(e).name(); what = e.what();
        }catch(...){ res = "other:unknown"; }
        if (cmd == "make" && res == "ok"){ slots[o].obase = 0; slots[o].delivered.clear(); }
        // the grid outgrew the size the judge (and the observers' tolerances) are made for: the scenario ends before this event
        for(int k=1; k<=2; k++) if (std::max(slots[k].g.getNumLoaded() + slots[k].g.getNumNeeded(), slots[k].g.getNumPoints()) > max_points) skip_rest = true;
        if (skip_rest) continue;
        args += "}";
        std::string obs = "{";
        bool firsto = true;
        auto O = [&](std::string s){ if (!firsto) obs += ","; firsto = false; obs += s; };
        try{
            // C09 judges the surrogate after the last delivery only: with VERIF_NODAL_AT_FINISH the nodal observation is not taken
            // while a construction is active (intermediate states belong to C01)
            if ((obs_mask & OBS_NODAL) && !(getenv("VERIF_NODAL_AT_FINISH") != nullptr && g.isUsingConstruction())) O(obs_nodal(g));
            if (obs_mask & OBS_ROUTES) O(obs_routes(g, (unsigned) (scen_key * 131 + step)));
            if (obs_mask & OBS_RT) O(obs_roundtrip(g, (unsigned) (scen_key * 137 + step)));
            if (obs_mask & OBS_EXACT) O(obs_exact(g, (unsigned) (scen_key * 139 + step)));
            if (obs_mask & OBS_GRAD) O(obs_grad(g, (unsigned) (scen_key * 149 + step)));
            if (obs_mask & 64) O(obs_twin(g, (unsigned) (scen_key * 151 + step)));
            if (obs_mask & 128) O(obs_num(g, (unsigned) (scen_key * 157 + step)));
        }catch(std::exception &e){ O(std::string("\"observer_exception\":") + jstr(e.what())); }
        obs += "}";
        fprintf(out, "{\"e\":%s,\"o\":%d,\"a\":%s,\"r\":%s,\"st\":%s,\"st2\":%s,\"obs\":%s%s}\n", jstr(cmd).c_str(), o, args.c_str(), jstr(res).c_str(),
                project(slots[1].g).c_str(), project(slots[2].g).c_str(), obs.c_str(), extra.c_str());
        fflush(out);
        for(int k=1; k<=2; k++) if (slots[k].g.getNumLoaded() + slots[k].g.getNumNeeded() > max_points) skip_rest = true;
    }
    if (scen > 0) fprintf(out, "{\"e\":\"End\"}\n");
    fclose(out);
    return 0;
}
#endif
