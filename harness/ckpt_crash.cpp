// C17 driver: runs the REAL TasGrid::constructSurrogate with a checkpoint file name in this process.
//
//   ckpt_crash <family> <seq|par> <budget> <batch> <jobs> <checkpoint-name> <event-log> [seed] [preload-depth]
//
// One invocation = one process life ("run").  The process is meant to run under harness/ckpt_shim.so,
// which logs every file-system operation on <checkpoint-name>{,_old} to the same <event-log> (O_APPEND,
// one write(2) per line) and kills the process at a configured operation.  The driver adds
//   {"e":"start",...}                      once, before constructSurrogate is entered
//   {"e":"call","x":[...]}                 once per sample, right after the model produced it
//   {"e":"end","threw":..,"what":..,"pts":[...],"interp":..,"ncalls":..,"nloaded":..}   after the return / throw
// so the event log of a crash history is the concatenation of the logs of its runs.  A restart is simply
// the same command line again in a fresh process (same caller grid, same file name).
// The driver contains no expected values: the log is judged by TLC (spec/CheckpointTrace.tla).
#include "TasmanianAddons.hpp"

#include <cmath>
#include <cstdio>
#include <cstdlib>
#include <cstring>
#include <fcntl.h>
#include <string>
#include <unistd.h>
#include <vector>
#include <mutex>
#include <chrono>
#include <thread>

using namespace TasGrid;

static int logfd = -1;
static std::mutex logmtx;

static void logstr(std::string const &s){
    if (logfd < 0) return;
    ssize_t r = ::write(logfd, s.data(), s.size()); // O_APPEND: one atomic append per event
    (void) r;
}
static std::string num(double v){
    char b[64];
    snprintf(b, sizeof(b), "%.17g", v);
    return std::string(b);
}
static std::string jstr(std::string const &s){
    std::string o = "\"";
    for(char c : s){
        if (c == '"' || c == '\\') { o += '\\'; o += c; }
        else if ((unsigned char) c < 32) o += ' ';
        else o += c;
    }
    return o + "\"";
}

static void model_point(double const x[], size_t dims, double y[], size_t outs){
    double s = 0.0;
    for(size_t d = 0; d < dims; d++) s += (1.0 + 0.35 * double(d)) * x[d];
    for(size_t k = 0; k < outs; k++) y[k] = std::exp(0.5 * s) + 0.25 * double(k) * std::cos(s + double(k));
}

int main(int argc, char **argv){
    if (argc < 8){
        fprintf(stderr, "usage: ckpt_crash <family> <seq|par> <budget> <batch> <jobs> <checkpoint> <log> [seed] [preload-depth]\n");
        return 3;
    }
    std::string family = argv[1];
    bool parallel = (std::string(argv[2]) == "par");
    size_t budget = (size_t) atol(argv[3]);
    size_t batch = (size_t) atol(argv[4]);
    size_t jobs = (size_t) atol(argv[5]);
    std::string ckpt = argv[6];
    unsigned seed = (argc > 8) ? (unsigned) atol(argv[8]) : 1u;
    int preload = (argc > 9) ? atoi(argv[9]) : 0;
    logfd = ::open(argv[7], O_WRONLY | O_APPEND | O_CREAT, 0644);
    if (logfd < 0){ perror("log"); return 3; }

    int const dims = 2;
    int outs = 1;
    TasmanianSparseGrid grid;
    // the caller's grid: identical in the first life and in every restart
    if (family == "localp"){
        grid = makeLocalPolynomialGrid(dims, outs, preload > 0 ? preload : 1, 1, rule_localp);
    }else if (family == "localpb"){
        grid = makeLocalPolynomialGrid(dims, outs, preload > 0 ? preload : 1, 2, rule_semilocalp);
    }else if (family == "wavelet"){
        grid = makeWaveletGrid(dims, outs, preload > 0 ? preload : 0, 1);
    }else if (family == "sequence"){
        grid = makeSequenceGrid(dims, outs, preload > 0 ? preload : 1, type_level, rule_leja);
    }else if (family == "global"){
        grid = makeGlobalGrid(dims, outs, preload > 0 ? preload : 1, type_level, rule_clenshawcurtis);
    }else if (family == "fourier"){
        grid = makeFourierGrid(dims, outs, preload > 0 ? preload : 1, type_level);
    }else{
        fprintf(stderr, "unknown family %s\n", family.c_str());
        return 3;
    }
    size_t npre = 0;
    if (preload > 0){ // samples the caller already owns (not model calls of the construction)
        auto p = grid.getNeededPoints();
        std::vector<double> v((size_t) grid.getNumNeeded() * (size_t) outs);
        for(int i = 0; i < grid.getNumNeeded(); i++) model_point(&p[(size_t) i * dims], dims, &v[(size_t) i * outs], (size_t) outs);
        grid.loadNeededPoints(v);
        npre = (size_t) grid.getNumLoaded();
    }
    std::vector<double> pre_points = (npre > 0) ? grid.getLoadedPoints() : std::vector<double>();

    long ncalls = 0;
    auto model = [&](std::vector<double> const &x, std::vector<double> &y, size_t)->void{
        size_t n = x.size() / dims;
        y.resize(n * (size_t) outs);
        if (parallel){ // seeded latency per point: the interleaving of the workers follows the seed
            unsigned h = seed * 2654435761u;
            for(double v : x) h = (h ^ (unsigned) (long) std::lround(v * 4096.0)) * 16777619u;
            std::this_thread::sleep_for(std::chrono::microseconds((h >> 7) % 1500));
        }
        for(size_t i = 0; i < n; i++){
            model_point(&x[i * dims], dims, &y[i * (size_t) outs], (size_t) outs);
            std::string s = "{\"e\":\"call\",\"x\":[";
            for(int d = 0; d < dims; d++) s += (d ? "," : "") + jstr(num(x[i * dims + (size_t) d]));
            s += "]}\n";
            std::lock_guard<std::mutex> lock(logmtx);
            ncalls++;
            logstr(s);
        }
    };

    logstr("{\"e\":\"start\",\"pid\":" + std::to_string((long) getpid()) + ",\"family\":" + jstr(family) + ",\"mode\":" + jstr(parallel ? "par" : "seq")
           + ",\"budget\":" + std::to_string(budget) + ",\"batch\":" + std::to_string(batch) + ",\"jobs\":" + std::to_string(jobs)
           + ",\"npre\":" + std::to_string(npre) + "}\n");

    bool threw = false;
    std::string what;
    try{
        size_t total = budget + npre;
        if (family == "localp" || family == "localpb" || family == "wavelet"){
            if (parallel) constructSurrogate<mode_parallel, no_initial_guess>(model, total, jobs, batch, grid, 1.E-9, refine_classic, -1, std::vector<int>(), ckpt);
            else          constructSurrogate<mode_sequential, no_initial_guess>(model, total, jobs, batch, grid, 1.E-9, refine_classic, -1, std::vector<int>(), ckpt);
        }else if (family == "sequence"){
            std::vector<int> aw = {1, 2};
            if (parallel) constructSurrogate<mode_parallel, no_initial_guess>(model, total, jobs, batch, grid, type_iptotal, aw, std::vector<int>(), ckpt);
            else          constructSurrogate<mode_sequential, no_initial_guess>(model, total, jobs, batch, grid, type_iptotal, aw, std::vector<int>(), ckpt);
        }else{
            if (parallel) constructSurrogate<mode_parallel, no_initial_guess>(model, total, jobs, batch, grid, type_iptotal, 0, std::vector<int>(), ckpt);
            else          constructSurrogate<mode_sequential, no_initial_guess>(model, total, jobs, batch, grid, type_iptotal, 0, std::vector<int>(), ckpt);
        }
    }catch(std::exception &e){
        threw = true;
        what = e.what();
    }catch(...){
        threw = true;
        what = "unknown exception";
    }

    // observations after the return: loaded points beyond the caller's own, interpolation bit
    std::string pts = "[";
    bool interp = true;
    long nloaded = 0;
    bool obs_failed = false;
    try{
        if (!grid.empty() && grid.getNumLoaded() > 0){
            auto p = grid.getLoadedPoints();
            nloaded = grid.getNumLoaded();
            std::vector<double> y((size_t) outs), r((size_t) outs);
            bool first = true;
            for(long i = 0; i < nloaded; i++){
                double const *x = &p[(size_t) i * dims];
                grid.evaluate(x, y.data());
                model_point(x, dims, r.data(), (size_t) outs);
                for(int k = 0; k < outs; k++)
                    if (!(std::abs(y[(size_t) k] - r[(size_t) k]) <= 1.E-9 * (1.0 + std::abs(r[(size_t) k])))) interp = false;
                bool own = false;
                for(size_t j = 0; j < npre && !own; j++)
                    if (pre_points[j * dims] == x[0] && pre_points[j * dims + 1] == x[1]) own = true;
                if (!own){
                    pts += std::string(first ? "" : ",") + "[" + jstr(num(x[0])) + "," + jstr(num(x[1])) + "]";
                    first = false;
                }
            }
        }
    }catch(std::exception &e){
        obs_failed = true;
        what += std::string(" | observation failed: ") + e.what();
    }
    pts += "]";
    logstr("{\"e\":\"end\",\"threw\":" + std::string(threw ? "1" : "0") + ",\"what\":" + jstr(what) + ",\"nloaded\":" + std::to_string(nloaded)
           + ",\"npre\":" + std::to_string(npre) + ",\"interp\":" + std::string((interp && !obs_failed) ? "1" : "0") + ",\"ncalls\":" + std::to_string(ncalls)
           + ",\"pts\":" + pts + "}\n");
    return threw ? 2 : 0;
}
