/* LD_PRELOAD file-system logger / fault injector for the C17 check (plain C).
 *
 *   gcc -shared -fPIC -O1 -o ckpt_shim.so ckpt_shim.c -ldl
 *
 * Watches the two checkpoint files  $CKPT_SHIM_NAME  ("main") and  $CKPT_SHIM_NAME_old  ("old").
 * Every operation on them is appended as one JSON line to the log ($CKPT_SHIM_LOGFD = inherited fd,
 * else $CKPT_SHIM_LOG = path opened O_APPEND).  Operations that can change what is on disk or that
 * delimit a session (open, write, writev, close, rename, unlink) carry a running index "idx";
 * reads are logged without an index.
 *
 * Fault:  CKPT_SHIM_KILL_AT=k  CKPT_SHIM_KILL_TORN=t
 *   when the operation with index k is reached: if it is a write of n bytes, min(t, n-1) bytes are
 *   really written (one write(2)), otherwise nothing is done; then the process dies by SIGKILL.
 *   So (k, 0) is "killed between operation k-1 and k", (k, t>0) is "killed inside write k".
 *
 * libstdc++'s basic_filebuf opens with fopen()/fopen64(), transfers with read()/write()/writev() on
 * fileno(), closes with fclose(): all of those and the raw open/openat/close family are interposed.
 */
#define _GNU_SOURCE
#include <dlfcn.h>
#include <errno.h>
#include <fcntl.h>
#include <signal.h>
#include <stdarg.h>
#include <stdio.h>
#include <stdlib.h>
#include <string.h>
#include <sys/stat.h>
#include <sys/syscall.h>
#include <sys/types.h>
#include <sys/uio.h>
#include <unistd.h>

#define MAXFD 1024
static signed char fd_tag[MAXFD];   /* 0 untracked, 1 main, 2 old */
static char fd_mode[MAXFD];         /* 'r' or 'w' */
static int inited = 0, logfd = -1;
static long op_index = 0, kill_at = 0, kill_torn = 0;
static char name_main[4096], name_old[4096];

static FILE *(*real_fopen)(const char *, const char *);
static FILE *(*real_fopen64)(const char *, const char *);
static int (*real_fclose)(FILE *);
static int (*real_open)(const char *, int, ...);
static int (*real_open64)(const char *, int, ...);
static int (*real_openat)(int, const char *, int, ...);
static int (*real_close)(int);
static ssize_t (*real_write)(int, const void *, size_t);
static ssize_t (*real_writev)(int, const struct iovec *, int);
static ssize_t (*real_read)(int, void *, size_t);
static int (*real_rename)(const char *, const char *);
static int (*real_unlink)(const char *);

static void init(void){
    if (inited) return;
    inited = 1;
    real_fopen   = dlsym(RTLD_NEXT, "fopen");
    real_fopen64 = dlsym(RTLD_NEXT, "fopen64");
    real_fclose  = dlsym(RTLD_NEXT, "fclose");
    real_open    = dlsym(RTLD_NEXT, "open");
    real_open64  = dlsym(RTLD_NEXT, "open64");
    real_openat  = dlsym(RTLD_NEXT, "openat");
    real_close   = dlsym(RTLD_NEXT, "close");
    real_write   = dlsym(RTLD_NEXT, "write");
    real_writev  = dlsym(RTLD_NEXT, "writev");
    real_read    = dlsym(RTLD_NEXT, "read");
    real_rename  = dlsym(RTLD_NEXT, "rename");
    real_unlink  = dlsym(RTLD_NEXT, "unlink");
    const char *n = getenv("CKPT_SHIM_NAME");
    if (n && *n && strlen(n) < sizeof(name_main) - 8){
        strcpy(name_main, n);
        strcpy(name_old, n);
        strcat(name_old, "_old");
    }
    const char *lf = getenv("CKPT_SHIM_LOGFD");
    const char *lp = getenv("CKPT_SHIM_LOG");
    if (lf && *lf) logfd = atoi(lf);
    else if (lp && *lp) logfd = (int) syscall(SYS_openat, AT_FDCWD, lp, O_WRONLY | O_APPEND | O_CREAT | O_CLOEXEC, 0644);
    const char *k = getenv("CKPT_SHIM_KILL_AT");
    const char *t = getenv("CKPT_SHIM_KILL_TORN");
    if (k && *k) kill_at = atol(k);
    if (t && *t) kill_torn = atol(t);
}

static int tag_of(const char *path){
    if (!path || !name_main[0]) return 0;
    if (strcmp(path, name_main) == 0) return 1;
    if (strcmp(path, name_old) == 0) return 2;
    return 0;
}
static const char *tag_name(int t){ return t == 1 ? "main" : "old"; }

static void logline(const char *fmt, ...){
    if (logfd < 0) return;
    char buf[512];
    va_list ap;
    va_start(ap, fmt);
    int n = vsnprintf(buf, sizeof(buf), fmt, ap);
    va_end(ap);
    if (n > 0) syscall(SYS_write, logfd, buf, (size_t) (n < (int) sizeof(buf) ? n : (int) sizeof(buf) - 1));
}
static void die(void){
    syscall(SYS_kill, (pid_t) syscall(SYS_getpid), SIGKILL);
    for(;;) syscall(SYS_exit_group, 137);
}
static long file_size(const char *path){
    struct stat st;
    if (stat(path, &st) != 0) return -1;
    return (long) st.st_size;
}
/* takes the next operation index; dies here when it is the configured kill point and the
 * operation is not a write (writes handle the torn prefix themselves) */
static long next_op(const char *op, int tag, int is_write, char mode){
    long k = __atomic_add_fetch(&op_index, 1, __ATOMIC_SEQ_CST);
    if (kill_at > 0 && k == kill_at && !is_write){
        logline("{\"e\":\"kill\",\"idx\":%ld,\"op\":\"%s\",\"f\":\"%s\",\"m\":\"%c\",\"torn\":0}\n", k, op, tag_name(tag), mode);
        die();
    }
    return k;
}
static void track(int fd, int tag, char mode){
    if (fd >= 0 && fd < MAXFD){ fd_tag[fd] = (signed char) tag; fd_mode[fd] = mode; }
}
static char mode_of_flags(int flags){ return ((flags & O_ACCMODE) == O_RDONLY) ? 'r' : 'w'; }

/* ------------------------------------------------------------------ open family */
static FILE *do_fopen(FILE *(*fn)(const char *, const char *), const char *path, const char *mode){
    init();
    int tag = tag_of(path);
    if (!tag) return fn(path, mode);
    char m = (mode[0] == 'r' && !strchr(mode, '+')) ? 'r' : 'w';
    int trunc = (mode[0] == 'w');
    long before = file_size(path);
    long k = next_op("open", tag, 0, m);
    FILE *fp = fn(path, mode);
    int fd = fp ? fileno(fp) : -1;
    track(fd, tag, m);
    logline("{\"e\":\"fs\",\"op\":\"open\",\"f\":\"%s\",\"m\":\"%c\",\"tr\":%d,\"ok\":%d,\"sz\":%ld,\"idx\":%ld}\n",
            tag_name(tag), m, trunc, fp ? 1 : 0, before, k);
    return fp;
}
FILE *fopen(const char *path, const char *mode){ init(); return do_fopen(real_fopen, path, mode); }
FILE *fopen64(const char *path, const char *mode){ init(); return do_fopen(real_fopen64 ? real_fopen64 : real_fopen, path, mode); }

static int do_open(int which, int dirfd, const char *path, int flags, mode_t mode){
    init();
    int tag = tag_of(path);
    long k = 0, before = -1;
    if (tag){ before = file_size(path); k = next_op("open", tag, 0, mode_of_flags(flags)); }
    int fd;
    if (which == 0) fd = real_open(path, flags, mode);
    else if (which == 1) fd = (real_open64 ? real_open64 : real_open)(path, flags, mode);
    else fd = real_openat(dirfd, path, flags, mode);
    if (tag){
        char m = mode_of_flags(flags);
        track(fd, tag, m);
        logline("{\"e\":\"fs\",\"op\":\"open\",\"f\":\"%s\",\"m\":\"%c\",\"tr\":%d,\"ok\":%d,\"sz\":%ld,\"idx\":%ld}\n",
                tag_name(tag), m, (flags & O_TRUNC) ? 1 : 0, fd >= 0 ? 1 : 0, before, k);
    }
    return fd;
}
int open(const char *path, int flags, ...){
    mode_t mode = 0;
    if (flags & (O_CREAT | O_TMPFILE)){ va_list ap; va_start(ap, flags); mode = (mode_t) va_arg(ap, int); va_end(ap); }
    return do_open(0, 0, path, flags, mode);
}
int open64(const char *path, int flags, ...){
    mode_t mode = 0;
    if (flags & (O_CREAT | O_TMPFILE)){ va_list ap; va_start(ap, flags); mode = (mode_t) va_arg(ap, int); va_end(ap); }
    return do_open(1, 0, path, flags, mode);
}
int openat(int dirfd, const char *path, int flags, ...){
    mode_t mode = 0;
    if (flags & (O_CREAT | O_TMPFILE)){ va_list ap; va_start(ap, flags); mode = (mode_t) va_arg(ap, int); va_end(ap); }
    return do_open(2, dirfd, path, flags, mode);
}

/* ------------------------------------------------------------------ close family */
static void log_close(int fd){
    int tag = fd_tag[fd];
    char m = fd_mode[fd];
    long k = next_op("close", tag, 0, m);
    fd_tag[fd] = 0;
    logline("{\"e\":\"fs\",\"op\":\"close\",\"f\":\"%s\",\"m\":\"%c\",\"idx\":%ld}\n", tag_name(tag), m, k);
}
int fclose(FILE *fp){
    init();
    int fd = fp ? fileno(fp) : -1;
    if (fd >= 0 && fd < MAXFD && fd_tag[fd]){
        /* libstdc++ has already flushed with write(); stdio's own buffer is unused for these streams */
        log_close(fd);
    }
    return real_fclose(fp);
}
int close(int fd){
    init();
    if (fd >= 0 && fd < MAXFD && fd_tag[fd]) log_close(fd);
    return real_close(fd);
}

/* ------------------------------------------------------------------ data transfer */
ssize_t write(int fd, const void *buf, size_t n){
    init();
    if (fd < 0 || fd >= MAXFD || !fd_tag[fd]) return real_write(fd, buf, n);
    int tag = fd_tag[fd];
    long k = next_op("write", tag, 1, 'w');
    if (kill_at > 0 && k == kill_at){
        size_t t = (size_t) kill_torn;
        if (n > 0 && t >= n) t = n - 1;
        if (n == 0) t = 0;
        ssize_t w = 0;
        if (t > 0) w = real_write(fd, buf, t);
        logline("{\"e\":\"fs\",\"op\":\"write\",\"f\":\"%s\",\"n\":%ld,\"w\":%ld,\"k\":1,\"idx\":%ld}\n", tag_name(tag), (long) n, (long) w, k);
        logline("{\"e\":\"kill\",\"idx\":%ld,\"op\":\"write\",\"f\":\"%s\",\"m\":\"w\",\"torn\":%ld}\n", k, tag_name(tag), (long) w);
        die();
    }
    ssize_t w = real_write(fd, buf, n);
    logline("{\"e\":\"fs\",\"op\":\"write\",\"f\":\"%s\",\"n\":%ld,\"w\":%ld,\"k\":0,\"idx\":%ld}\n", tag_name(tag), (long) n, (long) w, k);
    return w;
}
ssize_t writev(int fd, const struct iovec *iov, int cnt){
    init();
    if (fd < 0 || fd >= MAXFD || !fd_tag[fd]) return real_writev(fd, iov, cnt);
    int tag = fd_tag[fd];
    size_t n = 0;
    for(int i = 0; i < cnt; i++) n += iov[i].iov_len;
    long k = next_op("write", tag, 1, 'w');
    if (kill_at > 0 && k == kill_at){
        size_t t = (size_t) kill_torn;
        if (n > 0 && t >= n) t = n - 1;
        if (n == 0) t = 0;
        size_t left = t;
        ssize_t w = 0;
        for(int i = 0; i < cnt && left > 0; i++){
            size_t part = iov[i].iov_len < left ? iov[i].iov_len : left;
            ssize_t r = real_write(fd, iov[i].iov_base, part);
            if (r <= 0) break;
            w += r; left -= (size_t) r;
        }
        logline("{\"e\":\"fs\",\"op\":\"write\",\"f\":\"%s\",\"n\":%ld,\"w\":%ld,\"k\":1,\"idx\":%ld}\n", tag_name(tag), (long) n, (long) w, k);
        logline("{\"e\":\"kill\",\"idx\":%ld,\"op\":\"write\",\"f\":\"%s\",\"m\":\"w\",\"torn\":%ld}\n", k, tag_name(tag), (long) w);
        die();
    }
    ssize_t w = real_writev(fd, iov, cnt);
    logline("{\"e\":\"fs\",\"op\":\"write\",\"f\":\"%s\",\"n\":%ld,\"w\":%ld,\"k\":0,\"idx\":%ld}\n", tag_name(tag), (long) n, (long) w, k);
    return w;
}
ssize_t read(int fd, void *buf, size_t n){
    init();
    if (fd < 0 || fd >= MAXFD || !fd_tag[fd]) return real_read(fd, buf, n);
    ssize_t r = real_read(fd, buf, n);
    logline("{\"e\":\"fs\",\"op\":\"read\",\"f\":\"%s\",\"n\":%ld,\"r\":%ld}\n", tag_name(fd_tag[fd]), (long) n, (long) r);
    return r;
}

/* ------------------------------------------------------------------ name space */
int rename(const char *a, const char *b){
    init();
    int ta = tag_of(a), tb = tag_of(b);
    if (!ta && !tb) return real_rename(a, b);
    long k = next_op("rename", ta ? ta : tb, 0, 'w');
    int r = real_rename(a, b);
    logline("{\"e\":\"fs\",\"op\":\"rename\",\"f\":\"%s\",\"to\":\"%s\",\"ok\":%d,\"idx\":%ld}\n",
            ta ? tag_name(ta) : "other", tb ? tag_name(tb) : "other", r == 0, k);
    return r;
}
int unlink(const char *a){
    init();
    int ta = tag_of(a);
    if (!ta) return real_unlink(a);
    long k = next_op("unlink", ta, 0, 'w');
    int r = real_unlink(a);
    logline("{\"e\":\"fs\",\"op\":\"unlink\",\"f\":\"%s\",\"ok\":%d,\"idx\":%ld}\n", tag_name(ta), r == 0, k);
    return r;
}
