// Conformance driver for C18: runs the REAL TasGrid::constructSurrogate (parallel and sequential mode)
// and the threaded TasGrid::loadNeededValues on small grids and records an ndjson trace of
//   * the protocol events emitted by the guarded hooks in Addons/tsgConstructSurrogate.hpp,
//     Addons/tsgCandidateManager.hpp, Addons/tsgLoadNeededValues.hpp (emitted while the mutex is held), and
//   * every entry / exit of the model callback (thread id, points, returned values),
//   * the content of the grid after the call (point id, value id, value of the surrogate at the point).
// Points are named by small integers in the order in which they are first seen; the model returns the
// name of the point in output 1 (output 0 is a function that drives the refinement), so a value that ends
// up at the wrong point is visible.  There is no expected value in here: ParConstructTrace.tla /
// LoadNeededParTrace.tla judge the trace with TLC.
//
// A schedule sink perturbs the interleaving at the TSG_VERIF_SCHED points (outside of the locks) with
// seeded yields and sleeps; the model callback has seeded latencies.  A watchdog turns a run that does
// not finish into a "Hang" event and exit code 97.
//
// usage: parconstruct_trace scenarios.txt trace.ndjson [hang_ms]
// scenario line: key=value tokens, see struct Scen.
#include "TasmanianAddons.hpp"
#include "tsgVerifHooks.hpp"
#include <cstdio>
#include <cstring>
#include <cmath>
#include <map>
#include <sstream>
#include <fstream>
#include <iostream>
#include <chrono>
#include <random>
#include <unistd.h>
#include <csignal>
#include <exception>

using namespace TasGrid;

struct Scen{
    std::string mode = "par";       // par | seq | ln
    std::string fam = "localp";     // localp semilocalp localp0 localpb wavelet global_cc global_rleja global_leja seq_leja seq_rleja seq_minlebesgue fourier
    int dims = 2, order = 1, depth = 1;
    long long budget = 10;          // -1: unlimited (size_t max)
    int jobs = 2, batch = 1;
    int crit = 0;                   // refine_classic, parents_first, direction(fds), stable
    int tolexp = 4;                 // tolerance 10^-tolexp
    int out = 0;                    // output used by the refinement (-1 all)
    int limit = -1;                 // level limit in every direction (-1 none)
    int fmodel = 0;                 // 0 rough, 1 smooth, 2 linear, 3 zero
    int lat = 0;                    // 0 none, 1 one slow thread, 2 random, 3 one slow point, 4 yield
    int sched = 0;                  // 0 none, 1 yield, 2 sleep, 3 mixed with long stalls
    int preload = 0;                // load the initial points before the call
    int eager = 1000;               // completed samples are loaded one by one below this many loaded points (library constant, lowered through the guarded hook)
    int guess = 0;                  // initial guess template parameter
    int ctype = 0;                  // anisotropic variants: 0 = weights overload, 1 = output overload
    int threads = 3, overwrite = 0, vecsig = 0;   // loadNeededValues
    unsigned seed = 1;
};

// ------------------------------------------------------------------ trace buffer and naming of points
static std::mutex logm;
static std::string logbuf;
static const char *out_path = nullptr;
static std::map<std::vector<long long>, int> point_ids;
static int g_dims = 2, g_nout = 2;
static TasmanianSparseGrid *g_grid = nullptr;
static bool pending_load = false; static long long pending_ns = 0, pending_nl = 0;
static std::atomic<long long> model_calls(0);
static std::atomic<long long> scen_started_ms(-1);
static std::atomic<unsigned> g_seed(1);
static std::atomic<int> g_sched(0), g_lat(0);

static long long now_ms(){ return std::chrono::duration_cast<std::chrono::milliseconds>(std::chrono::steady_clock::now().time_since_epoch()).count(); }

static int id_of_locked(const double *x){
    std::vector<long long> key(g_dims);
    for(int j=0; j<g_dims; j++) key[j] = std::llround(x[j] * 1.0e9);
    auto it = point_ids.find(key);
    if (it != point_ids.end()) return it->second;
    int id = (int) point_ids.size() + 1;
    point_ids[key] = id;
    return id;
}
static std::string ids_locked(const double *x, size_t num_doubles){
    std::string s = "[";
    for(size_t i=0; i + g_dims <= num_doubles; i += g_dims){ if (i) s += ","; s += std::to_string(id_of_locked(x + i)); }
    return s + "]";
}
static long long tag_of(double v){ return (std::isfinite(v) && std::fabs(v - std::round(v)) < 1.0e-6 && std::fabs(v) < 1.0e8) ? (long long) std::llround(v) : -1; }
static std::string tags(const double *y, size_t num_doubles){
    std::string s = "[";
    for(size_t i=0; i + g_nout <= num_doubles; i += g_nout){ if (i) s += ","; s += std::to_string(tag_of(y[i + 1])); }
    return s + "]";
}
static std::atomic<long long> last_event_ms(0);
static void put_locked(const std::string &line){ logbuf += line; logbuf += "\n"; last_event_ms = now_ms(); }
static void flush_file(){
    FILE *f = fopen(out_path, "a");
    if (f){ fwrite(logbuf.data(), 1, logbuf.size(), f); fclose(f); }
    logbuf.clear();
}

// ------------------------------------------------------------------ hooks: events (called while the protocol mutex is held)
static void event_sink(const char *ev, const long long *a, int na){
    if (std::strncmp(ev, "pc_", 3) != 0 && std::strncmp(ev, "cm_", 3) != 0 && std::strncmp(ev, "ln_", 3) != 0) return; // other components
    std::lock_guard<std::mutex> lock(logm);
    char b[512];
    std::string e(ev);
    if (e == "pc_load" && na == 2){
        pending_load = true; pending_ns = a[0]; pending_nl = a[1];
        return;
    }else if (e == "cm_assign" && na == 4){
        const double *c = reinterpret_cast<const double*>((size_t) a[2]);
        snprintf(b, sizeof(b), "{\"e\":\"Refresh\",\"ld\":%s,\"nl\":%d,\"run\":%lld,\"cand\":", (pending_load && pending_ns > 0) ? "true" : "false",
                 (g_grid != nullptr) ? g_grid->getNumLoaded() : -1, a[3]);
        put_locked(std::string(b) + ids_locked(c, (size_t) (a[0] * a[1])) + "}");
        pending_load = false;
    }else if ((e == "pc_launch" || e == "pc_handout") && na == 6){
        const double *px = reinterpret_cast<const double*>((size_t) a[2]);
        snprintf(b, sizeof(b), "{\"e\":\"%s\",\"id\":%lld,\"flag\":%lld,\"launched\":%lld,\"running\":%lld,\"pts\":", (e == "pc_launch") ? "Launch" : "Handout", a[0], a[1], a[4], a[5]);
        put_locked(std::string(b) + ((a[1] == 1) ? ids_locked(px, (size_t) a[3]) : std::string("[]")) + "}");
    }else if (e == "pc_collect" && na == 9){
        const double *px = reinterpret_cast<const double*>((size_t) a[1]);
        const double *py = reinterpret_cast<const double*>((size_t) a[3]);
        snprintf(b, sizeof(b), "{\"e\":\"Collect\",\"id\":%lld,\"ld\":%s,\"nl\":%lld,\"ns\":%lld,\"gl\":%lld,\"done\":%lld,\"running\":%lld,\"pts\":", a[0],
                 pending_load ? "true" : "false", pending_load ? pending_nl : a[6], a[5], a[6], a[7], a[8]);
        put_locked(std::string(b) + ids_locked(px, (size_t) a[2]) + ",\"vals\":" + tags(py, (size_t) a[4]) + "}");
        pending_load = false;
    }else if (e == "pc_seq_next" && na == 4){
        const double *px = reinterpret_cast<const double*>((size_t) a[0]);
        snprintf(b, sizeof(b), "{\"e\":\"SeqNext\",\"launched\":%lld,\"running\":%lld,\"pts\":", a[2], a[3]);
        put_locked(std::string(b) + ids_locked(px, (size_t) a[1]) + "}");
    }else if (e == "pc_seq_store" && na == 8){
        const double *px = reinterpret_cast<const double*>((size_t) a[0]);
        const double *py = reinterpret_cast<const double*>((size_t) a[2]);
        snprintf(b, sizeof(b), "{\"e\":\"SeqStore\",\"ld\":%s,\"nl\":%lld,\"ns\":%lld,\"gl\":%lld,\"done\":%lld,\"running\":%lld,\"pts\":",
                 pending_load ? "true" : "false", pending_load ? pending_nl : a[5], a[4], a[5], a[6], a[7]);
        put_locked(std::string(b) + ids_locked(px, (size_t) a[1]) + ",\"vals\":" + tags(py, (size_t) a[3]) + "}");
        pending_load = false;
    }else if (e == "pc_flush" && na == 2){
        snprintf(b, sizeof(b), "{\"e\":\"Flush\",\"ld\":%s,\"ns\":%lld,\"gl\":%lld}", (pending_load && pending_ns > 0) ? "true" : "false", a[0], a[1]);
        put_locked(b); pending_load = false;
    }else if (e == "pc_main_check" && na == 1){ snprintf(b, sizeof(b), "{\"e\":\"MCheck\",\"cd\":%lld}", a[0]); put_locked(b);
    }else if (e == "pc_main_unlock"){ put_locked("{\"e\":\"MUnlock\"}");
    }else if (e == "pc_main_notify"){ put_locked("{\"e\":\"MNotify\"}");
    }else if (e == "pc_joined"){ put_locked("{\"e\":\"Joined\"}");
    }else if (e == "pc_worker_done" && na == 2){ snprintf(b, sizeof(b), "{\"e\":\"WDone\",\"tid\":%lld,\"cd\":%lld}", a[0], a[1]); put_locked(b);
    }else if (e == "pc_worker_notify" && na == 1){ snprintf(b, sizeof(b), "{\"e\":\"WNotify\",\"tid\":%lld}", a[0]); put_locked(b);
    }else if (e == "pc_worker_check" && na == 2){ snprintf(b, sizeof(b), "{\"e\":\"WCheck\",\"tid\":%lld,\"flag\":%lld}", a[0], a[1]); put_locked(b);
    }else if (e == "ln_checkout" && na == 3){ snprintf(b, sizeof(b), "{\"e\":\"Checkout\",\"tid\":%lld,\"s\":%lld,\"n\":%lld}", a[0], a[1], a[2]); put_locked(b);
    }
    // events of other components (wavelet cache, ...) are not part of this trace
}

// ------------------------------------------------------------------ hooks: schedule points (outside of the locks)
static std::mt19937& thread_rng(){
    static std::atomic<unsigned> counter(0);
    thread_local std::mt19937 rng(g_seed.load() * 7919u + 104729u * (++counter));
    return rng;
}
static void stall(int micro){ if (micro <= 0) std::this_thread::yield(); else std::this_thread::sleep_for(std::chrono::microseconds(micro)); }
static void sched_sink(const char *where){
    int mode = g_sched.load();
    if (mode == 0) return;
    if (std::strncmp(where, "pc:", 3) != 0 && std::strncmp(where, "ln:", 3) != 0) return;
    auto &rng = thread_rng();
    unsigned r = rng();
    if (mode == 1){ if (r % 2 == 0) std::this_thread::yield();
    }else if (mode == 2){ if (r % 3 == 0) stall((int) ((r >> 8) % 200));
    }else{ // long stalls at a few places: wake-ups and notifications overtake each other
        unsigned k = (r >> 4) % 16;
        if (k == 0) stall(500 + (int) ((r >> 8) % 1500));
        else if (k < 5) stall((int) ((r >> 8) % 100));
        else if (k < 9) std::this_thread::yield();
    }
}

// ------------------------------------------------------------------ crashes of the code under test leave their partial trace
static void crash_flush(const char *what){
    // best effort, no locking: the process is going down
    logbuf += std::string("{\"e\":\"Crashed\",\"what\":\"") + what + "\"}\n";
    flush_file();
    _exit(99);
}
static void on_terminate(){ crash_flush("terminate"); }
static void on_signal(int sig){ crash_flush(sig == SIGSEGV ? "SIGSEGV" : (sig == SIGABRT ? "SIGABRT" : "signal")); }

// ------------------------------------------------------------------ watchdog
static void watchdog(long long hang_ms){
    while(true){
        std::this_thread::sleep_for(std::chrono::milliseconds(100));
        long long st = scen_started_ms.load();
        // a hang = no event at all for hang_ms (a slow scenario keeps producing events)
        if (st >= 0 && now_ms() - std::max(st, last_event_ms.load()) > hang_ms){
            { std::lock_guard<std::mutex> lock(logm); put_locked("{\"e\":\"Hang\"}"); flush_file(); }
            _exit(97);
        }
        if (model_calls.load() > 20000 || (st >= 0 && now_ms() - st > 15 * hang_ms)){
            { std::lock_guard<std::mutex> lock(logm); put_locked("{\"e\":\"Runaway\"}"); flush_file(); }
            _exit(98);
        }
    }
}

// ------------------------------------------------------------------ the model
static double drive(int fmodel, const double *x, int id){
    switch(fmodel){
        case 0: { unsigned h = (unsigned) id * 2654435761u; return (double) ((h >> 7) % 1000) / 100.0; } // rough: surpluses never decay
        case 1: { double s = 0.0; for(int j=0; j<g_dims; j++) s += (j + 1) * x[j]; return std::exp(0.5 * s); }
        case 2: { double s = 1.0; for(int j=0; j<g_dims; j++) s += (j + 1) * x[j]; return s; }
        default: return 0.0;
    }
}
static void latency(size_t tid, int first_id){
    int mode = g_lat.load();
    if (mode == 0) return;
    auto &rng = thread_rng();
    unsigned r = rng();
    if (mode == 1){ if (tid == 0) stall(300 + (int) (r % 700)); }
    else if (mode == 2){ if (r % 4 != 0) stall((int) ((r >> 8) % 400)); }
    else if (mode == 3){ if (first_id % 5 == 2) stall(1500 + (int) (r % 1500)); }
    else { std::this_thread::yield(); }
}

static TasmanianSparseGrid make_grid(Scen const &s){
    std::vector<int> limits;
    if (s.limit >= 0) limits = std::vector<int>((size_t) s.dims, s.limit);
    const int nout = 2;
    if (s.fam == "localp")      return makeLocalPolynomialGrid(s.dims, nout, s.depth, s.order, rule_localp, limits);
    if (s.fam == "semilocalp")  return makeLocalPolynomialGrid(s.dims, nout, s.depth, std::max(2, s.order), rule_semilocalp, limits);
    if (s.fam == "localp0")     return makeLocalPolynomialGrid(s.dims, nout, s.depth, s.order, rule_localp0, limits);
    if (s.fam == "localpb")     return makeLocalPolynomialGrid(s.dims, nout, s.depth, s.order, rule_localpb, limits);
    if (s.fam == "wavelet")     return makeWaveletGrid(s.dims, nout, s.depth, 1, limits);
    if (s.fam == "global_cc")   return makeGlobalGrid(s.dims, nout, s.depth, type_level, rule_clenshawcurtis, std::vector<int>(), 0.0, 0.0, nullptr, limits);
    if (s.fam == "global_rleja")return makeGlobalGrid(s.dims, nout, s.depth, type_level, rule_rleja, std::vector<int>(), 0.0, 0.0, nullptr, limits);
    if (s.fam == "global_leja") return makeGlobalGrid(s.dims, nout, s.depth, type_level, rule_leja, std::vector<int>(), 0.0, 0.0, nullptr, limits);
    if (s.fam == "seq_leja")    return makeSequenceGrid(s.dims, nout, s.depth, type_level, rule_leja, std::vector<int>(), limits);
    if (s.fam == "seq_rleja")   return makeSequenceGrid(s.dims, nout, s.depth, type_level, rule_rleja, std::vector<int>(), limits);
    if (s.fam == "seq_minlebesgue") return makeSequenceGrid(s.dims, nout, s.depth, type_level, rule_minlebesgue, std::vector<int>(), limits);
    if (s.fam == "fourier")     return makeFourierGrid(s.dims, nout, s.depth, type_level, std::vector<int>(), limits);
    throw std::runtime_error("unknown family " + s.fam);
}

template<bool par, bool guess>
static void construct(Scen const &s, ModelSignature model, TasmanianSparseGrid &grid){
    size_t budget = (s.budget < 0) ? std::numeric_limits<size_t>::max() : (size_t) s.budget;
    std::vector<int> limits;
    if (s.limit >= 0) limits = std::vector<int>((size_t) s.dims, s.limit);
    if (grid.isLocalPolynomial() || grid.isWavelet()){
        static const TypeRefinement crits[] = {refine_classic, refine_parents_first, refine_direction_selective, refine_fds, refine_stable};
        constructSurrogate<par, guess>(model, budget, (size_t) s.jobs, (size_t) s.batch, grid, std::pow(10.0, -s.tolexp), crits[s.crit % 5], s.out, limits);
    }else if (s.ctype == 0){
        std::vector<int> w;
        for(int j=0; j<s.dims; j++) w.push_back(1 + j);
        constructSurrogate<par, guess>(model, budget, (size_t) s.jobs, (size_t) s.batch, grid, type_iptotal, w, limits);
    }else{
        constructSurrogate<par, guess>(model, budget, (size_t) s.jobs, (size_t) s.batch, grid, type_iptotal, s.out, limits);
    }
}

static void final_events(TasmanianSparseGrid &grid){
    // content of the grid after the call: (point, value tag, tag of the surrogate evaluated at the point)
    int n = grid.getNumLoaded();
    std::string s = "{\"e\":\"Final\",\"nl\":" + std::to_string(n) + ",\"pairs\":[";
    double maxdev = 0.0;
    if (n > 0){
        auto pts = grid.getLoadedPoints();
        const double *vals = grid.getLoadedValues();
        std::vector<double> yv;
        for(int i=0; i<n; i++){
            std::vector<double> xi(pts.begin() + (size_t) i * g_dims, pts.begin() + (size_t) (i + 1) * g_dims);
            grid.evaluate(xi, yv);
            maxdev = std::max(maxdev, std::fabs(yv[1] - vals[(size_t) i * g_nout + 1]));
            int id;
            { std::lock_guard<std::mutex> lock(logm); id = id_of_locked(xi.data()); }
            if (i) s += ",";
            s += "[" + std::to_string(id) + "," + std::to_string(tag_of(vals[(size_t) i * g_nout + 1])) + "," + std::to_string(tag_of(yv[1])) + "]";
        }
    }
    char dv[64]; snprintf(dv, sizeof(dv), "%.3e", maxdev);
    s += std::string("],\"maxdev\":\"") + dv + "\"}";
    std::lock_guard<std::mutex> lock(logm);
    put_locked(s);
}

static void run_scenario(Scen const &s){
    { std::lock_guard<std::mutex> lock(logm); point_ids.clear(); pending_load = false; }
    g_dims = s.dims; g_nout = 2;
    g_seed = s.seed; g_sched = s.sched; g_lat = s.lat;
    model_calls = 0;
    scen_started_ms = now_ms();      // the watchdog covers the set-up as well
    TasmanianSparseGrid grid = make_grid(s);
    g_grid = &grid;
    int fmodel = s.fmodel;

    if (s.mode == "ln"){
        // ------------------------------------------------ threaded loadNeededValues
        if (s.overwrite){ // needs loaded points: load garbage first
            grid.loadNeededValues(std::vector<double>((size_t) grid.getNumNeeded() * g_nout, -7.0));
        }
        auto pts = s.overwrite ? grid.getLoadedPoints() : grid.getNeededPoints();
        int n = (int) (pts.size() / (size_t) s.dims);
        { std::lock_guard<std::mutex> lock(logm);
          for(int i=0; i<n; i++) id_of_locked(pts.data() + (size_t) i * s.dims);      // sample i is named i+1
          char b[256]; snprintf(b, sizeof(b), "{\"e\":\"Reset\",\"mode\":\"ln\",\"nt\":%d,\"ns\":%d,\"par\":%s}", s.threads, n, (s.threads > 0) ? "true" : "false");
          put_locked(b); }
        auto model_arr = [&](double const x[], double y[], size_t tid)->void{
            int id; char b[160];
            { std::lock_guard<std::mutex> lock(logm); id = id_of_locked(x);
              snprintf(b, sizeof(b), "{\"e\":\"ModelBegin\",\"tid\":%d,\"s\":%d}", (int) tid, id - 1); put_locked(b); }
            model_calls++;
            latency(tid, id);
            y[0] = drive(fmodel, x, id); y[1] = (double) (id - 1);
            { std::lock_guard<std::mutex> lock(logm);
              snprintf(b, sizeof(b), "{\"e\":\"ModelEnd\",\"tid\":%d,\"s\":%d,\"v\":%d}", (int) tid, id - 1, id - 1); put_locked(b); }
        };
        auto model_vec = [&](std::vector<double> const &x, std::vector<double> &y, size_t tid)->void{ y.resize(2); model_arr(x.data(), y.data(), tid); };
        scen_started_ms = now_ms();
        try{
            if (s.vecsig){
                if (s.overwrite) loadNeededValues<true, true>(model_vec, grid, (size_t) s.threads); else loadNeededValues<true, false>(model_vec, grid, (size_t) s.threads);
            }else{
                if (s.overwrite) loadNeededValues<true, true>(model_arr, grid, (size_t) s.threads); else loadNeededValues<true, false>(model_arr, grid, (size_t) s.threads);
            }
            std::lock_guard<std::mutex> lock(logm); put_locked("{\"e\":\"End\"}");
        }catch(std::exception &ex){
            std::lock_guard<std::mutex> lock(logm); put_locked(std::string("{\"e\":\"Threw\",\"what\":\"") + ex.what() + "\"}");
        }
        scen_started_ms = -1;
        // values stored in the grid, in the order of the samples
        std::string f = "{\"e\":\"Final\",\"nl\":" + std::to_string(grid.getNumLoaded()) + ",\"vals\":[";
        if (grid.getNumLoaded() == n){
            auto lp = grid.getLoadedPoints(); const double *lv = grid.getLoadedValues();
            std::vector<long long> byid((size_t) n, -1);
            { std::lock_guard<std::mutex> lock(logm);
              for(int i=0; i<n; i++){ int id = id_of_locked(lp.data() + (size_t) i * s.dims); if (id >= 1 && id <= n) byid[(size_t) id - 1] = tag_of(lv[(size_t) i * g_nout + 1]); } }
            for(int i=0; i<n; i++){ if (i) f += ","; f += std::to_string(byid[(size_t) i]); }
        }
        f += "]}";
        { std::lock_guard<std::mutex> lock(logm); put_locked(f); }
        g_grid = nullptr;
        return;
    }

    // ---------------------------------------------------- constructSurrogate
    std::string init = "[";
    if (s.preload){
        auto pts = grid.getNeededPoints();
        int n = grid.getNumNeeded();
        std::vector<double> vals((size_t) n * g_nout);
        { std::lock_guard<std::mutex> lock(logm);
          for(int i=0; i<n; i++){
              int id = id_of_locked(pts.data() + (size_t) i * s.dims);
              vals[(size_t) i * g_nout] = drive(fmodel, pts.data() + (size_t) i * s.dims, id);
              vals[(size_t) i * g_nout + 1] = (double) id;
              if (i) init += ",";
              init += std::to_string(id);
          } }
        grid.loadNeededValues(vals);
    }
    init += "]";
    long long bcap = (s.budget < 0 || s.budget > 1000000) ? 1000000 : s.budget;
    { std::vector<char> bb(init.size() + 400); char *b = bb.data();
      TasGrid::VerifHooks::eagerLoadThreshold().store(s.eager);
      snprintf(b, bb.size(), "{\"e\":\"Reset\",\"mode\":\"%s\",\"nw\":%d,\"budget\":%lld,\"batch\":%d,\"par\":%s,\"guess\":%s,\"fam\":\"%s\",\"eager\":%d,\"init\":%s}",
               s.mode.c_str(), std::max(1, s.jobs), bcap, std::max(1, s.batch), (s.mode == "par") ? "true" : "false", s.guess ? "true" : "false", s.fam.c_str(), s.eager, init.c_str());
      std::lock_guard<std::mutex> lock(logm); put_locked(b); }

    auto model = [&](std::vector<double> const &x, std::vector<double> &y, size_t tid)->void{
        std::string ids; int first_id;
        size_t np = x.size() / (size_t) s.dims;
        { std::lock_guard<std::mutex> lock(logm);
          first_id = (np > 0) ? id_of_locked(x.data()) : 0;
          ids = ids_locked(x.data(), x.size());
          put_locked("{\"e\":\"ModelBegin\",\"tid\":" + std::to_string(tid) + ",\"pts\":" + ids + "}"); }
        model_calls++;
        latency(tid, first_id);
        y.resize(np * (size_t) g_nout);          // with an initial guess y may arrive empty
        std::string vals = "[";
        for(size_t i=0; i<np; i++){
            int id;
            { std::lock_guard<std::mutex> lock(logm); id = id_of_locked(x.data() + i * s.dims); }
            y[i * g_nout] = drive(fmodel, x.data() + i * s.dims, id);
            y[i * g_nout + 1] = (double) id;
            if (i) vals += ",";
            vals += std::to_string(id);
        }
        vals += "]";
        { std::lock_guard<std::mutex> lock(logm);
          put_locked("{\"e\":\"ModelEnd\",\"tid\":" + std::to_string(tid) + ",\"pts\":" + ids + ",\"vals\":" + vals + "}"); }
    };

    scen_started_ms = now_ms();
    try{
        if (s.mode == "par"){ if (s.guess) construct<mode_parallel, with_initial_guess>(s, model, grid); else construct<mode_parallel, no_initial_guess>(s, model, grid); }
        else                { if (s.guess) construct<mode_sequential, with_initial_guess>(s, model, grid); else construct<mode_sequential, no_initial_guess>(s, model, grid); }
        std::lock_guard<std::mutex> lock(logm); put_locked("{\"e\":\"End\"}");
    }catch(std::exception &ex){
        std::lock_guard<std::mutex> lock(logm); put_locked(std::string("{\"e\":\"Threw\",\"what\":\"") + ex.what() + "\"}");
    }
    scen_started_ms = -1;
    final_events(grid);
    g_grid = nullptr;
}

int main(int argc, char **argv){
    if (argc < 3){ fprintf(stderr, "usage: parconstruct_trace scenarios.txt trace.ndjson [hang_ms]\n"); return 2; }
    out_path = argv[2];
    { FILE *f = fopen(out_path, "w"); if (!f){ perror("open trace"); return 2; } fclose(f); }
    long long hang_ms = (argc > 3) ? atoll(argv[3]) : 20000;
    std::set_terminate(on_terminate);
    std::signal(SIGSEGV, on_signal); std::signal(SIGABRT, on_signal); std::signal(SIGFPE, on_signal); std::signal(SIGBUS, on_signal);
    VerifHooks::eventSink().store(event_sink);
    VerifHooks::schedSink().store(sched_sink);
    std::thread(watchdog, hang_ms).detach();
    std::ifstream in(argv[1]);
    std::string line;
    int index = 0;
    while(std::getline(in, line)){
        if (line.empty() || line[0] == '#') continue;
        Scen s;
        std::istringstream ls(line);
        std::string tok;
        while(ls >> tok){
            auto eq = tok.find('=');
            if (eq == std::string::npos) continue;
            std::string k = tok.substr(0, eq), v = tok.substr(eq + 1);
            if (k == "mode") s.mode = v; else if (k == "fam") s.fam = v;
            else if (k == "dims") s.dims = atoi(v.c_str()); else if (k == "order") s.order = atoi(v.c_str());
            else if (k == "depth") s.depth = atoi(v.c_str()); else if (k == "budget") s.budget = atoll(v.c_str());
            else if (k == "jobs") s.jobs = atoi(v.c_str()); else if (k == "batch") s.batch = atoi(v.c_str());
            else if (k == "crit") s.crit = atoi(v.c_str()); else if (k == "tolexp") s.tolexp = atoi(v.c_str());
            else if (k == "out") s.out = atoi(v.c_str()); else if (k == "limit") s.limit = atoi(v.c_str());
            else if (k == "fmodel") s.fmodel = atoi(v.c_str()); else if (k == "lat") s.lat = atoi(v.c_str());
            else if (k == "sched") s.sched = atoi(v.c_str()); else if (k == "preload") s.preload = atoi(v.c_str()); else if (k == "eager") s.eager = atoi(v.c_str());
            else if (k == "guess") s.guess = atoi(v.c_str()); else if (k == "ctype") s.ctype = atoi(v.c_str());
            else if (k == "threads") s.threads = atoi(v.c_str()); else if (k == "overwrite") s.overwrite = atoi(v.c_str());
            else if (k == "vecsig") s.vecsig = atoi(v.c_str()); else if (k == "seed") s.seed = (unsigned) atoll(v.c_str());
        }
        try{
            run_scenario(s);
        }catch(std::exception &ex){
            std::lock_guard<std::mutex> lock(logm);
            put_locked(std::string("{\"e\":\"SetupFailed\",\"what\":\"") + ex.what() + "\",\"index\":" + std::to_string(index) + "}");
        }
        scen_started_ms = -1;
        { std::lock_guard<std::mutex> lock(logm); flush_file(); }
        index++;
    }
    return 0;
}
