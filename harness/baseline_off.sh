#!/bin/bash
# Runs the repository's pinned test suite with the verification guard OFF (plain cmake build).
set -e
B=${VERIF_BASELINE_BUILD:-/repo/_build}
if [ ! -f $B/build.ninja ] && [ ! -f $B/Makefile ]; then cmake -G Ninja -S /repo -B $B -DCMAKE_BUILD_TYPE=RelWithDebInfo >/dev/null; fi
cmake --build $B -j16 >/dev/null
ctest --test-dir $B -j8 --timeout 900
