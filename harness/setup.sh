#!/bin/bash
# Offline setup: pre-build the library variants from /repo's working tree (checks rebuild when sources change).
set -e
cd /verif
harness/build.sh hooks >/dev/null
harness/build.sh serial >/dev/null
echo setup ok
