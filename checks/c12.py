"""C12 - const operations on one grid may run concurrently (default acceleration mode).

1. TLC model-checks spec/ConstCache.tla exhaustively (3 threads x 2 operations, every program,
   cache initially absent / present) for four disciplines of a lazily built shared cache:
   `pinned` (check -> build -> use on a mutable member) and `dcl` (check outside the lock) must
   violate NoConflict, `locked` and `local` must satisfy NoConflict / ResultsSequential.
2. Code -> spec: harness/const_threads_trace.cpp builds grids of the five families in the states
   fresh / loaded / refined / zero outputs / read from file (+ warm, merged, reloaded, copied),
   runs 2-4 threads of seeded const calls on one `const TasmanianSparseGrid&` with the H3 hooks
   (tsgGridWavelet.cpp) recording per-thread access programs, and compares every concurrent
   result with the same call made alone on an identical twin grid (`eq` bit).
3. spec/ConstCacheTrace.tla (TLC): (i) every recorded call obeys the per-operation access grammar,
   which also tells which discipline the code implements; (ii) the operations are re-executed by
   the model from the cache state left by the preparation and ALL interleavings are explored
   (NoConflict, ResultsSequential in every state; the recorded run must be among them);
   (iii) every `eq` bit is true.
Only hooked shared state is observed; the unhooked `mutable` / function-static / const_cast
declarations found in the sources are listed in the evidence as a coverage gap.
"""
import itertools
import json
import os
import random
import re

import vf

FAMS = ["global", "sequence", "localp", "wavelet", "fourier"]
BASE_STATES = ["fresh", "loaded", "refined", "zero", "file"]
EXTRA_STATES = ["warm", "merged", "reloaded", "copied", "zeroread"]
NOVALUES = {"fresh", "zero", "zeroread"}
CELL_NAMES = {("wavelet", 0): "inter_matrix"}
OP_NAMES = {"ev": "evaluate", "evv": "evaluate(vector)", "evb": "evaluateBatch", "evbv": "evaluateBatch(vector)",
            "evf": "evaluateFast", "giw": "getInterpolationWeights", "gqw": "getQuadratureWeights",
            "gdw": "getDifferentiationWeights", "int": "integrate", "dif": "differentiate",
            "ehf": "evaluateHierarchicalFunctions", "esh": "evaluateSparseHierarchicalFunctions",
            "ghc": "getHierarchicalCoefficients", "gpt": "getPoints", "glp": "getLoadedPoints", "gnp": "getNeededPoints",
            "glv": "getLoadedValues", "wra": "write(ascii)", "wrb": "write(binary)", "ihf": "integrateHierarchicalFunctions",
            "ghs": "getHierarchicalSupport", "gps": "getGlobalPolynomialSpace", "eac": "estimateAnisotropicCoefficients",
            "siz": "getNum*"}
AT_KIND = {"b1": "build", "c1": "check", "u1": "use", "b2": "built", "l1": "locked", "lw": "locked", "l2": "unlocked", "s0": "start"}
MAXCALLS = 10
_META = itertools.count()


def metadir():
    """unique TLC metadir (vf.run_tlc's default name can collide between python threads)"""
    return os.path.join(vf.WORK, "c12-meta", "m%d-%d" % (os.getpid(), next(_META)))


# ----------------------------------------------------------------------------- plan

def applicable_ops(fam, state, var):
    ops = ["gpt", "gnp", "siz", "wra", "wrb", "giw", "gqw", "gdw", "ehf", "ihf", "ghs"]
    if state not in ("zero", "zeroread"):
        # getLoadedPoints() on a grid without outputs overflows the caller's vector even when called alone
        # (sized by getNumLoaded() == 0, filled with getNumPoints() points): a sequential defect, not part of C12
        ops.append("glp")
    if state not in NOVALUES:
        ops += ["ev", "evv", "evb", "evbv", "evf", "int", "dif", "ghc", "glv"]
        if fam in ("sequence", "fourier") or (fam == "global" and state in ("refined", "merged", "reloaded")):
            ops.append("eac")
    if fam in ("localp", "wavelet"):
        ops.append("esh")
    if fam in ("global", "sequence"):
        ops.append("gps")
    return ops


def cache_ops(fam, state, var):
    if fam != "wavelet":
        return []
    c = ["giw", "gqw", "gdw"]
    if (var & 8) and state not in NOVALUES:
        c.append("int")            # integrate under a conformal map goes through the quadrature weights
    return c


def make_exec(rnd, xid, fam, state, nt, var=None, heavy=False):
    if var is None:
        var = rnd.randrange(32)
    ops_all = applicable_ops(fam, state, var)
    cops = cache_ops(fam, state, var)
    imm = [o for o in ops_all if o not in cops]
    cap = {2: 4, 3: 3, 4: 2}[nt] + (1 if heavy and nt > 2 else 0)
    threads = []
    for t in range(nt):
        n = rnd.randint(3, 7)
        prog = []
        nc = 0
        if cops:
            nc = rnd.randint(1, cap) if rnd.random() < 0.9 else 0
            nc = min(nc, n)
            prog += [rnd.choice(cops) for _ in range(nc)]
        prog += [rnd.choice(imm) for _ in range(n - nc)]
        rnd.shuffle(prog)
        threads.append(["%s:%d" % (o, rnd.randrange(40)) for o in prog])
    ypm = rnd.choice([0, 150, 400, 800])
    return {"x": xid, "fam": fam, "var": var, "state": state, "nt": nt, "ypm": ypm, "seed": rnd.randrange(1, 1 << 30),
            "threads": threads}


def plan_text(execs):
    L = []
    for E in execs:
        L.append("EXEC %d %s %d %s %d %d %d" % (E["x"], E["fam"], E["var"], E["state"], E["nt"], E["ypm"], E["seed"]))
        for t in E["threads"]:
            L.append("T " + " ".join(t))
    return "\n".join(L) + "\n"


def make_plan(rnd, quick):
    execs = []
    xid = 0
    reps = 1 if quick else 4
    for rep in range(reps):
        for fam in FAMS:
            for state in BASE_STATES + ([] if quick and fam != "wavelet" else EXTRA_STATES):
                for nt in (2, 3, 4):
                    xid += 1
                    execs.append(make_exec(rnd, xid, fam, state, nt, heavy=not quick))
    # cold-start bursts: every thread issues the same const query first, on an object on which no const query has run yet --
    # the schedule under which a lazily built, unguarded cache inside any const method shows (whatever family, whatever method)
    burst_ops = ["gqw", "int", "ihf", "giw", "gdw", "ev", "evb", "dif", "ehf", "ghs"]
    for fam in FAMS:
        for state in ("loaded", "fresh"):
            for op in burst_ops:
                if op not in applicable_ops(fam, state, 0):
                    continue
                for rep in range(3 if quick else 8):        # a race shows in a fraction of the runs: several fresh objects per query
                    xid += 1
                    nt = 4 if rep % 2 == 0 else 3
                    other = [o for o in burst_ops if o in applicable_ops(fam, state, 0) and o != op]
                    threads = [["%s:%d" % (op, rnd.randrange(40)), "%s:%d" % (rnd.choice(other), rnd.randrange(40)), "%s:%d" % (op, rnd.randrange(40))] for _ in range(nt)]
                    # variants of the family's grid (rule / order) alternate; for local polynomial grids bit 2 selects order 4 / -1
                    execs.append({"x": xid, "fam": fam, "var": (0, 2, 3)[rep % 3] if fam == "localp" else (0, 1)[rep % 2], "state": state, "nt": nt, "ypm": 0,
                                  "seed": rnd.randrange(1, 1 << 30), "threads": threads})
    # the wavelet family owns the only hooked cell: more seeds, all variant bits
    for rep in range(2 if quick else 10):
        for state in BASE_STATES + EXTRA_STATES:
            nt = rnd.choice((2, 3, 4)) if quick else (2, 3, 4)[rep % 3]
            xid += 1
            execs.append(make_exec(rnd, xid, "wavelet", state, nt, heavy=not quick))
    return execs


# ----------------------------------------------------------------------------- TLC on traces

def parse_verdict(out):
    """first verdict tuple printed by ConstCacheTrace"""
    m = re.search(r'<<\s*"REJECTED",\s*(\d+),\s*<<(.*?)>>\s*>>', out, re.S)
    if m:
        parts = [p.strip().strip('"') for p in m.group(2).split(",")]
        return ("REJECTED", int(m.group(1)), parts)
    m = re.search(r'<<\s*"RESULT_DIFFERS",\s*(\d+),\s*(\d+),\s*(\d+)\s*>>', out, re.S)
    if m:
        return ("RESULT_DIFFERS", int(m.group(1)), [int(m.group(2)), int(m.group(3))])
    m = re.search(r'<<\s*"CONFLICT",\s*(\d+),\s*<<(.*?)>>\s*>>', out, re.S)
    if m:
        parts = [p.strip().strip('"') for p in m.group(2).split(",")]
        return ("CONFLICT", int(m.group(1)), parts)
    m = re.search(r'<<\s*"MODEL_RESULT_BAD",\s*(\d+)\s*>>', out, re.S)
    if m:
        return ("MODEL_RESULT_BAD", int(m.group(1)), [])
    m = re.search(r'<<\s*"NO_WITNESS",\s*(\d+)\s*>>', out, re.S)
    if m:
        return ("NO_WITNESS", int(m.group(1)), [])
    return None


def validate_file(args):
    """validate one trace file; an offending execution is reported, removed, and the rest re-examined"""
    path, label = args
    rows = vf.read_ndjson(path)
    findings = []
    n_ok = 0
    gen = dist = 0
    rnd_no = 0
    runs = []
    while rows:
        rnd_no += 1
        cur = path + ".cur%d" % rnd_no
        vf.write_ndjson(cur, rows)
        r = vf.run_tlc("ConstCacheTrace.tla", "ConstCacheTrace.cfg", workers=1, timeout=1500, env={"TRACE": cur}, xmx="3g", metadir=metadir())
        gen += r.generated
        dist += r.distinct
        runs.append(r)
        if r.timed_out:
            raise vf.FrameworkError("trace validation timed out (%s)" % label)
        if r.ok():
            n_ok += len(rows)
            break
        v = parse_verdict(r.out)
        if v is None:
            raise vf.FrameworkError("trace validation failed without verdict (%s)\n%s" % (label, r.out[-3000:]))
        kind, xid, info = v
        bad = [row for row in rows if row["x"] == xid]
        if not bad:
            raise vf.FrameworkError("verdict names an unknown execution %d (%s)" % (xid, label))
        if kind == "REJECTED" and info and info[0] == "crash" and bad[0].get("phase", 3) < 3:
            kind = "SEQCRASH"     # died before any thread was started: no verdict about concurrency
        findings.append({"kind": kind, "info": info, "exec": bad[0], "tlc": r.error_trace[:6000] or r.out[-2500:]})
        rows = [row for row in rows if row["x"] != xid]
    return n_ok, findings, gen, dist


def call_of(E, t, k):
    try:
        return E["threads"][t - 1][k - 1]
    except Exception:
        return {"op": "?", "ev": []}


def signature(f):
    E = f["exec"]
    fam, state = E["fam"], E["state"]
    kind, info = f["kind"], f["info"]
    if kind == "CONFLICT":
        cell, w, wk, wat, o, ok_, oat = info
        cname = CELL_NAMES.get((fam, int(cell)), "cell%s" % cell)
        a = "%s.%s" % (OP_NAMES.get(call_of(E, int(w), int(wk))["op"], "?"), AT_KIND.get(wat, wat))
        b = "%s.%s" % (OP_NAMES.get(call_of(E, int(o), int(ok_))["op"], "?"), AT_KIND.get(oat, oat))
        desc = ("TLC found an interleaving of the recorded per-thread programs in which thread %s is inside the write section "
                "(rebuild) of %s during %s while thread %s is at its %s of the same cell during %s "
                "(grid: %s, state %s, %d threads; the recorded run itself need not have overlapped)"
                % (w, cname, a, o, AT_KIND.get(oat, oat), b, fam, state, E["nt"]))
        return "conflict:%s:%s:%s/%s" % (fam, cname, a, AT_KIND.get(oat, oat)), desc
    if kind == "REJECTED":
        if info and info[0] == "crash":
            return "crash:%s:%s:sig%s" % (fam, state, info[1]), "the threaded run died (signal/exit %s) on a %s grid in state %s" % (info[1], fam, state)
        if len(info) == 3:
            c = call_of(E, int(info[0]), int(info[1]))
            return ("reject:%s:%s:%s:%s" % (fam, state, info[2], c["op"]),
                    "recorded call %s (thread %s, call %s) is not a behaviour of the access grammar (%s): events %s"
                    % (OP_NAMES.get(c["op"], c["op"]), info[0], info[1], info[2], json.dumps(c.get("ev"))))
        return "reject:%s:%s:%s" % (fam, state, info[0] if info else "?"), "recorded execution rejected: %s" % (info,)
    if kind == "RESULT_DIFFERS":
        c = call_of(E, info[0], info[1])
        return ("result:%s:%s:%s" % (fam, state, c["op"]),
                "%s returned a different result when run concurrently than when run alone (%s grid, state %s, thread %d call %d): %s"
                % (OP_NAMES.get(c["op"], c["op"]), fam, state, info[0], info[1], c.get("diff")))
    if kind == "MODEL_RESULT_BAD":
        return "modelresult:%s:%s" % (fam, state), "an interleaving of the recorded programs lets a reader observe an incomplete cache"
    return "nowitness:%s:%s" % (fam, state), "the recorded check outcomes are not produced by any interleaving of the model (hooks / initial cache state out of step)"


# ----------------------------------------------------------------------------- unhooked mutable state

HOOKED = {"inter_matrix"}


def scan_sources():
    """`mutable` members, function-local non-const statics, const_cast in SparseGrids sources"""
    d = os.path.join(vf.REPO, "SparseGrids")
    out = []
    for fn in sorted(os.listdir(d)):
        if not (fn.endswith(".hpp") or fn.endswith(".cpp") or fn.endswith(".h")):
            continue
        if fn.startswith("gridtest") or fn == "tsgVerifHooks.hpp" or "Benchmark" in fn:
            continue
        for i, line in enumerate(open(os.path.join(d, fn), errors="replace"), 1):
            code = line.split("//")[0]
            s = code.strip()
            if s.startswith("*") or s.startswith("/*"):
                continue
            kind = None
            if re.search(r"\bmutable\b", code) and "[" not in code.split("mutable")[0][-3:] and not re.search(r"\)\s*mutable", code):
                kind = "mutable"
            elif "const_cast" in code:
                kind = "const_cast"
            elif re.match(r"\s+(thread_local\s+)?static\s+(?!const\b|constexpr\b|inline\b)[\w:<>,\s\*&]+?\s+\w+\s*(=|;|\{|\()", code) \
                    and not re.search(r"\)\s*(const)?\s*(\{|;)?\s*$", code.rstrip()) and "template" not in code:
                kind = "static"
                if "(" in code and ("=" not in code or code.index("(") < code.index("=")):
                    kind = None          # a static member function
            if kind:
                name = re.findall(r"(\w+)\s*(?:;|=|\{)", code)
                nm = name[-1] if name else s
                hooked = any(h in code for h in HOOKED)
                gpu = bool(re.search(r"gpu|Gpu|Cuda|acc_domain|engine", code)) or "Cuda" in fn or "Hip" in fn or "Dpcpp" in fn
                out.append({"file": "SparseGrids/" + fn, "line": i, "kind": kind, "decl": s[:140], "name": nm,
                            "hooked": hooked,
                            "scope": "hooked (H3)" if hooked else ("GPU / accelerated mode only (out of scope of C12)" if gpu else "CPU path: NOT OBSERVED")})
    return out


# ----------------------------------------------------------------------------- main

def run_design(ctx, wd, quick):
    """exhaustive model checking of the four disciplines; returns list of (label, result, expectation)"""
    spec = "MCSpec" if quick else "MCSpecFull"
    jobs = [("ConstCacheMC.cfg", "pinned", "NoConflict"), ("ConstCacheMCresults.cfg", "pinned-results", "ResultsSequential"),
            ("ConstCacheMCdcl.cfg", "dcl", "NoConflict"), ("ConstCacheMClocked.cfg", "locked", None),
            ("ConstCacheMClocal.cfg", "local", None), ("ConstCacheMC2cells.cfg", "locked-2cells", None)]
    if not quick:
        jobs += [("ConstCacheMClocked.cfg", "locked-4threads", None, {"Threads = {1,2,3}": "Threads = {1,2,3,4}", "MCSpecFull": "MCSpec"}),
                 ("ConstCacheMClocal.cfg", "local-4threads", None, {"Threads = {1,2,3}": "Threads = {1,2,3,4}", "MCSpecFull": "MCSpec"}),
                 ("ConstCacheMClocked.cfg", "locked-3ops", None, {"NOPS = 2": "NOPS = 3", "MCSpecFull": "MCSpec"})]

    def one(job):
        cfg, label, expect = job[0], job[1], job[2]
        txt = open(os.path.join(vf.SPEC, cfg)).read().replace("SPECIFICATION MCSpec", "SPECIFICATION " + spec)
        for a, b in (job[3] if len(job) > 3 else {}).items():
            txt = txt.replace(a, b)
        c = os.path.join(wd, "mc-%s.cfg" % label)
        open(c, "w").write(txt)
        return vf.run_tlc("ConstCache.tla", c, workers=4 if quick else 8, timeout=3000, xmx="6g", metadir=metadir())
    res = vf.parallel_map(one, jobs, nproc=len(jobs))
    return [(j[1], r, j[2]) for j, r in zip(jobs, res)]


def record_and_validate(ctx, execs, lib, drv, wd, tag="run"):
    """run the plan through the driver (sharded) and TLC; returns (n_ok, findings, recorded rows)"""
    shards = {}
    for i, E in enumerate(execs):
        key = ("w" if E["fam"] == "wavelet" else "o", (i // (3 if E["fam"] == "wavelet" else 40)))
        shards.setdefault(key, []).append(E)
    files = []
    for (k, idx), es in sorted(shards.items()):
        base = os.path.join(wd, "%s-%s%d" % (tag, k, idx))
        open(base + ".plan", "w").write(plan_text(es))
        files.append((base + ".plan", base + ".ndjson", es))

    def exec_one(f):
        p = vf.sh([drv, f[0], f[1], wd], timeout=900)
        return p.returncode, p.stderr[-500:]
    rcs = vf.parallel_map(exec_one, files, nproc=8)
    for f, (rc, err) in zip(files, rcs):
        if rc != 0:
            raise vf.FrameworkError("driver failed rc=%s on %s\n%s" % (rc, f[0], err))
    res = vf.parallel_map(validate_file, [(f[1], os.path.basename(f[1])) for f in files], nproc=16)
    n_ok = 0
    findings = []
    rows = []
    for (ok, fnd, gen, dist), f in zip(res, files):
        n_ok += ok
        ctx.states += dist
        ctx.transitions += gen
        for x in fnd:
            x["plan_file"], x["trace_file"] = f[0], f[1]
        findings += fnd
        rows += vf.read_ndjson(f[1])
    return n_ok, findings, rows


def report_findings(ctx, findings, execs_by_id):
    seq = [f for f in findings if f["kind"] == "SEQCRASH"]
    if seq:
        ctx.extra["executions_dropped_sequential_crash"] = [
            {"grid": "%s var=%d state=%s" % (f["exec"]["fam"], f["exec"]["var"], f["exec"]["state"]), "phase": f["exec"].get("phase"),
             "signal": f["exec"].get("sig"), "plan": plan_text([execs_by_id[f["exec"]["x"]]])} for f in seq][:10]
        print("NOTE C12: %d executions died in their sequential part (grid preparation or calls made alone) and were dropped: "
              "no verdict about concurrency (see evidence)" % len(seq))
    for f in findings:
        if f["kind"] == "SEQCRASH":
            continue
        sig, desc = signature(f)
        E = f["exec"]
        plan = plan_text([execs_by_id[E["x"]]]) if E["x"] in execs_by_id else ""
        ctx.report(sig, desc, {"plan": plan, "recorded_execution": E, "tlc": f["tlc"],
                               "how": "./check C12 --replay <this file>   (re-runs the plan on the current tree: driver + TLC on spec/ConstCacheTrace)"})


def observed_disciplines(rows):
    d = {}
    for E in rows:
        if E["fam"] != "wavelet":
            continue
        for t in E["threads"]:
            for c in t:
                names = [e["n"] for e in c["ev"]]
                if not names:
                    continue
                k = "locked" if names[0] == "lk" else ("local" if "lbb" in names else ("dcl" if "lk" in names else
                                                                                      ("pinned" if "bb" in names else "unlocked-present")))
                d[k] = d.get(k, 0) + 1
    return d


def binding_probes(ctx, rows, wd):
    """corrupt one recorded wavelet execution in several ways: each corruption must be rejected by TLC"""
    cands = [E for E in rows if E["fam"] == "wavelet" and E.get("complete") and E["nt"] <= 3
             and sum(1 for t in E["threads"] for c in t if any(e["n"] == "bb" for e in c["ev"])) >= 1
             and sum(1 for t in E["threads"] if any(c["ev"] for c in t)) >= 2]
    if not cands:
        return {"skipped": "no suitable recorded execution"}
    E0 = min(cands, key=lambda E: sum(len(c["ev"]) for t in E["threads"] for c in t))

    def clone():
        return json.loads(json.dumps(E0))

    def calls_with(E, name):
        return [(ti, ki) for ti, t in enumerate(E["threads"]) for ki, c in enumerate(t) if any(e["n"] == name for e in c["ev"])]
    probes = []
    # 1 drop one hook event (build_end) without renumbering
    E = clone(); ti, ki = calls_with(E, "be")[0]; c = E["threads"][ti][ki]
    c["ev"] = [e for e in c["ev"] if e["n"] != "be"]
    probes.append(("drop-build_end-event", E, "REJECTED"))
    # 2 drop the event and renumber consistently: only the grammar can tell
    E = clone(); ti, ki = calls_with(E, "be")[0]
    shift = 0
    for c in E["threads"][ti]:
        c["s0"] -= shift
        ev = []
        for e in c["ev"]:
            if c is E["threads"][ti][ki] and e["n"] == "be":
                shift += 1
                continue
            e["s"] -= shift
            ev.append(e)
        c["ev"] = ev
        c["s1"] -= shift
    probes.append(("drop-build_end-renumbered", E, "REJECTED"))
    # 3 corrupt a field: the check reports 'present' although a build follows
    E = clone(); ti, ki = calls_with(E, "bb")[0]
    for e in E["threads"][ti][ki]["ev"]:
        if e["n"] == "chk":
            e["p"] = 1
    probes.append(("flip-check-outcome", E, "REJECTED"))
    # 4 wrong cell
    E = clone(); ti, ki = calls_with(E, "ub")[0]
    E["threads"][ti][ki]["ev"][-1]["c"] = 1
    probes.append(("wrong-cell-id", E, "REJECTED"))
    # 5 cache events inside a call that must not touch the cache
    E = clone(); ti, ki = calls_with(E, "ub")[0]
    E["threads"][ti][ki]["op"] = "ev"
    probes.append(("cache-access-in-evaluate", E, "REJECTED"))
    # 6 one result differs from the call made alone
    E = clone(); E["threads"][0][0]["eq"] = False; E["threads"][0][0]["det"] = True
    probes.append(("eq-bit-false", E, "RESULT_DIFFERS"))
    # 7 the same recording with the lock / unlock events erased (= the access programs of the unrepaired code)
    E = clone()
    for t in E["threads"]:
        s = 0
        for c in t:
            c["s0"] = s; s += 1
            ev = [e for e in c["ev"] if e["n"] not in ("lk", "ul")]
            for e in ev:
                e["s"] = s; s += 1
            c["ev"] = ev
            c["s1"] = s; s += 1
    probes.append(("erase-lock-events", E, "CONFLICT"))
    # 8 initial cache state out of step with the recording (invalidate event of the preparation lost)
    E = clone()
    if any(e["n"] == "inv" for e in E["prep"]) and E["prep"][-1]["n"] == "inv":
        E["prep"] = E["prep"][:-1]
        probes.append(("lost-invalidate-event", E, "NO_WITNESS"))

    def one(pr):
        name, E, expect = pr
        p = os.path.join(wd, "probe-%s.ndjson" % name)
        vf.write_ndjson(p, [E])
        r = vf.run_tlc("ConstCacheTrace.tla", "ConstCacheTrace.cfg", workers=1, timeout=900, env={"TRACE": p}, xmx="2g", metadir=metadir())
        v = parse_verdict(r.out)
        return name, expect, (v[0] if v else ("accepted" if r.ok() else "error")), r
    res = vf.parallel_map(one, probes, nproc=8)
    out = {}
    for name, expect, got, r in res:
        out[name] = got
        ctx.states += r.distinct
        ctx.transitions += r.generated
        if got != expect:
            raise vf.FrameworkError("binding probe '%s' on execution %d: expected %s, TLC said %s\n%s" % (name, E0["x"], expect, got, r.out[-1500:]))
    out["on_execution"] = E0["x"]
    return out


def run(ctx):
    quick = ctx.quick
    lib = vf.build_lib("hooks")
    drv = vf.compile_driver("const_threads_trace.cpp", lib)
    wd = vf.workdir("c12")
    rnd = random.Random(ctx.seed * 7919 + 12)

    # ---- the plan and the recorded executions run while TLC checks the design
    execs = make_plan(rnd, quick)
    by_id = {E["x"]: E for E in execs}
    from concurrent.futures import ThreadPoolExecutor
    with ThreadPoolExecutor(max_workers=2) as ex:
        fut_design = ex.submit(run_design, ctx, wd, quick)
        fut_traces = ex.submit(record_and_validate, ctx, execs, lib, drv, wd)
        design = fut_design.result()
        n_ok, findings, rows = fut_traces.result()

    # ---- 1. design level
    for label, r, expect in design:
        vf.tlc_must_pass(r, "ConstCache " + label)
        ctx.add_tlc(r, "ConstCacheMC:" + label + (":expects-" + expect if expect else ""))
        if expect:
            if r.violated != expect:
                raise vf.FrameworkError("the %s model no longer violates %s (got %s): the specification lost its teeth" % (label, expect, r.violated))
        elif r.violated:
            ctx.report("spec:%s:%s" % (label, r.violated), "race-free design '%s' of ConstCache.tla violates %s" % (label, r.violated),
                       {"tlc": r.error_trace})
    ctx.extra["design_models"] = {"pinned": "NoConflict and ResultsSequential violated (as expected: model of the pinned wavelet code)",
                                  "dcl": "NoConflict violated (check outside the lock)",
                                  "locked": "holds", "local": "holds"}

    # ---- 2./3. conformance
    report_findings(ctx, findings, by_id)
    ctx.traces = n_ok
    ctx.extra["executions_recorded"] = len(execs)
    ctx.extra["executions_accepted"] = n_ok
    cover = {}
    calls = {}
    for E in rows:
        key = "%s/%s" % (E["fam"], E["state"])
        cover[key] = cover.get(key, 0) + 1
        for t in E["threads"]:
            for c in t:
                calls[OP_NAMES.get(c["op"], c["op"])] = calls.get(OP_NAMES.get(c["op"], c["op"]), 0) + 1
    ctx.extra["executions_per_family_state"] = cover
    ctx.extra["const_calls_made_concurrently"] = calls
    nondet = {}
    for E in rows:
        for t in E["threads"]:
            for c in t:
                if not c.get("det", True):
                    key = "%s/%s:%s" % (E["fam"], E["state"], OP_NAMES.get(c["op"], c["op"]))
                    nondet[key] = nondet.get(key, 0) + 1
    ctx.extra["calls_without_a_defined_result_when_run_alone"] = nondet
    if nondet:
        print("NOTE C12: %d recorded calls give different results on two identical grids even when run alone "
              "(sequential defect outside C12, eq bit not judged): %s" % (sum(nondet.values()), ", ".join(sorted(nondet))))
    ctx.extra["threads_per_execution"] = sorted({E["nt"] for E in rows})
    ctx.extra["cache_discipline_observed_in_wavelet_calls"] = observed_disciplines(rows)
    ctx.extra["foreign_hook_events_ignored"] = max([E.get("other", 0) for E in rows] or [0])
    wav = [E for E in rows if E["fam"] == "wavelet" and E.get("complete")]
    if wav:
        E = wav[len(wav) // 2]
        ctx.sample({"kind": "recorded execution (code->spec)", "x": E["x"], "grid": "%s var=%d state=%s" % (E["fam"], E["var"], E["state"]),
                    "prep": [e["n"] for e in E["prep"]],
                    "threads": [[{"op": c["op"], "eq": c["eq"], "ev": [e["n"] + (str(e["p"]) if e["n"] == "chk" else "") for e in c["ev"]]} for c in t] for t in E["threads"]]})
    oth = [E for E in rows if E["fam"] != "wavelet"]
    if oth:
        E = oth[len(oth) // 3]
        ctx.sample({"kind": "recorded execution (no hooked cell)", "grid": "%s var=%d state=%s" % (E["fam"], E["var"], E["state"]),
                    "threads": [[c["op"] for c in t] for t in E["threads"]]})

    # ---- binding: corrupted recordings must be rejected
    if not ctx.violations and not ctx.known_hits:
        ctx.extra["binding_probes_rejected_as"] = binding_probes(ctx, rows, wd)

    # ---- coverage gap
    scan = scan_sources()
    ctx.extra["coverage_gap_unhooked_mutable_or_static_state"] = [s for s in scan if not s["hooked"]]
    ctx.extra["hooked_state"] = [s for s in scan if s["hooked"]]
    ctx.extra["rule"] = ("one execution = one grid (family, variant bits, state) + 2..4 threads of seeded const calls on one const reference; "
                         "validated by TLC against ConstCacheTrace (grammar, all interleavings of the re-interpreted operations, eq bits)")
    ctx.assume("only hooked shared state is observed; unhooked mutable/static declarations listed under coverage gap "
               "(coverage_gap_unhooked_mutable_or_static_state): a race on memory no hook reports is visible only through a wrong result")
    ctx.assume("hook events are placed faithfully: build_begin/build_end bracket every write of the cell, use_begin/use_end every read, "
               "lock/unlock events are emitted while the mutex is held")
    ctx.assume("the result of a call made alone is taken from an identical twin grid built by the same deterministic recipe "
               "(a const call on the grid under test would itself change the cache state); calls on which two twins disagree "
               "even sequentially are listed under calls_without_a_defined_result_when_run_alone and their eq bit is not judged")
    ctx.assume("calls without cache events read immutable grid data only; they are left out of the interleaving exploration "
               "(they commute with every step) and are bound by the eq bit alone")
    ctx.assume("default acceleration mode (accel_none, no BLAS/GPU build); GPU caches and AccelerationContext are out of scope")


def replay(ctx, path):
    body = json.load(open(path))
    rp = body["replay"]
    lib = vf.build_lib("hooks")
    drv = vf.compile_driver("const_threads_trace.cpp", lib)
    wd = vf.workdir("c12-replay")
    rc = 0
    print("replay of %s\n  %s" % (body["signature"], body["description"][:400]))
    # (a) the stored recording, judged again by TLC
    if rp.get("recorded_execution"):
        p = os.path.join(wd, "stored.ndjson")
        vf.write_ndjson(p, [rp["recorded_execution"]])
        n_ok, fnd, _, _ = validate_file((p, "stored"))
        for f in fnd:
            print("  stored recording : %s" % signature(f)[0])
        print("  stored recording : %s" % ("accepted" if not fnd else "REJECTED"))
    # (b) the same plan on the current tree
    if rp.get("plan"):
        open(os.path.join(wd, "replay.plan"), "w").write(rp["plan"])
        p = vf.sh([drv, os.path.join(wd, "replay.plan"), os.path.join(wd, "replay.ndjson"), wd], timeout=600)
        if p.returncode != 0:
            raise vf.FrameworkError("driver failed on replay: " + p.stderr[-1000:])
        n_ok, fnd, _, _ = validate_file((os.path.join(wd, "replay.ndjson"), "replay"))
        for f in fnd:
            print("  current tree     : %s" % signature(f)[0])
            rc = 1
        print("  current tree     : %s" % ("accepted by TLC (no violation)" if not fnd else "VIOLATION reproduced"))
    return rc
