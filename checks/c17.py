"""C17 - constructSurrogate checkpoints let completed work survive a crash at any instant.

1. TLC model-checks spec/Checkpoint.tla (CheckpointMC) exhaustively: every kill point between and inside
   the file-system operations of the checkpoint protocol (torn prefixes of every write), up to two (three)
   crashes.  The scheme the code has to implement ("repaired") must satisfy all invariants; the scheme as
   documented and the scheme as coded in the pinned tree are checked too and their counterexamples recorded.
2. Spec -> code: the Gen configuration prints one crash history (one or two crashes, structural coordinates
   + torn length) per abstract crash edge; each is replayed on the REAL constructSurrogate: a child process
   under harness/ckpt_shim.so is killed at that file-system operation with that torn length, a fresh process
   restarts on the same file name (possibly killed again), the last life runs to completion.  On top of the
   TLC histories every operation index of an uninterrupted run is used as a kill point with a set of torn
   byte lengths (format boundaries: magic, end marker, sample-block header, sample data).
3. Code -> spec: the recorded event log of every history (all fs operations with file, mode, byte counts,
   size at open; every model call; kills; restarts; the final verdict bits) is validated by TLC as a
   behaviour of the specification (spec/CheckpointTrace.tla) with all invariants evaluated in every state.
   The uninterrupted run is a history with zero crashes.
4. Binding demonstration: one field of a recorded, accepted trace is corrupted -> TLC must reject it.
TLC is the only judge; the driver and this file contain no expected values.
"""
import json
import os
import random
import re
import resource
import shutil
import subprocess
import zlib

import vf

LEVEL = "model_checking"
MAXREPORT = 16
MAXROUNDS = 40      # TLC runs per trace file: every rejected history costs one more run


# ----------------------------------------------------------------------------- building / running
def build_shim(outdir):
    so = os.path.join(outdir, "ckpt_shim.so")
    p = vf.sh(["gcc", "-shared", "-fPIC", "-O1", "-o", so, os.path.join(vf.HARNESS, "ckpt_shim.c"), "-ldl"], timeout=120)
    if p.returncode != 0:
        raise vf.FrameworkError("shim build failed:\n" + p.stderr[-3000:])
    return so


def _limits():
    # a torn file can make the pinned reader ask for absurd amounts of memory
    resource.setrlimit(resource.RLIMIT_AS, (3 << 30, 3 << 30))
    resource.setrlimit(resource.RLIMIT_CORE, (0, 0))


class Tools:
    def __init__(self, drv, shim):
        self.drv, self.shim = drv, shim


def run_life(tools, cfg, d, kill=None, timeout=60):
    """one process life in directory d; returns (rc, timed_out)"""
    ck = os.path.join(d, "ck")
    log = os.path.join(d, "log")
    env = dict(os.environ)
    env.update({"LD_PRELOAD": tools.shim, "CKPT_SHIM_NAME": ck, "CKPT_SHIM_LOG": log})
    env.pop("CKPT_SHIM_KILL_AT", None)
    env.pop("CKPT_SHIM_KILL_TORN", None)
    if kill:
        env["CKPT_SHIM_KILL_AT"] = str(kill[0])
        env["CKPT_SHIM_KILL_TORN"] = str(kill[1])
    cmd = [tools.drv, cfg["family"], cfg["mode"], str(cfg["budget"]), str(cfg["batch"]), str(cfg["jobs"]), ck, log,
           str(cfg.get("seed", 1)), str(cfg.get("preload", 0))]
    try:
        p = subprocess.run(cmd, env=env, stdout=subprocess.DEVNULL, stderr=subprocess.DEVNULL, timeout=timeout, preexec_fn=_limits)
        return p.returncode, False
    except subprocess.TimeoutExpired:
        return 124, True


def read_log(d):
    rows = []
    p = os.path.join(d, "log")
    if not os.path.exists(p):
        return rows
    with open(p, errors="replace") as f:
        for line in f:
            line = line.strip()
            if not line:
                continue
            try:
                rows.append(json.loads(line))
            except ValueError:
                rows.append({"e": "garbled"})
    return rows


def lives_of(rows):
    out = []
    for r in rows:
        if r["e"] == "start":
            out.append([])
        if out:
            out[-1].append(r)
    return out


# ----------------------------------------------------------------------------- structure of a life's log
def label_ops(life_rows):
    """structural coordinates (ck, ph, op, j) of every indexed fs operation of one life; test-input selection only
    (whether the structure is the right one is decided by TLC on the trace)"""
    ops = []
    phase = "rec"
    ck = 0
    j = 0
    sess = None
    for r in life_rows:
        if r["e"] == "call":
            if phase == "rec":
                phase = "loop"
            continue
        if r["e"] == "kill" and r["op"] != "write":
            r = dict(r, e="fs")          # the operation the process was about to perform when it was killed
        if r["e"] != "fs" or "idx" not in r:
            continue
        op, f, m = r["op"], r.get("f"), r.get("m")
        lab = None
        if phase == "rec":
            if op == "open" and m == "r":
                lab = ("rec", "openmain" if f == "main" else "openold")
            elif op == "close" and m == "r":
                lab = ("rec", "closer")
            elif op == "open" and m == "w":
                phase, sess, j = "init", "init", 0
                lab = ("init", "open")
        elif phase == "init":
            if op == "write":
                j += 1
                lab = ("init", "write")
            elif op == "close" and m == "w":
                lab = ("init", "close")
                phase = "loop"
            elif op == "close" and m == "r":
                lab = ("rec", "closer")
        if lab is None and phase in ("loop", "copy", "write"):
            if op == "open" and m == "r":
                ck += 1
                phase = "copy"
                lab = ("copy", "openr")
            elif phase == "copy" and op == "open" and m == "w" and sess != "copyw":
                sess, j = "copyw", 0
                lab = ("copy", "openw")
            elif phase == "copy" and sess == "copyw" and op == "write":
                j += 1
                lab = ("copy", "write")
            elif phase == "copy" and sess == "copyw" and op == "close" and m == "w":
                sess = "copydone"
                lab = ("copy", "closew")
            elif phase == "copy" and op == "close" and m == "r":
                lab = ("copy", "closer")
                phase = "loop"
                sess = None
            elif op == "open" and m == "w":
                phase, sess, j = "write", "mainw", 0
                lab = ("write", "open")
            elif phase == "write" and op == "write":
                j += 1
                lab = ("write", "write")
            elif phase == "write" and op == "close" and m == "w":
                lab = ("write", "close")
                phase = "loop"
            elif op == "close" and m == "r":
                lab = ("rec", "closer")
        if lab is None:
            lab = ("other", op)
        ops.append({"idx": r["idx"], "ck": ck, "ph": lab[0], "op": lab[1], "j": j if lab[1] == "write" else 0,
                    "n": r.get("n", 0), "f": f})
    # number of writes of each session
    for o in ops:
        if o["op"] == "write":
            o["W"] = max(q["j"] for q in ops if q["op"] == "write" and q["ck"] == o["ck"] and q["ph"] == o["ph"])
    return ops


def torn_candidates(o, thorough):
    """torn byte lengths for a write of n bytes: 0 = killed before the write"""
    n = o["n"]
    c = {0}
    if n > 1:
        c |= {1, n // 2, n - 1}
        if o["j"] == 1:
            c |= {3, 4, 5}                      # around the magic
        if o["j"] == o.get("W", 1):
            c |= {n - 17, n - 16, n - 9, n - 8}   # end marker / header of the sample block
            if thorough:
                c |= {n - 24, n - 25, n - 40, n - 41, n - 60}
        if thorough:
            c |= {n // 3, (2 * n) // 3, 8, 9, 17}
    return sorted(t for t in c if 0 <= t < max(n, 1))


def locate(ops, desc, rnd):
    """real (index, torn bytes) of a crash descriptor printed by TLC, or None when this life has no such operation"""
    cands = [o for o in ops if o["ck"] == desc["ck"] and o["ph"] == desc["ph"] and o["op"] == desc["op"]]
    if not cands:
        return None
    if desc["op"] != "write":
        return (cands[0]["idx"], 0)
    W = cands[0].get("W", 1)
    of = max(desc["of"], 1)
    if desc["j"] <= 1:
        j = 1
    elif desc["j"] >= of:
        j = W
    else:
        j = 1 + ((desc["j"] - 1) * (W - 1)) // max(of - 1, 1)
    o = [q for q in cands if q["j"] == j]
    if not o:
        return None
    o = o[0]
    if desc["t"] == 0 or o["n"] <= 1:
        return (o["idx"], 0)
    opts = [t for t in torn_candidates(o, False) if t > 0]
    return (o["idx"], rnd.choice(opts) if opts else 0)


# ----------------------------------------------------------------------------- histories
class History:
    def __init__(self, cfg, crashes, origin):
        self.cfg, self.crashes, self.origin = cfg, crashes, origin
        self.rows = []
        self.rcs = []
        self.labels = []

    def key(self):
        return (json.dumps(self.cfg, sort_keys=True), tuple(tuple(c) for c in self.crashes))


def cfg_name(cfg):
    return "%s-%s-b%d-s%d-j%d-p%d-r%d" % (cfg["family"], cfg["mode"], cfg["budget"], cfg["batch"], cfg["jobs"], cfg.get("preload", 0), cfg.get("seed", 1))


def exec_history(tools, hist, d, start_from=None):
    """run the lives of a history in directory d (optionally continuing from a saved directory after the first crash)"""
    os.makedirs(d, exist_ok=True)
    crashes = list(hist.crashes)
    first = 0
    if start_from:
        for fn in os.listdir(start_from):
            shutil.copy(os.path.join(start_from, fn), os.path.join(d, fn))
        first = 1
        hist.rcs.append(-9)
    for i in range(first, len(crashes)):
        rc, to = run_life(tools, hist.cfg, d, kill=crashes[i])
        hist.rcs.append(124 if to else rc)
        if rc != -9:
            break           # the process ended by itself before the kill point: the history ends here
    else:
        rc, to = run_life(tools, hist.cfg, d)
        hist.rcs.append(124 if to else rc)
    hist.rows = read_log(d)
    return hist


def to_trace(hist, hid):
    """event log -> trace events for TLC (sample identities = order of first appearance)"""
    cfg = hist.cfg
    ids = {}
    ev = [{"e": "Reset", "budget": cfg["budget"], "batch": cfg["batch"], "par": cfg["mode"] == "par",
           # hierarchical families load every sample at once when parents come first (sequential order); in the
           # other cases a sample may wait in the construction buffer, so the loaded points are a subset
           "exact": cfg["family"] in ("localp", "localpb", "wavelet") and cfg["mode"] == "seq", "hid": hid}]
    for r in hist.rows:
        e = r.get("e")
        if e == "start":
            ev.append({"e": "start"})
        elif e == "call":
            k = tuple(r["x"])
            if k not in ids:
                ids[k] = len(ids) + 1
            ev.append({"e": "call", "s": ids[k]})
        elif e == "fs":
            q = {k: v for k, v in r.items() if k in ("e", "op", "f", "m", "tr", "ok", "sz", "n", "w", "r", "k", "to")}
            ev.append(q)
        elif e == "kill":
            ev.append({"e": "kill", "op": r["op"], "f": r["f"], "torn": r["torn"]})
        elif e == "end":
            loaded = [ids.get(tuple(p), 0) for p in r["pts"]]
            ev.append({"e": "end", "threw": r["threw"], "interp": r["interp"], "loaded": loaded,
                       "nloaded": r["nloaded"], "ncalls": r["ncalls"]})
        else:
            ev.append({"e": "garbled"})
    return ev, ids


def crash_labels(hist):
    """structural names of the kill points of a history (for signatures)"""
    out = []
    lives = lives_of(hist.rows)
    for i, c in enumerate(hist.crashes):
        if i >= len(lives):
            break
        ops = label_ops(lives[i])
        o = [q for q in ops if q["idx"] == c[0]]
        if not o:
            out.append("none")
            continue
        o = o[0]
        s = "%s.%s" % (o["ph"], o["op"])
        if o["op"] == "write":
            if c[1] > 0:
                n = o["n"]
                where = "magic" if (o["j"] == 1 and c[1] <= 4) else ("tail" if (o["j"] == o.get("W", 1) and n - c[1] <= 16) else "body")
                s += ".torn-" + where
            else:
                s += ".t0"
        out.append(s)
    return out


def classify(hist, trace, pos, inv, diag=None):
    """signature of a rejected history: what was rejected and where the process had been killed"""
    cfg = hist.cfg
    ev = trace[pos] if pos is not None and pos < len(trace) else None
    if inv in ("NothingCheckpointedIsLost", "RecoveredIsCheckpoint"):
        kind = "checkpointed-work-lost"
    elif inv:
        kind = "inv:" + inv
    elif ev is None:
        lv = lives_of(hist.rows)
        kind = "restart-died" if (not lv or not any(r.get("e") == "end" for r in lv[-1])) else "truncated"
    elif ev["e"] == "fs" and ev["op"] == "open" and ev.get("m") == "w":
        prev = [q for q in trace[:pos] if q["e"] == "fs" and q["op"] in ("open", "close", "write")]
        if prev and prev[-1]["op"] == "open" and prev[-1].get("m") == "r" and prev[-1]["f"] == "main" and ev["f"] == "main":
            kind = "backup-never-written"
        elif ev["f"] == "main":
            starts = [i for i, q in enumerate(trace[:pos]) if q["e"] == "start"]
            life = trace[starts[-1]:pos] if starts else []
            before = trace[:starts[-1]] if starts else []
            tried_old = any(q["e"] == "fs" and q["op"] == "open" and q["f"] == "old" for q in life)
            torn_main = any(q["e"] == "fs" and q["op"] == "write" and q.get("k") == 1 and q["f"] == "main" for q in before[-3:])
            kind = "torn-main-accepted-as-checkpoint" if (torn_main and not tried_old) else "reject:open-w-main"
        else:
            kind = "reject:open-w-" + ev["f"]
    elif ev["e"] == "call":
        # TLC's diagnostics register: what the specification's process held when the call could not be matched
        if diag and ev["s"] in diag.get("held", []):
            kind = "recomputes-checkpointed-sample"
        elif diag and diag.get("pc") == "rec_old":
            kind = "torn-main-accepted-as-checkpoint"      # the code computes on while the specification still has to try the backup
        elif diag and len(diag.get("held", [])) >= diag.get("budget", 0):
            # the life already holds `budget` samples; did it start from a recovered, non-empty state?
            kind = "budget-exceeded-after-recovery" if diag.get("rec") else "call-beyond-budget"
        else:
            kind = "reject:call"
    elif ev["e"] == "end":
        if ev["threw"]:
            kind = "restart-throws"
        elif not ev["interp"]:
            kind = "surrogate-not-interpolating"
        else:
            kind = "final-state-mismatch"
    elif ev["e"] == "fs":
        kind = "reject:%s-%s-%s" % (ev["op"], ev.get("m", ""), ev.get("f", ""))
    else:
        kind = "reject:" + ev["e"]
    labs = crash_labels(hist)
    if kind == "restart-throws" and labs:
        last = labs[-1]
        if "torn" in last or last.endswith(".t0") or last.endswith(".open"):
            kind = "restart-throws-after-torn-" + ("old" if last.startswith("copy") else "main")
    if len(labs) == 2 and kind in ("recomputes-checkpointed-sample", "restart-throws-after-torn-main", "checkpointed-work-lost"):
        kind = "two-crash:" + kind
    return "%s:%s:%s:%s" % (kind, cfg["family"] + ("+pre" if cfg.get("preload") else ""), cfg["mode"], "+".join(labs) if labs else "nocrash")


# ----------------------------------------------------------------------------- TLC validation of traces
def validate_chunk(args):
    """validate a list of (hist, trace) with as few TLC runs as possible; returns (n_ok, rejections, gen, dist)"""
    path, items, cfgpath = args
    rej = []
    n_ok = gen = dist = 0
    todo = list(items)
    rounds = 0
    while todo:
        rounds += 1
        cur = "%s.r%d" % (path, rounds)
        flat = [e for _, tr in todo for e in tr]
        vf.write_ndjson(cur, flat)
        r = vf.run_tlc("CheckpointTrace.tla", cfgpath, workers=1, timeout=900, env={"TRACE": cur}, xmx="2g")
        gen += r.generated
        dist += r.distinct
        if r.timed_out:
            raise vf.FrameworkError("trace validation timed out: " + cur)
        if r.ok():
            n_ok += len(todo)
            break
        m = re.search(r'"REJECTED_AT",\s*(\d+)', r.out)
        inv = None
        if r.violated and r.violated.startswith("T") and r.violated not in ("TInv",) and "Invariant %s is violated" % r.violated in r.out:
            full = r.out[r.out.find("The behavior up to this point is"):]      # (vf keeps only the head of long error traces)
            lm = re.findall(r"/\\ l = (\d+)", full)
            pos = max(int(lm[-1]) - 1, 1) if lm else 1                        # l = next event; the violating step consumed l - 1
            r.error_trace = full[-6000:]
            inv = r.violated
            if inv.startswith("T"):
                inv = inv[1:]
        elif m:
            pos = int(m.group(1))
        else:
            raise vf.FrameworkError("trace validation failed without verdict\n" + r.out[-3000:])
        acc = 0
        bad = len(todo) - 1
        for i, (_, tr) in enumerate(todo):
            if pos <= acc + len(tr):
                bad = i
                break
            acc += len(tr)
        h, tr = todo[bad]
        local = pos - acc - 1
        diag = {}
        dm = re.search(r'"REJECTED_AT", ?\d+, ?\[([^\]]*)\]', re.sub(r"\s+", " ", r.out))
        if dm and not inv:
            rec = dm.group(1)
            hm = re.search(r"held \|-> \{([^}]*)\}", rec)
            bm = re.search(r"budget \|-> (\d+)", rec)
            pm = re.search(r'pc \|-> "(\w+)"', rec)
            rm = re.search(r"rec \|-> \{([^}]*)\}", rec)
            diag = {"held": [int(x) for x in hm.group(1).replace(" ", "").split(",") if x] if hm else [],
                    "rec": [int(x) for x in rm.group(1).replace(" ", "").split(",") if x] if rm else [],
                    "budget": int(bm.group(1)) if bm else 0, "pc": pm.group(1) if pm else ""}
        rej.append({"hist": h, "trace": tr, "pos": local if local < len(tr) else None, "inv": inv, "diag": diag,
                    "tlc": r.error_trace[-2500:] if inv else ""})
        n_ok += bad
        todo = todo[bad + 1:]
        if len(rej) >= MAXROUNDS:
            break
    return n_ok, rej, gen, dist, (len(todo) if len(rej) >= MAXROUNDS and todo else 0)


# ----------------------------------------------------------------------------- the check
def mc_cfg(wd, name, **kw):
    t = open(os.path.join(vf.SPEC, "CheckpointMC.cfg")).read()
    for k, v in kw.items():
        t, n = re.subn(r"\b%s = \S+" % k, "%s = %s" % (k, v), t)
        if n != 1:
            raise vf.FrameworkError("cfg key %s not found" % k)
    p = os.path.join(wd, name + ".cfg")
    open(p, "w").write(t)
    return p


def gen_histories(wd, name, **kw):
    t = open(os.path.join(vf.SPEC, "CheckpointGen.cfg")).read()
    for k, v in kw.items():
        t, n = re.subn(r"\b%s = \S+" % k, "%s = %s" % (k, v), t)
        if n != 1:
            raise vf.FrameworkError("cfg key %s not found" % k)
    p = os.path.join(wd, name + ".cfg")
    open(p, "w").write(t)
    r = vf.run_tlc("CheckpointMC.tla", p, workers=1, timeout=900, xmx="4g")
    vf.tlc_must_pass(r, "CheckpointGen " + name)
    hs = [json.loads(json.loads(m)) for m in re.findall(r'<<"CRASHES", ("(?:[^"\\]|\\.)*")>>', r.out)]
    return r, hs


def configs(ctx):
    q = ctx.quick
    c = []
    for fam in ["localp", "sequence", "wavelet", "global"] + ([] if q else ["fourier", "localpb"]):
        c.append({"family": fam, "mode": "seq", "budget": 3, "batch": 1, "jobs": 1, "seed": 1, "preload": 0})
    # a caller grid that already owns > 1000 samples: several write(2) chunks per file and a non-empty trailing sample block
    c.append({"family": "localp", "mode": "seq", "budget": 3, "batch": 1, "jobs": 1, "seed": 1, "preload": 8})
    c.append({"family": "sequence", "mode": "seq", "budget": 4, "batch": 2, "jobs": 1, "seed": 1, "preload": 0})
    if not q:
        c.append({"family": "global", "mode": "seq", "budget": 4, "batch": 2, "jobs": 1, "seed": 1, "preload": 0})
        c.append({"family": "wavelet", "mode": "seq", "budget": 4, "batch": 1, "jobs": 1, "seed": 1, "preload": 6})
        c.append({"family": "localp", "mode": "seq", "budget": 5, "batch": 2, "jobs": 1, "seed": 1, "preload": 8})
    # parallel mode, seeded schedules (model latencies follow the seed)
    npar = 2 if q else 4
    for s in range(npar):
        c.append({"family": "localp", "mode": "par", "budget": 4, "batch": 1, "jobs": 2, "seed": ctx.seed * 100 + s, "preload": 0})
    if not q:
        c.append({"family": "sequence", "mode": "par", "budget": 4, "batch": 1, "jobs": 2, "seed": ctx.seed * 100 + 7, "preload": 0})
        c.append({"family": "localp", "mode": "par", "budget": 4, "batch": 1, "jobs": 2, "seed": ctx.seed * 100 + 9, "preload": 8})
    return c


def plan_and_run(ctx, tools, wd, cfg, gen_hs, rnd, budget_hist):
    """all histories of one configuration; returns list of executed History objects"""
    name = cfg_name(cfg)
    base = os.path.join(wd, name)
    os.makedirs(base, exist_ok=True)
    done = []
    # 0 crashes: the uninterrupted run
    h0 = exec_history(tools, History(cfg, [], "uninterrupted"), os.path.join(base, "h0"))
    done.append(h0)
    lives = lives_of(h0.rows)
    if not lives:
        raise vf.FrameworkError("driver produced no log for " + name)
    ops1 = label_ops(lives[0])
    par = cfg["mode"] == "par"
    # single crashes: every operation index x torn lengths (+ the TLC single-crash histories, which are a subset)
    singles = []
    for o in ops1:
        ts = torn_candidates(o, not ctx.quick) if o["op"] == "write" else [0]
        if ctx.quick and len(ts) > 4:
            keep = {0, ts[-1]}
            keep |= set(rnd.sample(ts[1:-1], 2))
            ts = sorted(keep)
        for t in ts:
            singles.append((o["idx"], t))
    if par and ctx.quick:
        singles = rnd.sample(singles, min(len(singles), 24))
    doubles_desc = [h for h in gen_hs if len(h) == 2]
    # group the two-crash histories of TLC by their first crash
    groups = {}
    for hdesc in doubles_desc:
        first = locate(ops1, hdesc[0], random.Random(zlib.crc32(json.dumps(hdesc[0], sort_keys=True).encode())))
        if first is None:
            continue
        groups.setdefault(first, []).append(hdesc[1])
    firsts = sorted(set(singles) | set(groups.keys()))
    if len(firsts) > budget_hist["singles"]:
        must = sorted(set(groups.keys()))
        rest = [f for f in firsts if f not in groups]
        firsts = sorted(set(must[:budget_hist["singles"]] + rnd.sample(rest, max(0, min(len(rest), budget_hist["singles"] - len(must))))))
    unmapped = 0

    def do_first(first):
        out = []
        d1 = os.path.join(base, "c%d_%d" % first)
        os.makedirs(d1, exist_ok=True)
        rc, to = run_life(tools, cfg, d1, kill=first)
        if rc != -9:
            # no kill happened (index beyond the last operation): nothing to learn beyond the uninterrupted run
            shutil.rmtree(d1, ignore_errors=True)
            return out, 0
        # the single-crash history: restart in a copy (the saved directory stays as the state right after the crash)
        hs = History(cfg, [first], "single")
        exec_history(tools, hs, d1 + "_r", start_from=d1)
        out.append(hs)
        miss = 0
        seconds = groups.get(first, [])
        if not par and seconds:
            lv = lives_of(hs.rows)
            ops2 = label_ops(lv[1]) if len(lv) > 1 else []
            seen = set()
            lr = random.Random((first[0] * 7919 + first[1]) ^ ctx.seed)
            if len(seconds) > budget_hist["second_per_first"]:
                seconds = lr.sample(seconds, budget_hist["second_per_first"])
            for sd in seconds:
                loc = locate(ops2, sd, lr)
                if loc is None:
                    miss += 1
                    continue
                if loc in seen:
                    continue
                seen.add(loc)
                h2 = History(cfg, [first, loc], "tlc-two-crash")
                exec_history(tools, h2, d1 + "_x%d_%d" % loc, start_from=d1)
                out.append(h2)
                shutil.rmtree(d1 + "_x%d_%d" % loc, ignore_errors=True)
        elif par and seconds:
            # parallel lives are not reproducible: second kill points are op indexes drawn with the seed
            lr = random.Random((first[0] * 7919 + first[1]) ^ ctx.seed)
            for _ in range(min(2, budget_hist["second_per_first"])):
                loc = (lr.randint(1, 12), 0)
                h2 = History(cfg, [first, loc], "seeded-two-crash")
                exec_history(tools, h2, d1 + "_x%d_%d" % loc, start_from=d1)
                out.append(h2)
                shutil.rmtree(d1 + "_x%d_%d" % loc, ignore_errors=True)
        shutil.rmtree(d1, ignore_errors=True)
        shutil.rmtree(d1 + "_r", ignore_errors=True)
        return out, miss

    for out, miss in vf.parallel_map(do_first, firsts, nproc=vf.NCPU):
        done += out
        unmapped += miss
    ctx.extra.setdefault("tlc_crash_points_without_counterpart_in_code", 0)
    ctx.extra["tlc_crash_points_without_counterpart_in_code"] += unmapped
    return done


def report_rejection(ctx, rj, reported):
    h, tr, pos = rj["hist"], rj["trace"], rj["pos"]
    sig = classify(h, tr, pos, rj["inv"], rj.get("diag"))
    ev = tr[pos] if pos is not None and pos < len(tr) else None
    what = ("invariant %s violated by a recorded history" % rj["inv"]) if rj["inv"] else \
           ("first event that is not a step of Checkpoint.tla: %s" % json.dumps(ev))
    endrows = [r for r in h.rows if r.get("e") == "end"]
    desc = ("constructSurrogate %s, kills at (fs-op index, torn bytes) %s [%s]: %s; last life ended with %s; exit codes %s"
            % (cfg_name(h.cfg), h.crashes, ", ".join(crash_labels(h)), what,
               json.dumps({k: endrows[-1].get(k) for k in ("threw", "what", "interp", "nloaded", "ncalls")}) if endrows else "no end event",
               h.rcs))
    if len(reported) >= MAXREPORT and sig not in reported:
        ctx.extra["violations_not_listed"] = ctx.extra.get("violations_not_listed", 0) + 1
        return
    reported.add(sig)
    ctx.report(sig, desc, {"cfg": h.cfg, "crashes": [list(c) for c in h.crashes], "rejected_event_index": pos,
                           "trace": tr[:(pos + 3 if pos is not None else None)][-60:], "tlc": rj["tlc"],
                           "how": "./check C17 --replay <this file>"})


def validate_all(ctx, wd, hists, label):
    """TLC judges every executed history; returns number accepted"""
    items = []
    for i, h in enumerate(hists):
        tr, _ = to_trace(h, "%s-%d" % (label, i))
        items.append((h, tr))
    per = 30
    chunks = []
    for ci in range(0, len(items), per):
        chunks.append((os.path.join(wd, "trace-%s-%d.ndjson" % (label, ci)), items[ci:ci + per],
                       os.path.join(vf.SPEC, "CheckpointTrace.cfg")))
    res = vf.parallel_map(validate_chunk, chunks, nproc=vf.NCPU)
    n_ok = 0
    rejs = []
    left = 0
    for ok, rj, gen, dist, unexamined in res:
        n_ok += ok
        rejs += rj
        left += unexamined
        ctx.states += dist
        ctx.transitions += gen
    return n_ok, rejs, left


def binding_demo(ctx, wd, hist):
    """corrupt one field of an accepted recorded trace: TLC has to reject it"""
    tr, _ = to_trace(hist, "binding")
    cfgp = os.path.join(vf.SPEC, "CheckpointTrace.cfg")
    results = []

    def judge(t, tag):
        p = os.path.join(wd, "binding-%s.ndjson" % tag)
        vf.write_ndjson(p, t)
        r = vf.run_tlc("CheckpointTrace.tla", cfgp, workers=1, timeout=300, env={"TRACE": p}, xmx="2g")
        m = re.search(r'"REJECTED_AT",\s*(\d+)', r.out)
        if r.timed_out or (r.rc != 0 and not r.violated and not m):
            raise vf.FrameworkError("binding demo: TLC failed\n" + r.out[-2000:])
        return r.ok(), (int(m.group(1)) if m else None)

    ok0, _ = judge(tr, "orig")
    if not ok0:
        return {"skipped": "the uninterrupted trace is itself rejected on this tree"}
    muts = []
    # (1) the file opened for the backup copy
    for i, e in enumerate(tr):
        if e["e"] == "fs" and e["op"] == "open" and e.get("m") == "w" and e["f"] == "old":
            t2 = [dict(x) for x in tr]
            t2[i]["f"] = "main"
            muts.append(("copy-target old->main", i, t2))
            break
    # (2) one byte count of a write
    for i, e in enumerate(tr):
        if e["e"] == "fs" and e["op"] == "write" and e["f"] == "old":
            t2 = [dict(x) for x in tr]
            t2[i]["n"] += 1
            t2[i]["w"] += 1
            muts.append(("copy write length +1", i, t2))
            break
    # (3) the size found when main is opened
    for i, e in enumerate(tr):
        if e["e"] == "fs" and e["op"] == "open" and e.get("m") == "r" and e.get("ok") == 1:
            t2 = [dict(x) for x in tr]
            t2[i]["sz"] += 1
            muts.append(("size at open +1", i, t2))
            break
    # (4) a sample computed twice
    calls = [i for i, e in enumerate(tr) if e["e"] == "call"]
    if len(calls) >= 2:
        t2 = [dict(x) for x in tr]
        t2[calls[1]]["s"] = t2[calls[0]]["s"]
        muts.append(("second call repeats the first sample", calls[1], t2))
    # (5) the interpolation bit
    t2 = [dict(x) for x in tr]
    t2[-1]["interp"] = 0
    muts.append(("interp bit cleared", len(tr) - 1, t2))
    for k, (what, i, t2) in enumerate(muts):
        ok, pos = judge(t2, "m%d" % k)
        results.append({"mutation": what, "line": i + 1, "accepted": ok, "rejected_at": pos})
        if ok:
            raise vf.FrameworkError("binding demo: corrupted trace accepted (%s)" % what)
    return {"original_accepted": True, "mutations": results}


def run(ctx):
    quick = ctx.quick
    wd = vf.workdir("c17")
    rnd = random.Random(ctx.seed)
    lib = vf.build_lib("serial")
    tools = Tools(vf.compile_driver("ckpt_crash.cpp", lib), build_shim(wd))

    # ---- 1. exhaustive model checking of the design
    target = [("repaired-2crash", dict(MAXCRASH=2)), ("repaired-batch2", dict(BATCH=2, BUDGET=4, NCHUNK=2)),
              ("repaired-3crash", dict(MAXCRASH=3, NCHUNK=2 if quick else 3))]
    if not quick:
        target.append(("repaired-units3", dict(UNITS=3, NCHUNK=2, MAXCRASH=2)))
    diag = [("documented-1crash", dict(SCHEME='"documented"', MAXCRASH=1)),
            ("documented-2crash", dict(SCHEME='"documented"', MAXCRASH=2)),
            ("coded-1crash", dict(SCHEME='"coded"', READER='"coded"', MAXCRASH=1, UNITS=3, NCHUNK=1)),
            ("documented-codedreader-1crash", dict(SCHEME='"documented"', READER='"coded"', MAXCRASH=1, UNITS=3, NCHUNK=1))]

    def mc(item):
        name, kw = item
        return vf.run_tlc("CheckpointMC.tla", mc_cfg(wd, name, **kw), workers=4, timeout=900, xmx="4g")

    res = vf.parallel_map(mc, target + diag, nproc=4)
    for (name, kw), r in zip(target + diag, res):
        vf.tlc_must_pass(r, name)
        ctx.add_tlc(r, "CheckpointMC:" + name)
        if (name, kw) in target:
            if r.violated:
                ctx.report("spec:%s:%s" % (name, r.violated), "Checkpoint.tla (scheme the code has to implement) violates %s in %s" % (r.violated, name),
                           {"tlc": r.error_trace})
        else:
            hh = re.findall(r"/\\ h = (<<.*?>>)\n/\\", r.error_trace, re.S)
            ctx.extra.setdefault("diagnostic_models", []).append(
                {"model": name, "violates": r.violated,
                 "crash_history": re.sub(r"\s+", " ", hh[-1])[:600] if hh else None})

    # ---- 2. crash histories from TLC
    gens = {}
    for scheme in ["repaired", "documented"]:
        for nch in ([1] if quick else [1, 2, 3]):
            r, hs = gen_histories(wd, "gen-%s-n%d" % (scheme, nch), NCHUNK=nch, SCHEME='"%s"' % scheme)
            ctx.add_tlc(r, "CheckpointGen:%s,nchunk=%d" % (scheme, nch))
            gens[(scheme, nch)] = hs
    seen = set()
    allgen = []
    for hs in gens.values():
        for h in hs:
            k = json.dumps(h, sort_keys=True)
            if k not in seen:
                seen.add(k)
                allgen.append(h)
    # de-duplicate by structural coordinates (ignoring chunk counts when they address the same operations)
    ctx.extra["tlc_crash_histories"] = {"single": sum(1 for h in allgen if len(h) == 1), "double": sum(1 for h in allgen if len(h) == 2)}
    if allgen:
        two = [h for h in allgen if len(h) == 2]
        ctx.sample({"kind": "TLC crash history (spec->code)", "history": two[len(two) // 3] if two else allgen[0]})

    # ---- 3. the real code
    lim = {"singles": 90 if quick else 100000, "second_per_first": 5 if quick else 1000}
    hists = []
    only = os.environ.get("VERIF_C17_ONLY", "")      # debugging aid: restrict the configurations by name
    for cfg in configs(ctx):
        if only and only not in cfg_name(cfg):
            continue
        hists += plan_and_run(ctx, tools, wd, cfg, allgen, rnd, lim)
    # identical (cfg, kill list) only once
    uniq = {}
    for h in hists:
        uniq.setdefault(h.key(), h)
    hists = list(uniq.values())
    ctx.extra["histories_executed"] = {"total": len(hists),
                                       "uninterrupted": sum(1 for h in hists if not h.crashes),
                                       "one_crash": sum(1 for h in hists if len(h.crashes) == 1),
                                       "two_crashes": sum(1 for h in hists if len(h.crashes) == 2),
                                       "process_lives": sum(len(h.rcs) for h in hists)}
    import time as _t
    t_exec = _t.time() - ctx.t0
    n_ok, rejs, left = validate_all(ctx, wd, hists, "all")
    ctx.extra["wall_s_until_all_histories_executed"] = round(t_exec, 1)
    ctx.extra["wall_s_trace_validation"] = round(_t.time() - ctx.t0 - t_exec, 1)
    ctx.traces = n_ok
    ctx.extra["histories_unexamined_after_repeated_rejections"] = left
    reported = set()
    # uninterrupted runs first (they explain most of the rest), then one history of every kind of rejection
    rejs.sort(key=lambda rj: (len(rj["hist"].crashes), cfg_name(rj["hist"].cfg)))
    sigs = [classify(rj["hist"], rj["trace"], rj["pos"], rj["inv"], rj.get("diag")) for rj in rejs]
    kinds = {}
    for sg in sigs:
        k = ":".join(sg.split(":")[:-1])        # kind : family : mode (without the kill-point labels)
        kinds[k] = kinds.get(k, 0) + 1
    ctx.extra["rejections_by_kind"] = kinds
    seen_kind = set()
    order = []
    for i, sg in enumerate(sigs):
        k = sg.split(":")[0] if not sg.startswith("two-crash") else ":".join(sg.split(":")[:2])
        if k not in seen_kind:
            seen_kind.add(k)
            order.append(i)
    order += [i for i in range(len(rejs)) if i not in set(order)]
    for i in order:
        report_rejection(ctx, rejs[i], reported)
    ctx.extra["histories_rejected"] = len(rejs)

    # ---- 4. binding demonstration on the first uninterrupted sequential run
    h0 = [h for h in hists if not h.crashes and h.cfg["mode"] == "seq"]
    if h0:
        ctx.extra["binding_demo"] = binding_demo(ctx, wd, h0[0])

    single = [h for h in hists if len(h.crashes) == 1]
    if single:
        h = single[len(single) // 2]
        tr, _ = to_trace(h, "sample")
        ctx.sample({"kind": "recorded crash history (code->spec)", "cfg": cfg_name(h.cfg), "kills": h.crashes, "events": tr[:40]})
    ctx.extra["rule"] = ("one trace = one crash history = event log of 1-3 process lives of the real constructSurrogate under the "
                         "LD_PRELOAD shim (kill = SIGKILL at a file-system operation index after a torn prefix of the write)")
    ctx.assume("no reordering below write/close: what write(2) returned is on the disk, in order; no fsync / power-loss model")
    ctx.assume("a write killed inside lands a strict prefix (torn write); open(O_TRUNC), close, and the kill itself are atomic")
    ctx.assume("the caller restarts with the same initial grid, model, budget and file name; checkpoint files are not touched by anyone else")
    ctx.assume("sample identity = point coordinates; the sequential construction is deterministic given the recovered state")
    ctx.assume("parallel mode: which finished samples the main thread had collected before a checkpoint is not observable, "
               "TLC searches for a consistent choice (seeded schedules only)")


def replay(ctx, path):
    body = json.load(open(path))
    rp = body["replay"]
    wd = vf.workdir("c17-replay")
    lib = vf.build_lib("serial")
    tools = Tools(vf.compile_driver("ckpt_crash.cpp", lib), build_shim(wd))
    h = History(rp["cfg"], [tuple(c) for c in rp["crashes"]], "replay")
    exec_history(tools, h, os.path.join(wd, "h"))
    n_ok, rejs, _ = validate_all(ctx, wd, [h], "replay")
    for r in h.rows:
        if r.get("e") != "fs" or r.get("op") != "read":
            print(json.dumps(r)[:220])
    if rejs:
        print("REJECTED by TLC: %s" % classify(h, rejs[0]["trace"], rejs[0]["pos"], rejs[0]["inv"], rejs[0].get("diag")))
        return 1
    print("ACCEPTED by TLC (history is a behaviour of Checkpoint.tla, all invariants hold)")
    return 0


def selftest(ctx):
    wd = vf.workdir("c17-selftest")
    lib = vf.build_lib("serial")
    tools = Tools(vf.compile_driver("ckpt_crash.cpp", lib), build_shim(wd))
    cfg = {"family": "localp", "mode": "seq", "budget": 3, "batch": 1, "jobs": 1, "seed": 1, "preload": 0}
    h0 = exec_history(tools, History(cfg, [], "uninterrupted"), os.path.join(wd, "h0"))
    print(json.dumps(binding_demo(ctx, wd, h0), indent=1))
    return 0
