"""C14 - misuse is reported by the documented exceptions and never corrupts a grid."""
import random
import gridlib as gl


def run(ctx):
    rnd = random.Random(ctx.seed + 1414)
    n = 200 if ctx.quick else 1200
    scens = [gl.history(rnd, "b%d" % i, steps=rnd.randint(5, 11), with_bad=True, with_construct=True, with_copy=(i % 3 == 0)) for i in range(n)]
    gl.run_grid(ctx, [("misuse", scens), ("mixed", gl.mixed_family(rnd, max(40, n // 5)))], gl.OBS_NODAL, "C14")
    ctx.assume("misuse calls are issued only in states the documented throws-clauses cover; raw-pointer overloads documented as unchecked are not misused")


def replay(ctx, path):
    return gl.replay(ctx, path, "C14", gl.OBS_NODAL)
