"""C01 - the interpolant reproduces the loaded values at every loaded point (all evaluation routes)."""
import random
import gridlib as gl
import vf


def run(ctx):
    rnd = random.Random(ctx.seed + 101)
    n = 240 if ctx.quick else 5000
    scens = [gl.history(rnd, "n%d" % i, steps=rnd.randint(3, 9), with_construct=True, with_transform=True) for i in range(n)]
    gen = gl.mc_and_scripts(ctx, ['localp2', 'globalcc', 'seq'], rnd, 80 if ctx.quick else 1500, maxlen=None if ctx.quick else 5, genlen=3 if ctx.quick else 4, mc=False)
    gl.run_grid(ctx, gen + [("nodal", scens)], gl.OBS_NODAL, "C01")
    ctx.assume("reproduction is judged by an observer at 1e-9 relative tolerance on integer token values; the spec decides when the property applies (local polynomial grids: all parents loaded)")


def replay(ctx, path):
    return gl.replay(ctx, path, "C01", gl.OBS_NODAL)
