"""C01 - the interpolant reproduces the loaded values at every loaded point (all evaluation routes)."""
import random
import gridlib as gl
import vf


def arbitrary_order(rnd, label):
    """every point of a hierarchy-complete target set delivered in a shuffled order, mostly one sample per call:
    children may arrive before their parents (local polynomial and wavelet grids; sequence and global for comparison)"""
    fam = rnd.choice(["localp", "localp", "localp", "wavelet", "sequence", "global"])
    line, info = gl.make_line(rnd, fam, d=rnd.choice([1, 2, 2, 3]), limits=[])
    L = ["SCEN " + label, line, "begin", gl.cand_line(rnd, info).split(" 0")[0] if False else ("candl -1 -1 classic 0" if fam in ("localp", "wavelet") else "cand level 0 0 0")]
    L.append("loadpool 1 0 %d %d" % (rnd.randint(1, 10 ** 6), rnd.choice([1, 1, 1, 2, 50])))
    L.append("finish")
    return "\n".join(L) + "\n"


# the recorded input of the known finding (child promoted before its step-parent / ancestor across a gap): always replayed
KNOWN_INPUT = "SCEN kf0 0\nmake localp 2 3 3 3 semi-localp 0\nbegin\ncandl -1 -1 classic 0\nloadpool 1 0 369473 1\nfinish\n"


def fixed_target(rnd, label):
    """every point of a fixed target grid (larger than the grid under construction) delivered in a shuffled order and random batch
    sizes, whether or not the library proposed those points: tensors the constructor does not know yet, one-point tensors, points of
    distant levels before the points below them"""
    fam = rnd.choice(["global", "global", "fourier", "sequence", "localp", "wavelet"])
    d = rnd.choice([1, 2, 2, 3])
    outs = rnd.choice([1, 2])
    start = rnd.choice([0, 0, 1])
    if fam == "global":
        rule = rnd.choice(["rleja", "leja", "clenshaw-curtis", "rleja-odd", "fejer2", "min-lebesgue", "rleja-double2", "gauss-patterson"])
        target = {1: 4, 2: 3, 3: 2}[d] if rule in ("rleja", "leja", "min-lebesgue", "rleja-odd") else {1: 3, 2: 2, 3: 1}[d]
        L = ["SCEN " + label, "make global %d %d %d level %s 0 0 0 0" % (d, outs, min(start, target), rule)]
    elif fam == "fourier":
        target = {1: 3, 2: 2, 3: 1}[d]
        L = ["SCEN " + label, "make fourier %d %d %d level 0 0" % (d, outs, min(start, target))]
    elif fam == "sequence":
        target = {1: 5, 2: 4, 3: 3}[d]
        L = ["SCEN " + label, "make sequence %d %d %d level %s 0 0" % (d, outs, start, rnd.choice(gl.SEQ_RULES))]
    elif fam == "localp":
        target = {1: 4, 2: 3, 3: 2}[d]
        L = ["SCEN " + label, "make localp %d %d %d %d %s 0" % (d, outs, start, rnd.choice([1, 2, 3]), rnd.choice(["localp", "semi-localp", "localp-zero", "localp-boundary"]))]
    else:
        target = {1: 3, 2: 2, 3: 1}[d]
        L = ["SCEN " + label, "make wavelet %d %d %d 1 0" % (d, outs, min(start, target))]
    if rnd.random() < 0.3:
        L.append("load 1")
    L.append("begin")
    if rnd.random() < 0.4:
        L.append("candl -1 -1 classic 0" if fam in ("localp", "wavelet") else "cand level 0 0 0")
    # sometimes only a part first, and candidate requests between the deliveries
    if rnd.random() < 0.3:
        L.append("loadtarget 2 %d %d %d %d %d" % (target, rnd.randint(1, 10 ** 6), rnd.choice([1, 1, 2, 3]), rnd.randint(1, 8), rnd.choice([0, 1, 2])))
    L.append("loadtarget 2 %d %d %d 0 %d" % (target, rnd.randint(1, 10 ** 6), rnd.choice([1, 1, 1, 2, 3, 50]), rnd.choice([0, 0, 1, 2, 3])))
    L.append("finish")
    return "\n".join(L) + "\n"


# recorded input of the wavelet variant (singular interpolation matrix while a parent is missing)
KNOWN_INPUT_W = "SCEN kfw 37\nmake wavelet 2 1 2 1 0\nbegin\ncandl -1 -1 classic 0\nloadpool 1 0 260359 2\nfinish\n"


def run(ctx):
    rnd = random.Random(ctx.seed + 101)
    n = 240 if ctx.quick else 1500
    scens = [gl.history(rnd, "n%d" % i, steps=rnd.randint(3, 9), with_construct=True, with_transform=True, with_coef=(i % 4 == 0)) for i in range(n)]
    scens += [arbitrary_order(rnd, "a%d" % i) for i in range(n // 3)] + [KNOWN_INPUT, KNOWN_INPUT_W] + [gl.local3d_history(rnd, "v%d" % i) for i in range(n // 8)] + [fixed_target(rnd, "f%d" % i) for i in range(n // 3)]
    gen = gl.mc_and_scripts(ctx, ['localp2', 'globalcc', 'seq'], rnd, 80 if ctx.quick else 800, maxlen=None if ctx.quick else 5, genlen=3 if ctx.quick else 4, mc=False)
    gl.run_grid(ctx, gen + [("nodal", scens), ("mixed", gl.mixed_family(rnd, max(40, n // 5)))], gl.OBS_NODAL, "C01")
    ctx.assume("reproduction is judged by an observer at 1e-9 relative tolerance on integer token values; the spec decides when the property applies (local polynomial grids: all parents loaded)")


def replay(ctx, path):
    return gl.replay(ctx, path, "C01", gl.OBS_NODAL)
