"""C02 - quadrature is exact on the polynomial space the grid declares (and C03 shares the scenarios)."""
import os
import random
import gridlib as gl
import vf

GAUSS = ["gauss-legendre", "gauss-legendre-odd", "gauss-chebyshev1", "gauss-chebyshev1-odd", "gauss-chebyshev2",
         "gauss-chebyshev2-odd", "gauss-gegenbauer", "gauss-gegenbauer-odd", "gauss-jacobi", "gauss-jacobi-odd",
         "gauss-laguerre", "gauss-laguerre-odd", "gauss-hermite", "gauss-hermite-odd", "chebyshev", "chebyshev-odd"]
NESTED = [r for r in gl.GLOBAL_NESTED if r != "clenshaw-curtis-zero"]


def exact_history(rnd, label, families):
    fam = rnd.choice(families)
    L = ["SCEN " + label]
    d = rnd.choice([1, 2, 2, 3])
    outs = rnd.choice([0, 1, 2])
    if fam == "global":
        rule = rnd.choice(GAUSS + NESTED)
        t, aw = gl.rnd_type_weights(rnd, d)
        odd = rule.endswith("-odd")
        maxdepth = {1: 5, 2: 3, 3: 2}[d]
        if rule in ("clenshaw-curtis", "fejer2", "gauss-patterson", "rleja-shifted-double", "rleja-double2", "rleja-double4"):
            maxdepth = {1: 4, 2: 3, 3: 2}[d]
        if odd:
            maxdepth = max(1, maxdepth - 1)
        depth = rnd.randint(1, maxdepth)
        if t in gl.TENSOR_TYPES:
            depth = min(depth, 2)
        if t in gl.HYPER_TYPES:
            depth = min(depth + 1, 4)
        if t.startswith("qp") or t.startswith("ip"):
            depth = min(depth + 2, 7 if d == 1 else 5)
        if rule.startswith("gauss-j"):
            alpha, beta = rnd.choice([(0.5, 1.5), (1.0, 0.0), (2.0, 1.0), (0.25, 0.75)])
        elif "gegenbauer" in rule or "laguerre" in rule or "hermite" in rule:
            alpha, beta = rnd.choice([0.0, 0.5, 1.0, 2.0]), 0.0
        else:
            alpha, beta = 0.0, 0.0
        ll = gl.rnd_limits(rnd, d, 0, 3, 0.6)
        if t in gl.CURVED_TYPES and d <= 3 and rnd.random() < 0.4:
            # a curved contour that is not lower (linear + curved weight negative in one direction): the selection is grown and
            # completed to a lower set; mostly with level limits present (they switch the selection routine)
            j = rnd.randrange(d)
            aw = [1] * d + [(-3 if i == j else rnd.choice([0, 0, 1])) for i in range(d)]
            depth = min(depth, 3)
            ll = [rnd.choice([3, 4, 5]) for _ in range(d)] if rnd.random() < 0.7 else []
        L.append("make global %d %d %d %s %s %s %s %g %g" % (d, outs, depth, t, rule, gl.ivec(aw), gl.ivec(ll), alpha, beta))
        nested = rule in gl.GLOBAL_NESTED
    elif fam == "sequence":
        rule = rnd.choice(gl.SEQ_RULES)
        t, aw = gl.rnd_type_weights(rnd, d)
        depth = rnd.randint(1, {1: 6, 2: 4, 3: 3}[d])
        if t in gl.TENSOR_TYPES:
            depth = min(depth, 2)
        sll = gl.rnd_limits(rnd, d, 0, 4, 0.6)
        if t in gl.CURVED_TYPES and d <= 3 and rnd.random() < 0.4:
            j = rnd.randrange(d)
            aw = [1] * d + [(-3 if i == j else rnd.choice([0, 0, 1])) for i in range(d)]
            depth = min(depth, 4)
            sll = [rnd.choice([4, 6, 8]) for _ in range(d)] if rnd.random() < 0.7 else []
        L.append("make sequence %d %d %d %s %s %s %s" % (d, outs, depth, t, rule, gl.ivec(aw), gl.ivec(sll)))
        nested = True
    elif fam == "fourier":
        t, aw = gl.rnd_type_weights(rnd, d)
        depth = rnd.randint(1, {1: 3, 2: 2, 3: 2}[d])
        L.append("make fourier %d %d %d %s %s %s" % (d, outs, depth, t, gl.ivec(aw), gl.ivec(gl.rnd_limits(rnd, d, 0, 2, 0.7))))
        nested = True
        rule = "fourier"
    else:
        line, info = gl.make_line(rnd, fam, d=d, outs=max(outs, 1))
        L.append(line)
        nested = True
        rule = info["rule"]
        outs = max(outs, 1)
    # linear domain transform (rule dependent admissible values)
    if rnd.random() < 0.5:
        if "laguerre" in rule or "hermite" in rule:
            a = [rnd.choice([-1, 0, 2]) for _ in range(d)]
            b = [rnd.choice([1, 2, 4, 0.5]) for _ in range(d)]
        else:
            a = [rnd.choice([-2, -1, 0, 1]) for _ in range(d)]
            b = [x + rnd.choice([1, 2, 4]) for x in a]
        L.append("transform %d %s %d %s" % (d, " ".join(map(str, a)), d, " ".join(map(str, b))))
    if nested and outs > 0 and rnd.random() < 0.5:
        L.append("load 1")
        info = dict(fam=fam, d=d, outs=outs, rule=rule)
        if fam in ("global", "sequence", "fourier") and rnd.random() < 0.7:
            L.append(gl.refine_line(rnd, info))
            L.append(rnd.choice(["load 2", "merge", "load 2"]))
    return "\n".join(L) + "\n"


def selection_mc(ctx):
    wd = vf.workdir(ctx.prop.lower() + "-sel")
    txt = open(os.path.join(vf.SPEC, "SelectionMC.cfg")).read()
    if ctx.quick:
        txt = txt.replace("MAXDEPTH = 3", "MAXDEPTH = 2")
    else:
        txt = txt.replace("MAXIDX = 2", "MAXIDX = 3").replace("MAXDEPTH = 3", "MAXDEPTH = 4")
    c = os.path.join(wd, "SelectionMC.cfg")
    open(c, "w").write(txt)
    r = vf.run_tlc("SelectionMC.tla", c, workers=8, timeout=3000, xmx="8g")
    vf.tlc_must_pass(r, "SelectionMC")
    ctx.add_tlc(r, "SelectionMC")
    if r.violated:
        ctx.report("spec:SelectionMC:" + r.violated, "the selection / combination-weight model violates " + r.violated, {"tlc": r.error_trace[:5000]})


def run(ctx):
    rnd = random.Random(ctx.seed + 202)
    selection_mc(ctx)
    n = 400 if ctx.quick else 2500
    scens = [exact_history(rnd, "x%d" % i, ["global", "global", "global", "sequence", "fourier"]) for i in range(n)]
    gl.run_grid(ctx, [("exact", scens)], gl.OBS_EXACT, "C02")
    ctx.assume("the combination technique is exact on the union of the tensor boxes when every one dimensional rule is exact as tabulated (classical theorem); the spec derives the declared space from its tensors and TLC requires it to equal getGlobalPolynomialSpace(false)")
    ctx.assume("each monomial of the declared space is integrated with the grid's own points and weights and compared with the closed-form moment of the documented weight function at 1e-9 of the term scale (observer); clenshaw-curtis-zero and custom tabulated rules are not covered")


def replay(ctx, path):
    return gl.replay(ctx, path, "C02", gl.OBS_EXACT)
