"""C19 - GradientDescent returns its best accepted iterate within the iteration cap.

1. TLC model-checks spec/GradDescent.tla (GradDescentMC, exact mode, one dimension) exhaustively over caps,
   step parameters, every objective value / gradient the environment may answer (so every pass / fail pattern
   of the descent test), identity and box projection: IterBound, ReturnsLastAccepted, Provenance, BestShape,
   CapMonotone, NoWorseThanStart, ConstCount, OnlyAcceptMoves.  Vacuity guards: every action of the model
   is covered, and the negative control (early return without restoring state.x) must violate
   ReturnsLastAccepted.
2. Spec -> code: the Gen configuration prints one environment script per abstract return state; each script
   becomes a scripted objective / gradient (exact dyadic numbers, the double arithmetic of the code is exact)
   run through the real GradientDescent for every cap 0..K (harness/gd_trace.cpp, C++ and C front-ends).
3. Code -> spec: every recorded execution (all callback calls with arguments and answers, returned iterate,
   iteration count, step size, the observer's objective value at the returned point) is validated by TLC
   against spec/GradDescentTrace.tla; in exact mode TLC recomputes trial points, the descent test and the
   stationarity test, in float mode it infers the test outcomes from what is called next.
4. Seeded real objectives (convex / ill-conditioned quadratics, tilted double well, |x| on a dyadic lattice),
   box and ball projections, caps -1..12, dyadic and non-dyadic step parameters, random feasible starts.
"""
import json
import os
import random
import re

import vf

FRONTS = ["cpp", "c"]


# ----------------------------------------------------------------------------- family files
def fnum(v):
    return repr(float(v))


def family_text(fid, mode, front, exact, dim, unit, obj, proj, step, x0, script, caps):
    L = ["FAM %s %s %s %d %d %s" % (fid, mode, front, 1 if exact else 0, dim, fnum(unit)),
         "OBJ " + obj, "PROJ " + proj, "STEP " + " ".join(fnum(s) for s in step),
         "X0 " + " ".join(fnum(v) for v in x0)]
    toks = []
    for kind, val in script:
        toks.append(kind + " " + (" ".join(fnum(v) for v in val) if kind == "g" else fnum(val)))
    L.append("SCRIPT %d %s" % (len(script), " ".join(toks)))
    L.append("CAPS %d %s" % (len(caps), " ".join(str(c) for c in caps)))
    return "\n".join(L) + "\n"


def script_family(idx, s):
    """a TLC script (history of GradDescentMC) -> family: the same scripted environment for caps 0..cap"""
    call = s[0]
    u = float(call["unit"])
    mode = "const" if call["mode"] == "const" else ("proj" if call["proj"] else "adapt")
    proj = "box %s %s" % (fnum(-call["box"] / u), fnum(call["box"] / u)) if call["proj"] else "none"
    step = [2.0 ** call["inc"], 2.0 ** call["dec"], 2.0 ** call["e0"], call["tol"] / u]
    script = [(e["a"], [e["v"] / u] if e["a"] == "g" else e["v"] / u) for e in s[1:]]
    caps = list(range(0, max(call["cap"], 0) + 1))
    return family_text("gen%d" % idx, mode, FRONTS[idx % 2], True, 1, u, "script", proj, step, [call["x0"] / u], script, caps)


def random_family(rnd, idx, thorough):
    kind = rnd.choice(["quad", "quad", "ill", "ill", "well", "well", "abs", "const"])
    front = rnd.choice(FRONTS)
    maxcap = 12 if kind != "abs" else 6
    caps = list(range(0, maxcap + 1))
    if rnd.random() < 0.15:
        caps = [-1] + caps
    if kind == "abs":
        # exact family: f = sum w_i |x_i| on the lattice of multiples of 1/1024
        dim = rnd.choice([1, 2])
        unit = 1024.0
        w = [rnd.choice([0.5, 1.0, 2.0]) for _ in range(dim)]
        hasproj = rnd.random() < 0.5
        proj = "box -1.0 1.0" if hasproj else "none"
        x0 = [rnd.randint(-4, 4) / 4.0 if hasproj else rnd.randint(-12, 12) / 4.0 for _ in range(dim)]
        step = [1.0, 2.0, rnd.choice([2.0, 1.0, 0.5, 0.25]), rnd.choice([-1.0, 0.0, 0.5, 1.0])]
        return family_text("abs%d" % idx, "proj" if hasproj else "adapt", front, True, dim, unit,
                           "abs " + " ".join(fnum(v) for v in w), proj, step, x0, [], caps)
    dim = rnd.choice([1, 2, 3])
    if kind == "const":
        a = [rnd.choice([0.5, 1.0, 2.0, 3.7]) for _ in range(dim)]
        c = [rnd.uniform(-1, 1) for _ in range(dim)]
        x0 = [rnd.uniform(-3, 3) for _ in range(dim)]
        stepsize = rnd.choice([0.5, 0.25, 0.125, 0.3, 0.05, 1.0 / max(a)])
        tol = rnd.choice([-1.0, 0.0, 1e-6, 1e-2, 0.3, 1.0, 10.0])
        return family_text("const%d" % idx, "const", front, False, dim, 1.0,
                           "quad " + " ".join(fnum(v) for v in a + c), "none", [1.0, 1.0, stepsize, tol], x0, [], caps)
    if kind == "quad":
        a = [rnd.choice([0.5, 1.0, 2.0, 3.0]) for _ in range(dim)]
        obj = "quad " + " ".join(fnum(v) for v in a + [rnd.uniform(-2, 2) for _ in range(dim)])
    elif kind == "ill":
        a = [1.0] + [rnd.choice([1e2, 1e3, 1e4]) for _ in range(dim - 1)]
        if dim == 1:
            a = [rnd.choice([1e3, 1e4])]
        rnd.shuffle(a)
        obj = "quad " + " ".join(fnum(v) for v in a + [rnd.uniform(-1, 1) for _ in range(dim)])
    else:
        obj = "well " + fnum(rnd.choice([0.0, 0.3, -0.3, 1.0]))
    pk = rnd.choice(["none", "none", "box", "ball"])
    if pk == "box":
        lo = rnd.uniform(-2, 0.5)
        hi = lo + rnd.uniform(0.1, 3)
        proj = "box %s %s" % (fnum(lo), fnum(hi))
        x0 = [rnd.choice([lo, hi, rnd.uniform(lo, hi)]) for _ in range(dim)]
    elif pk == "ball":
        r = rnd.uniform(0.2, 3)
        proj = "ball " + fnum(r)
        x0 = [rnd.uniform(-1, 1) for _ in range(dim)]
        nrm = sum(v * v for v in x0) ** 0.5
        sc = rnd.uniform(0, 0.999) * r / max(nrm, 1e-9)
        x0 = [v * sc for v in x0]
    else:
        proj = "none"
        x0 = [rnd.uniform(-3, 3) for _ in range(dim)]
    if rnd.random() < 0.7:
        inc, dec = rnd.choice([1.0, 2.0, 4.0]), rnd.choice([2.0, 4.0])
        s0 = 2.0 ** rnd.randint(-14, 3)
    else:
        inc, dec = rnd.choice([1.0, 1.25, 1.5, 3.0]), rnd.choice([1.25, 1.5, 2.0, 3.0])
        s0 = rnd.choice([0.3, 0.01, 1.7, 1e-4, 2.0 ** rnd.randint(-10, 2)])
    tol = rnd.choice([-1.0, 0.0, 1e-9, 1e-6, 1e-3, 0.1, 1.0])
    return family_text("%s%d" % (kind, idx), "proj" if pk != "none" else "adapt", front, False, dim, 1.0, obj, proj,
                       [inc, dec, s0, tol], x0, [], caps)


# ----------------------------------------------------------------------------- validation
def split_families(rows):
    out, curf = [], []
    for r in rows:
        if r["e"] == "Reset" and curf:
            out.append(curf)
            curf = []
        curf.append(r)
    if curf:
        out.append(curf)
    return out


def n_calls(fam):
    return sum(1 for r in fam if r["e"] == "Call")


def classify(fam, k, clause):
    """name the failing pattern: fam = rows of the family, k = index of the unmatched row (or None)"""
    if k is None or k >= len(fam):
        return "reject:truncated"
    ev = fam[k]
    sig = "reject:" + ev.get("e", "?")
    if clause:
        sig += ":" + clause.replace("Ret:", "")
    j = k
    while j >= 0 and fam[j]["e"] != "Call":
        j -= 1
    call = fam[j] if j >= 0 else {}
    body = fam[j + 1:k]
    if ev.get("e") != "Return":
        sig += ":after-" + (body[-1]["e"] if body else "Call")
        done = sum(1 for r in body if r["e"] == ("Grad" if call.get("mode") == "const" else "Func")) - 1
        newstep = ("Grad",) if call.get("mode") == "const" else ("Func", "Proj")
        if ev.get("e") in newstep and done >= max(call.get("cap", 0), 0):
            sig += ":cap-already-reached"
    if ev.get("e") == "Return":
        if clause and "x-is" in clause:
            earlier = [r["x"] for r in body if r["e"] in ("Func", "Grad")]
            if ev["x"] in earlier[:-1] or ev["x"] == call.get("x"):
                sig += ":stale-x"
        if body and body[-1]["e"] == "Func" and ev.get("it") == call.get("cap") and call.get("mode") == "adapt":
            sig += ":cap-hit-in-linesearch"
        elif body and body[-1]["e"] == "Grad":
            sig += ":after-accept"
    return sig


def validate_file(path):
    """TLC validates a concatenated trace file family by family; several rejections per file are handled"""
    rows = vf.read_ndjson(path)
    fams = split_families(rows)
    rejections = []
    calls_ok = fams_ok = gen = dist = rounds = 0
    while fams and rounds < 10:
        rounds += 1
        curp = path + ".cur%d" % rounds
        vf.write_ndjson(curp, [r for f in fams for r in f])
        r = vf.run_tlc("GradDescentTrace.tla", "GradDescentTrace.cfg", workers=1, timeout=1500, xmx="3g", metadir=curp + ".meta",
                       env={"TRACE": curp, "JAVA_TOOL_OPTIONS": "-XX:TieredStopAtLevel=1"})   # short-lived JVMs: skip the C2 compiler
        gen += r.generated
        dist += r.distinct
        if r.timed_out:
            raise vf.FrameworkError("trace validation timed out: " + curp)
        if r.ok():
            calls_ok += sum(n_calls(f) for f in fams)
            fams_ok += len(fams)
            fams = []
            break
        m = re.search(r'"REJECTED_AT", (\d+)', r.out)
        cl = re.findall(r'<<"CLAUSE", "([^"]*)", (\d+)>>', r.out)
        kind = None
        if r.violated and r.violated != "postcondition" and not m:
            lm = re.findall(r"/\\ l = (\d+)", r.out)
            if not lm:
                raise vf.FrameworkError("invariant violation without trace position (%s)\n%s" % (curp, r.out[-3000:]))
            pos = int(lm[-1])
            kind = "inv:" + r.violated
        elif m:
            pos = int(m.group(1))
        else:
            raise vf.FrameworkError("trace validation failed without verdict (%s)\n%s" % (curp, r.out[-3000:]))
        acc = 0
        bad = None
        for idx, f in enumerate(fams):
            if pos <= acc + len(f):
                bad = idx
                break
            acc += len(f)
        if bad is None:
            bad, k = len(fams) - 1, None
        else:
            k = pos - acc - 1
        clause = None
        for name, line in cl:
            if int(line) == pos:
                clause = name
        f = fams[bad]
        sig = (kind + ":" + classify(f, k, None)) if kind else classify(f, k, clause)
        lo = k
        while lo is not None and lo > 0 and f[lo]["e"] != "Call":
            lo -= 1
        rejections.append({"signature": sig, "family": f[0].get("id"), "clause": clause, "event": f[k] if k is not None and k < len(f) else None,
                           "execution": f[lo:k + 1] if k is not None else f[-12:], "tlc": r.out[-1200:] if kind else ""})
        calls_ok += sum(n_calls(g) for g in fams[:bad])
        fams_ok += bad
        fams = fams[bad + 1:]
    return {"calls_ok": calls_ok, "fams_ok": fams_ok, "rejections": rejections, "generated": gen, "distinct": dist,
            "unexamined": sum(n_calls(f) for f in fams)}


def cfg_with(wd, base, name, subs):
    txt = open(os.path.join(vf.SPEC, base)).read()
    for a, b in subs:
        if a not in txt:
            raise vf.FrameworkError("cfg template %s lacks '%s'" % (base, a))
        txt = txt.replace(a, b)
    p = os.path.join(wd, name)
    open(p, "w").write(txt)
    return p


MC_ACTIONS = ["MCEnter", "MCCEnter", "MCEvalStart", "MCGradStart", "MCSwap", "MCOptimistic", "MCLoopExit", "MCEarlyReturn",
              "MCBeginAttempt", "MCProject", "MCEvalCand", "MCTestPass", "MCTestFail", "MCAccept", "MCGradStop", "MCGradGo",
              "MCReturn", "MCCGrad0", "MCCLoopExit", "MCCStep", "MCCGradSmall", "MCCGradBig"]
RICH = [("DECS = {1}", "DECS = {1,2}"), ("GN = {0,192}", "GN = {0,64,192}"), ("DFN = {64,112,136}", "DFN = {64,112,128,136}")]
ALLCAPS = "CAPS = {0,1,2,3,4,5,6}"


def capset(k):
    return "CAPS = {" + ",".join(str(c) for c in range(k + 1)) + "}"


def run(ctx):
    quick = ctx.quick
    lib = vf.build_lib("serial")
    drv = vf.compile_driver("gd_trace.cpp", lib)
    wd = vf.workdir("c19")
    rnd = random.Random(ctx.seed)

    # ---- 1. exhaustive model checking of the design (+ vacuity guards)
    mc = [("base,caps0-6", cfg_with(wd, "GradDescentMC.cfg", "mc-base.cfg", []), False),
          ("rich,caps0-%d" % (4 if quick else 5), cfg_with(wd, "GradDescentMC.cfg", "mc-rich.cfg", RICH + [(ALLCAPS, capset(4 if quick else 5))]), False),
          ("coverage,caps0-3", cfg_with(wd, "GradDescentMC.cfg", "mc-cov.cfg", [(ALLCAPS, capset(3))]), True)]
    if not quick:
        mc.append(("e0={-1,0},caps0-6", cfg_with(wd, "GradDescentMC.cfg", "mc-e0.cfg", [("E0N = {1}", "E0N = {0,1}"), ("DECS = {1}", "DECS = {1,2}")]), False))
    mcres = vf.parallel_map(lambda c: vf.run_tlc("GradDescentMC.tla", c[1], workers=6, timeout=3000, xmx="6g", coverage=c[2]), mc, nproc=4)
    for (label, cfg, cov), r in zip(mc, mcres):
        vf.tlc_must_pass(r, "GradDescentMC " + label)
        ctx.add_tlc(r, "GradDescentMC:" + label)
        if r.violated:
            ctx.report("spec:" + r.violated, "GradDescent.tla violates %s (%s)" % (r.violated, label), {"cfg": cfg, "tlc": r.error_trace[:6000]})
        if cov:
            covd = {m.group(1): int(m.group(2)) for m in re.finditer(r"<(MC\w+) line [^>]*>: (\d+):(\d+)", r.out)}
            missing = [a for a in MC_ACTIONS if covd.get(a, 0) == 0]
            if missing:
                raise vf.FrameworkError("vacuous model: actions never taken: %s" % missing)
            ctx.extra["mc_action_coverage_distinct_states"] = {a: covd[a] for a in MC_ACTIONS}
    rb = vf.run_tlc("GradDescentMC.tla", cfg_with(wd, "GradDescentMCbug.cfg", "mc-bug.cfg", []), workers=4, timeout=900, xmx="4g")
    if rb.violated != "ReturnsLastAccepted":
        raise vf.FrameworkError("negative control: the model without the restore on the early return does not violate ReturnsLastAccepted\n" + rb.out[-2000:])
    ctx.extra["negative_control"] = "RestoreOnEarlyReturn=FALSE violates ReturnsLastAccepted after %d states" % rb.generated

    # ---- 2. spec -> code: one script per abstract return state
    gens = [("base", [], 4 if quick else 6), ("rich", RICH, 3 if quick else 5)]

    def gen_one(g):
        label, subs, k = g
        c = cfg_with(wd, "GradDescentGen.cfg", "gen-%s.cfg" % label, subs + [(ALLCAPS, "CAPS = {0,%d}" % k)])
        return vf.run_tlc("GradDescentMC.tla", c, workers=1, timeout=3000, xmx="6g")

    sets = []
    for g, r in zip(gens, vf.parallel_map(gen_one, gens, nproc=2)):
        vf.tlc_must_pass(r, "GradDescentGen " + g[0])
        ctx.add_tlc(r, "GradDescentGen:%s,cap=%d" % (g[0], g[2]))
        scripts = [json.loads(json.loads(m)) for m in re.findall(r'<<"SCRIPT", ("(?:[^"\\]|\\.)*")>>', r.out)]
        if not scripts:
            raise vf.FrameworkError("Gen configuration printed no scripts\n" + r.out[-2000:])
        limit = 2500 if quick else 60000
        if len(scripts) > limit:
            rnd.shuffle(scripts)
            scripts = scripts[:limit]
        ctx.sample({"kind": "TLC script (spec->code)", "set": g[0], "script": scripts[len(scripts) // 2]})
        sets.append(("gen-" + g[0], [script_family(i, s) for i, s in enumerate(scripts)]))

    # ---- 4. seeded real objectives
    nrand = 500 if quick else 6000
    sets.append(("seeded", [random_family(rnd, i, not quick) for i in range(nrand)]))

    # ---- run the real code
    files = []
    nfam = 0
    for label, fams in sets:
        nfam += len(fams)
        chunk = max(20, min(150, (len(fams) + 11) // 12))
        for ci in range(0, len(fams), chunk):
            fp = os.path.join(wd, "%s-%d.fam" % (label, ci))
            tp = os.path.join(wd, "%s-%d.ndjson" % (label, ci))
            open(fp, "w").write("".join(fams[ci:ci + chunk]))
            files.append((label, fp, tp))

    def exec_one(f):
        return vf.sh([drv, f[1], f[2]], timeout=900).returncode

    for f, rc in zip(files, vf.parallel_map(exec_one, files)):
        if rc != 0:
            ctx.extra.setdefault("driver_nonzero_exit", []).append({"file": f[1], "rc": rc})   # truncated trace: rejected below

    # ---- 3. code -> spec
    res = vf.parallel_map(lambda f: validate_file(f[2]), files, nproc=16)
    recorded = unexamined = 0
    for f, v in zip(files, res):
        ctx.traces += v["calls_ok"]
        ctx.states += v["distinct"]
        ctx.transitions += v["generated"]
        unexamined += v["unexamined"]
        recorded += sum(1 for r in vf.read_ndjson(f[2]) if r["e"] == "Call")
        for rj in v["rejections"]:
            famtxt = [t for t in open(f[1]).read().split("FAM ") if t.startswith(str(rj["family"]) + " ")]
            ctx.report(rj["signature"],
                       "recorded GradientDescent execution is not a behaviour of GradDescent.tla (set %s, family %s): clause %s, first unmatched event %s"
                       % (f[0], rj["family"], rj["clause"], json.dumps(rj["event"])),
                       {"family_text": ("FAM " + famtxt[0]) if famtxt else None, "family_file": f[1], "trace_file": f[2],
                        "execution": rj["execution"], "tlc": rj["tlc"],
                        "how": "harness/gd_trace <family_file> out.ndjson ; TRACE=out.ndjson tlc -workers 1 -config spec/GradDescentTrace.cfg spec/GradDescentTrace.tla"})
    ctx.extra["executions_recorded"] = recorded
    ctx.extra["families"] = nfam
    ctx.extra["executions_unexamined_after_repeated_rejections"] = unexamined
    ctx.extra["rule"] = ("one execution = one real GradientDescent call (adaptive / projected / constant step, C++ or C front-end) with logging "
                         "callbacks; one family = the same call for caps 0..K; scripts come from TLC (one per abstract return state of "
                         "GradDescentMC) and from a seeded generator of real objectives")
    if files:
        ctx.sample({"kind": "recorded execution prefix (code->spec)", "events": vf.read_ndjson(files[-1][2])[:9]})
    ctx.assume("exact families: all inputs are dyadic numbers on a lattice (unit 1/64 or 1/1024) and step parameters are powers of two, "
               "so every double operation of the code is exact and TLC recomputes trial points, descent test and stationarity test")
    ctx.assume("float families: TLC sees order-preserving keys of the doubles; pass / fail of the descent test and the stationarity test are "
               "inferred from the next callback; values across caps are compared with slack (maxcap+1)*(1e-12 + 1e-13*max(1,|f(start)|))")
    ctx.assume("the starting point lies in the convex set of the projection (otherwise 'no larger than at the start' does not hold for any method)")
    ctx.assume("constant-step float families: the callback reports whether the gradient it returned has norm <= tolerance; TLC applies the count formula")


def replay(ctx, path):
    body = json.load(open(path))
    txt = body.get("replay", {}).get("family_text")
    if not txt:
        print("replay file has no family_text")
        return 3
    lib = vf.build_lib("serial")
    drv = vf.compile_driver("gd_trace.cpp", lib)
    wd = vf.workdir("c19-replay")
    fp, tp = os.path.join(wd, "replay.fam"), os.path.join(wd, "replay.ndjson")
    open(fp, "w").write(txt)
    vf.sh([drv, fp, tp], timeout=300)
    v = validate_file(tp)
    for rj in v["rejections"]:
        print("REJECTED signature=%s clause=%s event=%s" % (rj["signature"], rj["clause"], json.dumps(rj["event"])))
    print("replay: %d executions conform, %d rejections" % (v["calls_ok"], len(v["rejections"])))
    return 1 if v["rejections"] else 0
