"""C18 - parallel surrogate construction and threaded loading: race-free, exactly-once, bounded.

1. TLC model-checks spec/ParConstruct.tla (ParConstructMC) exhaustively for small constants: main + up to
   3 workers, the mutex, both condition variables with waiter sets and spurious wake-ups, CandidateManager,
   CompleteStorage, budget arithmetic (unsigned subtraction), initial launch loop, steady-state loop,
   shutdown, and the sequential loop; every candidate list the grid may return (re-ranking, candidates that
   appear / disappear, tolerance reached).  Invariants AtMostOnce, BudgetOK, NoSameThreadConcurrent,
   ValueAtItsPoint, NoRace, coherence, deadlock freedom (NoStuck + TLC deadlock check), Termination under
   weak fairness.  The design AS PINNED (initial loop without budget test) is kept as a spec-level sanity
   mutant: TLC must violate BudgetOK there.  spec/LoadNeededPar.tla likewise (3 threads x 5 samples).
2. Code -> spec: harness/parconstruct_trace.cpp runs the real constructSurrogate (parallel 1..8 threads and
   sequential) and the threaded loadNeededValues with seeded model latencies and seeded yields / sleeps at
   the schedule points; every recorded execution is validated by TLC against ParConstructTrace.tla /
   LoadNeededParTrace.tla (all invariants in every state).  A second, protocol-independent TLC pass over a
   rejected execution (callback layer) decides AtMostOnce / BudgetOK / NoSameThreadConcurrent /
   ValueAtItsPoint from what the model callback saw.
   Scenarios: seeded random mix of grid families (local polynomial rules, wavelet, global, sequence, Fourier), 1..8
   workers, batch sizes, budgets below / equal / above the pool, tolerance reached before the budget, preloaded
   grids (budget below the loaded points), initial guess on / off, plus fixed corner cases and a targeted family
   (6-8 workers + stable refinement: children finish before their parents).
3. Binding self-test on every run: dropping / corrupting one event of an accepted trace must be rejected.
4. `./check C18 --selftest`: mutants of the implementation in a scratch copy of the sources outside /repo and
   /verif (the two repaired defects reverted, job handed out twice, lost wake-up, wrong thread id, result
   buffer of another worker, check-out without marking) must each end in a VIOLATION.

Decision rule for a rejected concurrent trace (documented in the evidence):
  * the callback layer violates a named invariant (e.g. budget exceeded)  -> reported at once;
  * a hang (watchdog) or any other rejection -> the same scenario is re-run with the same seed
    (RERUNS times); reported only if a re-run is rejected / hangs again; otherwise it is listed under
    `unconfirmed_rejections` in the evidence and does not fail the check.
"""
import json
import os
import random
import re
import shutil
import threading
import time

import vf

LEVEL = "model_checking"
LOCK = threading.Lock()
RERUNS = 5
HANG_MS = 20000

INVS = "SeqNextFindsJob AtMostOnce BudgetOK NoSameThreadConcurrent ValueAtItsPoint NoRace FlagCoherent ManagerCoherent LaunchedCoherent FinalOK NoStuck"
MC_BASE = dict(HUGE=1000000, NW=2, NP=4, BUDGET=3, BATCH=1, PAR="TRUE", GUARD="TRUE", INIT0=0, EAGER=1000, RNUM=1, RDEN=5,
               REORDER="TRUE", MAXCHG=1, SPURIOUS="TRUE", INITFULL="FALSE")


def mc_cfg(path, live=False, **kw):
    d = dict(MC_BASE)
    d.update(kw)
    t = "SPECIFICATION %s\nCONSTANTS\n" % ("FairSpec" if live else "MCSpec")
    t += "".join("  %s = %s\n" % (k, v) for k, v in d.items())
    # NoStuck (some thread can move without a spurious wake-up) costs one more ENABLED per state: in the fair
    # configurations Termination implies it
    t += "INVARIANTS " + (INVS.replace(" NoStuck", "") if live else INVS) + "\n"
    if live:
        t += "PROPERTY Termination\n"
    open(path, "w").write(t)
    return path


def mc_plan(quick):
    """(label, constants, liveness?, expected violation or None, workers)"""
    P = []
    if quick:
        P += [("par-budget-above-pool-3w-5pts", dict(NW=3, NP=5, BUDGET=7, INITFULL="TRUE"), False, None, 6),
              ("par-budget-above-pool-3w", dict(NW=3, NP=4, BUDGET=6, INITFULL="TRUE"), True, None, 4),
              ("par-budget-above-pool-2w", dict(NW=2, NP=4, BUDGET=6, INITFULL="TRUE"), True, None, 1),
              ("par-4-workers-budget=workers", dict(NW=4, NP=6, BUDGET=4, INITFULL="TRUE"), False, None, 3),
              ("par-budget=workers", dict(NW=3, NP=5, BUDGET=3, INITFULL="TRUE"), True, None, 1),
              ("par-budget<workers", dict(NW=3, NP=5, BUDGET=2, INITFULL="TRUE"), True, None, 1),
              ("par-batch2", dict(NW=3, NP=6, BUDGET=5, BATCH=2, INITFULL="TRUE"), True, None, 1),
              ("par-any-initial-list-2chg", dict(NW=2, NP=4, BUDGET=3, MAXCHG=2), False, None, 4),
              ("par-unsigned-subtraction", dict(NW=2, NP=4, BUDGET=1, INIT0=3), True, None, 1),
              ("par-budget-zero", dict(NW=2, NP=3, BUDGET=0), True, None, 1),
              ("par-deferred-load", dict(NW=2, NP=4, BUDGET=6, EAGER=0, RNUM=1, RDEN=1, INITFULL="TRUE"), True, None, 1),
              ("seq", dict(NW=2, NP=5, BUDGET=9, PAR="FALSE", MAXCHG=2), True, None, 1),
              ("seq-batch2-below", dict(NW=1, NP=5, BUDGET=3, BATCH=2, PAR="FALSE", MAXCHG=1), True, None, 1),
              ("AS-PINNED:par-budget<workers", dict(NW=3, NP=5, BUDGET=2, INITFULL="TRUE", GUARD="FALSE"), False, "BudgetOK", 1),
              ("AS-PINNED:par-unsigned", dict(NW=2, NP=4, BUDGET=1, INIT0=3, GUARD="FALSE"), False, "BudgetOK", 1)]
    else:
        P += [("par-budget-above-pool", dict(NW=3, NP=5, BUDGET=7, INITFULL="TRUE"), True, None, 6),
              ("par-budget-above-pool-2chg", dict(NW=3, NP=4, BUDGET=6, INITFULL="TRUE", MAXCHG=2), True, None, 4),
              ("par-4-workers-above-pool", dict(NW=4, NP=5, BUDGET=7, INITFULL="TRUE"), False, None, 6),
              ("par-4-workers-budget=workers", dict(NW=4, NP=6, BUDGET=4, INITFULL="TRUE"), True, None, 3),
              ("par-6-points-above-pool", dict(NW=3, NP=6, BUDGET=8, INITFULL="TRUE"), False, None, 6),
              ("par-budget=workers", dict(NW=3, NP=5, BUDGET=3, INITFULL="TRUE", MAXCHG=2), True, None, 2),
              ("par-budget<workers", dict(NW=3, NP=5, BUDGET=2, INITFULL="TRUE", MAXCHG=2), True, None, 1),
              ("par-batch2", dict(NW=3, NP=6, BUDGET=5, BATCH=2, INITFULL="TRUE", MAXCHG=2), True, None, 2),
              ("par-batch2-above", dict(NW=3, NP=5, BUDGET=8, BATCH=2, INITFULL="TRUE"), True, None, 4),
              ("par-any-initial-list-3w", dict(NW=3, NP=5, BUDGET=4, MAXCHG=1), False, None, 8),
              ("par-any-initial-list-2chg", dict(NW=2, NP=4, BUDGET=3, MAXCHG=2), True, None, 4),
              ("par-any-initial-above", dict(NW=2, NP=4, BUDGET=6, MAXCHG=1), True, None, 4),
              ("par-unsigned-subtraction", dict(NW=3, NP=4, BUDGET=2, INIT0=3), True, None, 2),
              ("par-budget-zero", dict(NW=3, NP=3, BUDGET=0), True, None, 1),
              ("par-deferred-load", dict(NW=3, NP=4, BUDGET=6, EAGER=0, RNUM=1, RDEN=1, INITFULL="TRUE"), True, None, 4),
              ("par-no-spurious", dict(NW=3, NP=5, BUDGET=7, INITFULL="TRUE", SPURIOUS="FALSE"), True, None, 4),
              ("seq", dict(NW=2, NP=6, BUDGET=9, PAR="FALSE", MAXCHG=2), True, None, 2),
              ("seq-batch2-below", dict(NW=1, NP=6, BUDGET=3, BATCH=2, PAR="FALSE", MAXCHG=2), True, None, 1),
              ("AS-PINNED:par-budget<workers", dict(NW=3, NP=5, BUDGET=2, INITFULL="TRUE", GUARD="FALSE"), False, "BudgetOK", 1),
              ("AS-PINNED:par-unsigned", dict(NW=2, NP=4, BUDGET=1, INIT0=3, GUARD="FALSE"), False, "BudgetOK", 1),
              ("AS-PINNED:par-budget-zero", dict(NW=2, NP=3, BUDGET=0, GUARD="FALSE"), False, "BudgetOK", 1)]
    return P


# ----------------------------------------------------------------------------- scenarios for the real code

LOCAL = ["localp", "localp", "localp", "semilocalp", "localp0", "localpb", "wavelet"]
GLOBAL = ["global_cc", "global_rleja", "global_leja", "seq_leja", "seq_rleja", "seq_minlebesgue", "fourier"]


def construct_scenario(rnd, mode):
    local = rnd.random() < 0.62
    fam = rnd.choice(LOCAL if local else GLOBAL)
    jobs = rnd.choice([1, 2, 2, 3, 3, 4, 4, 5, 6, 8, 0])
    batch = rnd.choice([1, 1, 1, 2, 2, 3, 0])
    s = dict(mode=mode, fam=fam, dims=2, jobs=jobs, batch=batch, seed=rnd.randrange(1, 2 ** 31),
             lat=rnd.choice([0, 0, 1, 2, 2, 3, 4]), sched=rnd.choice([0, 1, 2, 2, 3, 3]),
             guess=1 if rnd.random() < 0.2 else 0, preload=1 if rnd.random() < 0.3 else 0,
             eager=rnd.choice([1000, 1000, 1000, 0, 0, 1, 2, 3, 5]))      # below `eager` loaded points every completed sample is loaded at once; above: deferred (ratio rule)
    if local:
        s["order"] = rnd.choice([1, 1, 2]) if fam != "wavelet" else 1
        s["depth"] = rnd.choice([0, 1, 1, 2])
        s["limit"] = rnd.choice([1, 2, 2, 3])
        s["crit"] = rnd.choice([0, 1, 2, 3, 4])
        s["out"] = rnd.choice([0, 0, -1])
        s["fmodel"] = rnd.choice([0, 0, 1, 1, 2, 3])
        s["tolexp"] = rnd.choice([1, 2, 3, 4, 6])
        if fam == "wavelet":
            s["depth"] = rnd.choice([0, 1])
            s["limit"] = rnd.choice([1, 2])
        if rnd.random() < 0.15:
            s["dims"] = rnd.choice([1, 3])
            if s["dims"] == 3:
                s["depth"] = min(s["depth"], 1)
                s["limit"] = min(s["limit"], 1 if fam == "wavelet" else 2)     # keeps the pool below ~130 points
        kind = rnd.choice(["tiny", "tiny", "workers", "mid", "mid", "above"])
    else:
        s["depth"] = rnd.choice([0, 1, 1, 2])
        s["limit"] = rnd.choice([-1, -1, 2, 3])
        s["ctype"] = rnd.choice([0, 1])
        s["out"] = rnd.choice([0, -1]) if s["ctype"] == 1 else 0
        s["fmodel"] = rnd.choice([0, 1, 1, 2])
        kind = rnd.choice(["tiny", "tiny", "workers", "mid", "mid"])
    j = max(1, jobs)
    if kind == "tiny":
        s["budget"] = rnd.randrange(0, j + 1)
    elif kind == "workers":
        s["budget"] = j * max(1, batch)
    elif kind == "mid":
        s["budget"] = rnd.randrange(j + 1, 40)
    else:
        s["budget"] = rnd.choice([-1, 100000])       # above the pool: the level limits / the tolerance end the run
    return s


def ln_scenario(rnd):
    fam = rnd.choice(LOCAL + GLOBAL)
    s = dict(mode="ln", fam=fam, dims=2, depth=rnd.choice([0, 1, 2, 2, 3]), order=1, threads=rnd.choice([0, 1, 2, 3, 3, 4, 5, 8]),
             overwrite=rnd.choice([0, 0, 1]), vecsig=rnd.choice([0, 1]), seed=rnd.randrange(1, 2 ** 31),
             lat=rnd.choice([0, 1, 2, 2, 3, 4]), sched=rnd.choice([0, 1, 2, 3]), fmodel=1)
    if fam == "wavelet":
        s["depth"] = min(s["depth"], 2)
    return s


def scen_line(s):
    return " ".join("%s=%s" % (k, v) for k, v in s.items())


def split_execs(rows):
    out, cur = [], []
    for r in rows:
        if r["e"] == "Reset" and cur:
            out.append(cur)
            cur = []
        cur.append(r)
    if cur:
        out.append(cur)
    return out


# ----------------------------------------------------------------------------- TLC as the judge of traces

SPECS = {"pc": ("ParConstructTrace.tla", "ParConstructTrace.cfg", "ParConstructCallbacks.cfg"),
         "ln": ("LoadNeededParTrace.tla", "LoadNeededParTrace.cfg", "LoadNeededParCallbacks.cfg")}


def tlc_trace(kind, path, callbacks=False):
    mod, cfg, cbcfg = SPECS[kind]
    r = vf.run_tlc(mod, cbcfg if callbacks else cfg, workers=1, timeout=900, env={"TRACE": path}, xmx="3g")
    if r.timed_out:
        raise vf.FrameworkError("trace validation timed out: " + path)
    return r


def verdict_of(r, path):
    """None if accepted; else (position, kind) with kind 'reject' or 'inv:<name>'; position = 1-based line"""
    if r.ok():
        return None
    m = re.search(r'"REJECTED_AT", (\d+)', r.out)
    if r.violated and r.violated != "postcondition" and r.violated != "deadlock":
        lm = re.findall(r"/\\ l = (\d+)", r.error_trace)
        pos = max(1, int(lm[-1]) - 1) if lm else 1
        return pos, "inv:" + r.violated
    if m:
        return int(m.group(1)), "reject"
    raise vf.FrameworkError("trace validation ended without a verdict (%s)\n%s" % (path, r.out[-3000:]))


def validate_execs(kind, execs, base):
    """Validate a list of executions (each a list of events).  Returns per execution None (accepted) or a dict
    describing the rejection; plus TLC state counts."""
    res = [None] * len(execs)
    pending = list(range(len(execs)))
    gen = dist = 0
    rounds = 0
    while pending:
        rounds += 1
        p = "%s.v%d.ndjson" % (base, rounds)
        vf.write_ndjson(p, [ev for i in pending for ev in execs[i]])
        r = tlc_trace(kind, p)
        gen += r.generated
        dist += r.distinct
        v = verdict_of(r, p)
        if v is None:
            break
        pos, what = v
        acc = 0
        bad = pending[-1]
        for i in pending:
            if pos <= acc + len(execs[i]):
                bad = i
                break
            acc += len(execs[i])
        line = pos - acc
        ex = execs[bad]
        ev = ex[line - 1] if 0 < line <= len(ex) else None
        res[bad] = {"line": line, "event": ev, "what": what, "tlc": r.out[-1200:] if what != "reject" else ""}
        pending = pending[pending.index(bad) + 1:]
    return res, gen, dist


def callback_layer(kind, ex, base):
    """protocol-independent TLC pass: which named clause does the execution violate, if any"""
    p = base + ".cb.ndjson"
    vf.write_ndjson(p, ex)
    r = tlc_trace(kind, p, callbacks=True)
    if r.ok():
        return None
    if r.violated and r.violated not in ("postcondition", "deadlock"):
        return r.violated
    if '"REJECTED_AT"' in r.out:
        return "CallbackIllFormed"
    raise vf.FrameworkError("callback layer ended without a verdict (%s)\n%s" % (p, r.out[-3000:]))


PHASE = {"Launch": "initial-launch", "Handout": "hand-out", "Collect": "collect", "Refresh": "refresh", "MCheck": "main-wait",
         "WCheck": "worker-wait", "WDone": "worker-done", "WNotify": "worker-notify", "MNotify": "main-notify", "MUnlock": "main-unlock",
         "ModelBegin": "model-entry", "ModelEnd": "model-exit", "Final": "final-grid", "End": "return", "Flush": "flush",
         "Joined": "join", "SeqNext": "seq-next", "SeqStore": "seq-store", "Checkout": "check-out", "Hang": "hang", "Threw": "exception", "Crashed": "crash"}
CLAUSE = {"CBudgetOK": "budget-exceeded", "CAtMostOnce": "called-twice", "CNoSameThreadConcurrent": "same-thread-id-concurrent",
          "CValueAtItsPoint": "value-at-wrong-point", "CSurrogateReproduces": "surrogate-not-reproducing", "LCAtMostOnce": "called-twice", "LCNoSameThreadConcurrent": "same-thread-id-concurrent",
          "LCExactlyOnceValueAtItsPoint": "not-exactly-once-or-value-at-wrong-point", "CallbackIllFormed": "callback-ill-formed"}


def signature(mode, rej, clause, fam=""):
    ev = (rej["event"] or {}).get("e", "truncated")
    ph = PHASE.get(ev, ev)
    if ev == "Final" and fam:
        ph = fam                      # content of the final grid: the grid family is the specific input
    if ev == "Hang":
        return "termination:hang:%s" % mode
    if clause:
        return "%s:%s:%s" % (CLAUSE.get(clause, clause), ph, mode) if not (clause == "CBudgetOK" and ev == "Launch") else "budget-exceeded:initial-launch"
    if rej["what"].startswith("inv:"):
        return "%s:%s:%s" % (rej["what"][4:], ph, mode)
    return "reject:%s:%s" % (ph, mode)


# ----------------------------------------------------------------------------- running the real code

def run_driver(drv, lines, base, hang_ms=HANG_MS):
    """run scenarios through the driver; a hang ends the process, the rest is run by a new process.
    returns list of (scenario line, execution or None)"""
    out = []
    todo = list(lines)
    part = 0
    while todo:
        part += 1
        sp, tp = "%s.p%d.scen" % (base, part), "%s.p%d.ndjson" % (base, part)
        open(sp, "w").write("\n".join(todo) + "\n")
        p = vf.sh([drv, sp, tp, str(hang_ms)], timeout=hang_ms / 1000.0 * 16 + 120 + 2 * len(todo))
        rows = vf.read_ndjson(tp) if os.path.exists(tp) else []
        ex = split_execs(rows)
        if p.returncode == 0 and len(ex) == len(todo):
            out += list(zip(todo, ex))
            break
        # hang (97), runaway (98), crash or outer timeout: the last recorded execution is the culprit
        n = len(ex)
        if n == 0:
            if getattr(p, "timed_out", False) and p.returncode == 124 and part > 3:
                raise vf.FrameworkError("driver produced no trace (rc=%s): %s\n%s" % (p.returncode, sp, p.stderr[-2000:]))
            # the process died before anything was written: the first scenario is the culprit
            ex = [[{"e": "Reset", "mode": todo[0].split()[0].split("=")[1], "nw": 1, "nt": 1, "ns": 1, "budget": 0, "batch": 1, "par": True, "init": []}]]
            n = 1
        if p.returncode not in (97, 98) and not (ex[-1] and ex[-1][-1]["e"] in ("Hang", "Runaway", "Crashed")):
            ex[-1].append({"e": "Crashed", "rc": p.returncode})
        out += list(zip(todo[:n], ex))
        todo = todo[n:]
    return out


def examine(ctx, drv, kind, pairs, base, stats, rerun=True):
    """validate executions of one driver file; apply the decision rule to rejections"""
    execs = [ex for _, ex in pairs]
    res, gen, dist = validate_execs(kind, execs, base)
    with LOCK:
        stats["gen"] += gen
        stats["dist"] += dist
        stats["ok"] += sum(1 for r in res if r is None)
    for k, ((line, ex), rej) in enumerate(zip(pairs, res)):
        mode = ex[0].get("mode", "?")
        if rej is None:
            continue
        ev = (rej["event"] or {}).get("e")
        if ev in ("SetupFailed", "Runaway"):
            stats["skipped"].append({"scenario": line, "event": rej["event"]})
            continue
        clause = callback_layer(kind, ex, "%s.e%d" % (base, k)) if ev != "Hang" else None
        sig = signature(mode, rej, clause, ex[0].get("fam", ""))
        # self-evidently illegal: a named clause fails on the callback events alone, or an invariant fails on an accepted prefix
        confirmed = clause is not None or rej["what"].startswith("inv:")
        repeats = []
        if not confirmed and rerun:
            for t in range(RERUNS):
                again = run_driver(drv, [line], "%s.e%d.r%d" % (base, k, t))
                r2, g2, d2 = validate_execs(kind, [again[0][1]], "%s.e%d.r%d" % (base, k, t))
                with LOCK:
                    stats["gen"] += g2
                    stats["dist"] += d2
                    stats["reruns"] += 1
                if r2[0] is not None:
                    repeats.append({"line": r2[0]["line"], "event": r2[0]["event"], "what": r2[0]["what"]})
                    confirmed = True
                    break
        rec = {"scenario": line, "signature": sig, "rejected_line": rej["line"], "rejected_event": rej["event"], "what": rej["what"],
               "callback_layer": clause, "repeats": repeats}
        if not confirmed:
            with LOCK:
                stats["unconfirmed"].append(rec)
            continue
        with LOCK:
            stats["rejected"] += 1
        why = ("the callback layer violates %s" % clause) if clause else ("re-run with the same seed rejected again at %s" % json.dumps(repeats[-1]["event"]))
        with LOCK:
          ctx.report(sig,
                   "recorded %s execution is not a behaviour of the specification: first unmatched event (line %d) %s; %s; %s"
                   % (mode, rej["line"], json.dumps(rej["event"]), rej["what"], why),
                   {"scenario": line, "kind": kind, "trace": ex, "rejected_line": rej["line"], "tlc": rej["tlc"],
                    "how": "harness/parconstruct_trace <scenario file> out.ndjson ; TRACE=out.ndjson tlc -workers 1 -config spec/%s spec/%s" % (SPECS[kind][1], SPECS[kind][0])})


def real_runs(ctx, drv, wd, n_par, n_seq, n_ln, chunk, stats, rerun=True):
    rnd = random.Random(ctx.seed * 1000003 + 18)
    cons = [scen_line(construct_scenario(rnd, "par")) for _ in range(n_par)] + [scen_line(construct_scenario(rnd, "seq")) for _ in range(n_seq)]
    # fixed corner cases first: budget below the number of workers, zero budget, budget below the preloaded points
    cons = ["mode=par fam=localp dims=2 depth=1 order=1 limit=2 budget=2 jobs=4 batch=1 fmodel=0 sched=2 lat=2 seed=%d" % (ctx.seed + 11),
            "mode=par fam=localp dims=2 depth=1 order=1 limit=2 budget=0 jobs=2 batch=1 fmodel=0 seed=%d" % (ctx.seed + 12),
            "mode=par fam=localp dims=2 depth=1 order=1 limit=3 budget=3 jobs=3 batch=2 fmodel=0 preload=1 sched=3 seed=%d" % (ctx.seed + 13),
            "mode=par fam=global_cc dims=2 depth=1 budget=3 jobs=5 batch=1 fmodel=1 seed=%d" % (ctx.seed + 14),
            "mode=par fam=localp dims=2 depth=1 order=1 limit=2 budget=-1 jobs=3 batch=2 fmodel=2 tolexp=3 sched=2 lat=2 seed=%d" % (ctx.seed + 15),
            "mode=seq fam=localp dims=2 depth=1 order=1 limit=2 budget=4 jobs=2 batch=3 fmodel=0 seed=%d" % (ctx.seed + 16)] + cons
    # many workers + stable refinement: children are computed before their parents, the grid has to keep
    # finished samples aside (this is where re-proposed samples showed up, commit 512514e)
    for k in range(max(24, n_par // 12) if n_par >= 60 else 6):
        fam, lim = (("wavelet", 2) if k % 4 == 3 else ("localp", 3))
        cons.append("mode=par fam=%s dims=2 jobs=%d batch=%d seed=%d lat=%d sched=%d guess=0 preload=0 order=%d depth=1 limit=%d crit=4 out=-1 fmodel=0 tolexp=3 budget=%d"
                    % (fam, rnd.choice([6, 8]), rnd.choice([1, 2]), rnd.randrange(1, 2 ** 31), rnd.choice([0, 1, 2, 3, 4]), rnd.choice([0, 1, 2, 3]),
                       rnd.choice([1, 2]), lim, rnd.randrange(30, 60)))
    # deferred loading: above the eager threshold (lowered through the guarded hook) finished samples wait in the side store until
    # the ratio rule fires; with more workers than free candidates a returning worker finds nothing to do and the candidates are
    # refreshed while finished samples are still unloaded
    for k in range(max(16, n_par // 16) if n_par >= 60 else 6):
        cons.append("mode=par fam=%s dims=2 jobs=%d batch=%d seed=%d lat=%d sched=%d guess=0 preload=1 eager=%d depth=%d order=1 limit=-1 ctype=%d crit=0 out=0 fmodel=1 tolexp=6 budget=%d"
                    % (rnd.choice(["seq_leja", "seq_rleja", "global_leja", "global_cc", "seq_minlebesgue"]), rnd.choice([5, 6, 8]), rnd.choice([1, 1, 2]), rnd.randrange(1, 2 ** 31),
                       rnd.choice([1, 2, 3]), rnd.choice([0, 1, 2]), rnd.choice([0, 0, 5]), rnd.choice([3, 4, 4]), rnd.choice([0, 1]), rnd.randrange(20, 45)))
    rnd.shuffle(cons)
    lns = [scen_line(ln_scenario(rnd)) for _ in range(n_ln)]
    jobs = []
    for i in range(0, len(cons), chunk):
        jobs.append(("pc", cons[i:i + chunk], os.path.join(wd, "pc-%d" % i)))
    for i in range(0, len(lns), chunk):
        jobs.append(("ln", lns[i:i + chunk], os.path.join(wd, "ln-%d" % i)))

    def one(job):
        kind, lines, base = job
        return kind, run_driver(drv, lines, base), base

    # the real threaded runs use up to 8 threads each: keep the machine below saturation so that the
    # seeded perturbation (and not CPU starvation) shapes the schedules
    ran = vf.parallel_map(one, jobs, nproc=4)
    stats["executions"] += sum(len(p) for _, p, _ in ran)

    def judge(item):
        kind, pairs, base = item
        examine(ctx, drv, kind, pairs, base, stats, rerun)
        return pairs

    vf.parallel_map(judge, ran, nproc=12)
    return ran


def new_stats():
    return {"gen": 0, "dist": 0, "ok": 0, "rejected": 0, "reruns": 0, "executions": 0, "unconfirmed": [], "skipped": []}


# ----------------------------------------------------------------------------- binding self-test

def binding_selftest(ctx, ran, wd):
    """an accepted trace with one event removed / corrupted must be rejected by TLC"""
    out = []
    pc = [ex for kind, pairs, _ in ran if kind == "pc" for _, ex in pairs
          if ex[0].get("mode") == "par" and any(e["e"] == "Collect" for e in ex) and ex[-1]["e"] == "Final"]
    ln = [ex for kind, pairs, _ in ran if kind == "ln" for _, ex in pairs if any(e["e"] == "Checkout" for e in ex) and ex[-1]["e"] == "Final" and ex[0].get("nt", 0) > 0]
    cases = []
    if pc:
        ex = min(pc, key=lambda e: (e[0].get("nw", 1) < 2, abs(len(e) - 250)))[:]     # a mid-size execution with several workers
        r0, _, _ = validate_execs("pc", [ex], os.path.join(wd, "bind-base"))
        if r0[0] is None:
            i = next(k for k, e in enumerate(ex) if e["e"] == "WDone")
            cases.append(("pc", "drop the first worker-done event", ex[:i] + ex[i + 1:]))
            i = next(k for k, e in enumerate(ex) if e["e"] == "Collect")
            c = dict(ex[i]); c["vals"] = [v + 1 for v in c["vals"]]
            cases.append(("pc", "collect reads a value that belongs to another point", ex[:i] + [c] + ex[i + 1:]))
            i = next(k for k, e in enumerate(ex) if e["e"] == "ModelBegin")
            cases.append(("pc", "one model call reported twice", ex[:i + 1] + [ex[i]] + ex[i + 1:]))
            i = max(k for k, e in enumerate(ex) if e["e"] == "Handout")
            c = dict(ex[i]); c["flag"] = 1 if c["flag"] == 2 else 2
            cases.append(("pc", "last hand-out with the opposite flag", ex[:i] + [c] + ex[i + 1:]))
            f = dict(ex[-1]); f["pairs"] = [list(q) for q in f["pairs"]]
            if len(f["pairs"]) >= 2:
                f["pairs"][0][1], f["pairs"][1][1] = f["pairs"][1][1], f["pairs"][0][1]
                cases.append(("pc", "two values swapped in the final grid", ex[:-1] + [f]))
    if ln:
        ex = min(ln, key=lambda e: abs(len(e) - 60))[:]
        r0, _, _ = validate_execs("ln", [ex], os.path.join(wd, "bind-lbase"))
        if r0[0] is None:
            i = next(k for k, e in enumerate(ex) if e["e"] == "Checkout" and e["s"] < e["n"])
            cases.append(("ln", "drop one check-out event", ex[:i] + ex[i + 1:]))
            i = next(k for k, e in enumerate(ex) if e["e"] == "ModelBegin")
            cases.append(("ln", "one sample computed twice", ex[:i + 2] + ex[i:i + 2] + ex[i + 2:]))
    for n, (kind, what, ex) in enumerate(cases):
        r, _, _ = validate_execs(kind, [ex], os.path.join(wd, "bind-%d" % n))
        out.append({"mutation": what, "kind": kind, "rejected": r[0] is not None,
                    "at": (r[0] or {}).get("line"), "event": ((r[0] or {}).get("event") or {}).get("e")})
        if r[0] is None:
            raise vf.FrameworkError("trace validation does not bind: '%s' was accepted" % what)
    if not cases:
        raise vf.FrameworkError("binding self-test found no accepted trace to mutate")
    return out


# ----------------------------------------------------------------------------- the check

def model_checking(ctx, wd):
    plan = mc_plan(ctx.quick)

    def one(item):
        label, kw, live, expect, workers = item
        c = mc_cfg(os.path.join(wd, "mc-%d-%s.cfg" % (plan.index(item), re.sub(r"[^A-Za-z0-9]+", "_", label))), live=live, **kw)
        return vf.run_tlc("ParConstructMC.tla", c, workers=workers, timeout=3000 if ctx.quick else 14000, xmx="6g" if ctx.quick else "16g")

    def lnp(item):
        label, nt, ns, par = item
        c = os.path.join(wd, "lnmc-%s.cfg" % label)
        open(c, "w").write(open(os.path.join(vf.SPEC, "LoadNeededParMC.cfg")).read().replace("NT = 3", "NT = %d" % nt)
                           .replace("NS = 5", "NS = %d" % ns).replace("LPAR = TRUE", "LPAR = %s" % par))
        return vf.run_tlc("LoadNeededParMC.tla", c, workers=2, timeout=3000, xmx="4g")

    # coverage: every action of the design is taken in some explored behaviour (parallel + sequential configuration)
    def cov(item):
        label, kw = item
        c = mc_cfg(os.path.join(wd, "cov-%s.cfg" % label), live=False, **kw)
        return vf.run_tlc("ParConstructMC.tla", c, workers=2, timeout=3000, xmx="4g", coverage=True)

    lplan = [("3x5", 3, 5, "TRUE"), ("2x1", 2, 1, "TRUE"), ("seq", 0, 4, "TRUE")] + ([] if ctx.quick else [("4x6", 4, 6, "TRUE"), ("3x7", 3, 7, "TRUE")])
    cplan = [("par", dict(NW=2, NP=3, BUDGET=3, MAXCHG=1)), ("seq", dict(NW=1, NP=5, BUDGET=9, PAR="FALSE", MAXCHG=1))]
    tasks = [("mc", p) for p in plan] + [("ln", p) for p in lplan] + [("cov", p) for p in cplan]

    def run_task(t):
        return {"mc": one, "ln": lnp, "cov": cov}[t[0]](t[1])

    results = vf.parallel_map(run_task, tasks, nproc=6 if ctx.quick else 5)
    covered = {}
    for (kind, item), r in zip(tasks, results):
        label = item[0]
        vf.tlc_must_pass(r, "%s:%s" % (kind, label))
        if kind == "cov":
            for a, (d, g) in r.coverage.items():
                if a.startswith("c") and a[1:2] in "MW":
                    covered[a[1:]] = covered.get(a[1:], 0) + g
            continue
        ctx.add_tlc(r, ("ParConstructMC:" if kind == "mc" else "LoadNeededParMC:") + label
                    + (":" + ",".join("%s=%s" % kv for kv in item[1].items()) if kind == "mc" else "")
                    + (":FairSpec+Termination" if (kind == "ln" or item[2]) else ":safety"))
        expect = item[3] if kind == "mc" else None
        if expect:
            if r.violated != expect:
                raise vf.FrameworkError("sanity mutant %s: the design as pinned must violate %s, TLC says %s" % (label, expect, r.violated))
            ctx.extra.setdefault("spec_sanity_mutants", []).append({"config": label, "violates": r.violated})
        elif r.violated:
            ctx.report("spec:%s:%s" % (r.violated, label), "the design specification violates %s in configuration %s" % (r.violated, label),
                       {"config": item[1] if kind == "mc" else label, "tlc": r.error_trace[:6000]})
    # MSeqRefresh / MSeqNext2 model a defensive branch of the sequential loop that invariant SeqNextFindsJob proves unreachable
    dead = sorted(a for a, g in covered.items() if g == 0 and a not in ("MSeqRefresh", "MSeqNext2"))
    ctx.extra["action_coverage"] = {"actions": len(covered), "dead": dead, "how": "tlc -coverage 1 on a parallel and a sequential configuration"}
    if dead or not covered:
        raise vf.FrameworkError("dead actions in ParConstruct.tla (never taken): %s" % dead)


def run(ctx):
    wd = vf.workdir("c18")
    lib = vf.build_lib("hooks")
    drv = vf.compile_driver("parconstruct_trace.cpp", lib)
    quick = ctx.quick
    scale = float(os.environ.get("C18_SCALE", "1"))

    # ---- 1. the real code, validated by TLC (runs first: it wants a quiet machine)
    stats = new_stats()
    n_par, n_seq, n_ln = (240, 40, 60) if quick else (3600, 600, 800)
    ran = real_runs(ctx, drv, wd, int(n_par * scale), int(n_seq * scale), int(n_ln * scale), 10 if quick else 40, stats)
    ctx.states += stats["dist"]
    ctx.transitions += stats["gen"]
    ctx.traces = stats["ok"]
    ctx.extra["executions_recorded"] = stats["executions"]
    ctx.extra["executions_rejected_and_confirmed"] = stats["rejected"]
    ctx.extra["unconfirmed_rejections"] = stats["unconfirmed"][:20]
    ctx.extra["reruns_for_confirmation"] = stats["reruns"]
    ctx.extra["scenarios_skipped"] = stats["skipped"][:10]
    ctx.extra["rule"] = ("one execution = one call of the real constructSurrogate / loadNeededValues; a rejection counts if the callback layer "
                         "(TLC on model-callback events only) violates a named clause, or if a re-run with the same seed (up to %d) is rejected again; "
                         "a watchdog (%d s) turns a hang into a rejected 'Hang' event" % (RERUNS, HANG_MS // 1000))
    modes = {}
    for kind, pairs, _ in ran:
        for line, ex in pairs:
            key = ex[0].get("mode", "?") + ":" + ex[0].get("fam", "") + (":nw=%s" % ex[0].get("nw", ex[0].get("nt")))
            modes[key] = modes.get(key, 0) + 1
    ctx.extra["executions_by_mode_family_threads"] = dict(sorted(modes.items()))
    for kind, pairs, _ in ran[:1] + ran[-1:]:
        line, ex = pairs[0]
        ctx.sample({"kind": "recorded execution prefix (code->spec)", "scenario": line, "events": ex[:16]})

    # ---- 2. binding: corrupted traces must be rejected
    if not ctx.violations:
        ctx.extra["binding_selftest"] = binding_selftest(ctx, ran, wd)

    # ---- 3. exhaustive model checking of the design
    model_checking(ctx, wd)

    ctx.assume("data races on memory that the hooks do not expose are not observable: NoRace is decided for x[id], y[id], work_flag, count_done "
               "and the manager / storage as modelled; the driver's own trace lock adds synchronisation to the observed runs")
    ctx.assume("the candidate generator is an environment: it never proposes a point that was already handed to loadConstructedPoints "
               "(checked on every recorded refresh) and may otherwise return any list")
    ctx.assume("thread schedules of the real runs are perturbed by seeded yields / sleeps but not controlled; exhaustiveness over interleavings comes from TLC on the specification")
    ctx.assume("condition-variable wake-ups are not observable: notifications and spurious wake-ups are not distinguished in traces; a lost wake-up shows as a hang")
    ctx.assume("checkpoint files (C17) and the numerical content of the surrogate are outside this model; values are identified by an integer tag in output 1")


# ----------------------------------------------------------------------------- replay

def replay(ctx, path):
    body = json.load(open(path))
    rp = body["replay"]
    wd = vf.workdir("c18-replay")
    lib = vf.build_lib("hooks")
    drv = vf.compile_driver("parconstruct_trace.cpp", lib)
    print("signature:", body["signature"])
    if "scenario" not in rp:
        print(body["description"])
        return 1
    kind = rp.get("kind", "pc")
    bad = 0
    # 1. the recorded execution itself: TLC's verdict on it is deterministic
    if rp.get("trace"):
        res, _, _ = validate_execs(kind, [rp["trace"]], os.path.join(wd, "recorded"))
        if res[0] is not None:
            clause = callback_layer(kind, rp["trace"], os.path.join(wd, "recorded")) if (res[0]["event"] or {}).get("e") != "Hang" else None
            print("recorded execution: rejected at line %d %s %s" % (res[0]["line"], json.dumps(res[0]["event"])[:300], clause or res[0]["what"]))
            bad += 1
        else:
            print("recorded execution: accepted by the current specification")
    # 2. the same scenario again on the current tree (same seed; the thread schedule is not reproducible)
    for t in range(RERUNS):
        pairs = run_driver(drv, [rp["scenario"]], os.path.join(wd, "r%d" % t))
        res, _, _ = validate_execs(kind, [pairs[0][1]], os.path.join(wd, "r%d" % t))
        if res[0] is not None:
            bad += 1
            clause = callback_layer(kind, pairs[0][1], os.path.join(wd, "r%d" % t)) if (res[0]["event"] or {}).get("e") != "Hang" else None
            print("run %d: rejected at line %d %s %s" % (t, res[0]["line"], json.dumps(res[0]["event"]), clause or res[0]["what"]))
        else:
            print("run %d: accepted" % t)
    if bad:
        print("VIOLATION property=C18 replay=%s" % path)
        return 1
    print("not reproduced (recorded execution accepted, %d fresh runs accepted)" % RERUNS)
    return 0


# ----------------------------------------------------------------------------- mutants of the implementation (scratch copy outside /repo and /verif)

MUTANTS = [
    ("PINNED DEFECT: initial launch loop without the budget test (revert of cc79f73)", "Addons/tsgConstructSurrogate.hpp",
     """            if (total_num_launched < max_num_points) // respect the budget, same as in collect_finished()
                x[id] = manager.next(max_num_points - total_num_launched);""",
     """            x[id] = manager.next(max_num_points - total_num_launched);"""),
    ("PINNED DEFECT: local polynomial candidates propose computed-but-unconnected samples again (revert of 512514e)", "SparseGrids/tsgGridLocalPolynomial.cpp",
     "    if (!dynamic_values->data.empty() && !new_points.empty()){", "    if (false){"),
    ("refresh forgets the running jobs (same job handed out twice)", "Addons/tsgCandidateManager.hpp",
     "            if (i < num_candidates) status[sorted[i]] = running;", "            if (i < num_candidates) status[sorted[i]] = free;"),
    ("worker notifies before it sets the flag and not afterwards (lost wake-up)", "Addons/tsgConstructSurrogate.hpp",
     ["""                { // must guarantee sync between work_flag and count_done, use a lock
                    std::lock_guard<std::mutex> lock(access_count_done);""",
      "                until_someone_done.notify_one(); // just finished some work, notify the main thread"],
     ["""                until_someone_done.notify_one();
                TSG_VERIF_SCHED("pc:worker_before_done");
                { // must guarantee sync between work_flag and count_done, use a lock
                    std::lock_guard<std::mutex> lock(access_count_done);""",
      "                // (notification moved before the critical section)"]),
    ("model called with thread id 0 by every worker", "Addons/tsgConstructSurrogate.hpp",
     "model(x[thread_id], y[thread_id], thread_id); // does the model evaluations", "model(x[thread_id], y[thread_id], 0); // does the model evaluations"),
    ("collect pairs the job with another worker's result buffer", "Addons/tsgConstructSurrogate.hpp",
     "                        complete.add(x[id], y[id]);", "                        complete.add(x[id], y[(id + 1) % num_parallel_jobs]);"),
    ("loadNeededValues forgets to mark the sample as checked out", "Addons/tsgLoadNeededValues.hpp",
     "if (sample < num_points) checked_out[sample] = true;", "if (sample < num_points) checked_out[sample] = (sample % 2 == 0);"),
]


def selftest(ctx):
    """apply each mutant to a scratch copy of the sources (outside /repo and /verif), run a reduced real-run campaign, expect a VIOLATION"""
    root = os.environ.get("C18_MUT_ROOT", "/tmp/c18mut")
    which = os.environ.get("C18_MUTANTS")
    rc = 0
    summary = []
    for mi, (name, rel, old, new) in enumerate(MUTANTS):
        if which and str(mi) not in which.split(","):
            continue
        shutil.rmtree(root, ignore_errors=True)
        os.makedirs(root)
        vf.sh("git -C /repo archive HEAD | tar -x -C %s" % root, check=True, timeout=300)
        src = open(os.path.join(root, rel)).read()
        olds, news = (old, new) if isinstance(old, list) else ([old], [new])
        for o, nw in zip(olds, news):
            if src.count(o) != 1:
                raise vf.FrameworkError("mutant %d does not apply" % mi)
            src = src.replace(o, nw)
        open(os.path.join(root, rel), "w").write(src)
        os.environ["VERIF_REPO"] = root
        os.environ["VERIF_BUILD_ROOT"] = os.path.join(root, "build")
        try:
            lib = vf.build_lib("hooks")
            drv = vf.compile_driver("parconstruct_trace.cpp", lib)
            c2 = vf.Ctx("C18", "quick", ctx.seed)
            c2.known = []
            c2.replay_dir = os.path.join(root, "replays")
            os.makedirs(c2.replay_dir, exist_ok=True)
            wd = vf.workdir("c18-mut%d" % mi)
            st = new_stats()
            t0 = time.time()
            real_runs(c2, drv, wd, 60, 10, 30, 10, st)
            sigs = sorted(set(v[0] for v in c2.violations))
            print("MUTANT %d (%s): %s  signatures=%s  executions=%d accepted=%d unconfirmed=%d  (%.0fs)"
                  % (mi, name, "VIOLATION" if sigs else "NOT DETECTED", sigs, st["executions"], st["ok"], len(st["unconfirmed"]), time.time() - t0))
            summary.append({"mutant": name, "detected": bool(sigs), "signatures": sigs})
            if not sigs:
                rc = 1
        finally:
            os.environ.pop("VERIF_REPO", None)
            os.environ.pop("VERIF_BUILD_ROOT", None)
            shutil.rmtree(root, ignore_errors=True)
    print(json.dumps(summary, indent=1))
    return rc
