"""C06 - write() then read() restores the complete observable state of a grid."""
import random
import gridlib as gl


def run(ctx):
    rnd = random.Random(ctx.seed + 606)
    n = 160 if ctx.quick else 1000
    scens = [gl.history(rnd, "r%d" % i, steps=rnd.randint(3, 8), with_rt=True, with_construct=True, with_transform=True, with_copy=(i % 2 == 0), with_coef=(i % 3 == 0)) for i in range(n)]
    scens += [gl.nonnested_history(rnd, "g%d" % i) for i in range(n // 4)]
    gl.run_grid(ctx, [("roundtrip", scens), ("mixed", gl.mixed_family(rnd, max(40, n // 5)))], gl.OBS_NODAL | gl.OBS_RT, "C06")
    ctx.assume("after every step the grid is written (ascii, binary; stream, file), read back, compared by projection, evaluation and quadrature weights, re-written and compared byte for byte, and cross-format; in a fraction of steps the history continues on the restored object")


def replay(ctx, path):
    return gl.replay(ctx, path, "C06", gl.OBS_NODAL | gl.OBS_RT)
