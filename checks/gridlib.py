"""Shared machinery of the grid checks (C01, C04, C06, C07, C08, C09, C11, C14, ...):
scenario generation (seeded random histories and TLC-generated histories), execution on the real
library through harness/grid_replay.cpp, validation of the recorded executions by TLC against
spec/GridTrace.tla, and attribution of each rejection to the property it concerns."""
import json
import os, time
import re

import vf

SEQ_RULES = ["leja", "rleja", "min-lebesgue", "max-lebesgue", "min-delta", "rleja-shifted"]
GLOBAL_NESTED = ["clenshaw-curtis", "clenshaw-curtis-zero", "fejer2", "gauss-patterson", "leja", "rleja", "leja-odd",
                 "rleja-odd", "rleja-double2", "rleja-double4", "rleja-shifted-even", "rleja-shifted-double",
                 "min-lebesgue", "max-lebesgue-odd", "min-delta"]
LOCAL_RULES = ["localp", "semi-localp", "localp-zero", "localp-boundary"]
LEVEL_TYPES = ["level", "iptotal", "qptotal"]
CURVED_TYPES = ["curved", "ipcurved", "qpcurved"]
HYPER_TYPES = ["hyperbolic", "iphyperbolic", "qphyperbolic"]
TENSOR_TYPES = ["tensor", "iptensor", "qptensor"]

OBS_NODAL, OBS_ROUTES, OBS_RT, OBS_EXACT, OBS_GRAD, OBS_TWIN = 1, 2, 4, 16, 32, 64

# which property a failed requirement speaks about (event name may refine it)
def attribute(req, event, ev=None, text=""):
    name = req[0] if isinstance(req, list) else req
    if name == "need" and ev is not None and (ev.get("st", {}).get("lim") or (ev.get("a") or {}).get("ll")):
        return "C08"      # the needed set was computed under level limits
    if event in ("copy", "copyctor", "assign"):
        return "C11"      # whatever is wrong right after a copy is a property of the copy
    if event == "setcoef" and not name.startswith("obs-"):
        return "C04"      # coefficient overwrite: coefficients read back, values inferred
    if event in ("remove", "removen") and not name.startswith("obs-"):
        return "EXT"      # removal by coefficient size is specified beyond the listed properties
    if name in ("obs-nodal",):
        return "C01"
    if name in ("obs-routes",):
        return "C04"
    if name in ("obs-rt",):
        return "C06"
    if name in ("obs-cli",):
        return "C16"
    if name in ("obs-grad",):
        return "C05"
    if name in ("obs-twin",):
        return "C10"
    if name in ("obs-exact-qspace", "obs-exact-q"):
        return "C02"
    if name in ("obs-exact-ispace", "obs-exact-i", "obs-exact-exception"):
        return "C03"
    if name in ("lim", "cand-limits", "candl-limits", "TLimits"):
        return "C08"
    if (event in ("cand", "candl") or name.startswith("cand")) and ev is not None and ev.get("st", {}).get("lim"):
        return "C08"      # a candidate set computed under stored level limits
    if event in ("loadc", "cand", "candl", "begin", "finish") or name.startswith("cand") or name.startswith("loadc"):
        return "C09"
    if event in ("copy", "copyctor", "assign") or name == "other-slot":
        return "C11"
    if event == "rtswap":
        return "C06"
    if event in ("bad", "loadwrong"):
        return "C14"
    if name == "result":
        # the requirement text carries the result class the specification expects
        expected_error = ("runtime_error" in text or "invalid_argument" in text)
        if event in ("surp", "surpl") and not expected_error:
            return "C07"        # a documented call (e.g. a scale correction) was refused
        return "C14"
    return "C07"


def mixed_family(rnd, n, tag="x"):
    """histories with every kind of step enabled (copies, file round trips, transforms, construction, coefficient overwrites,
    removal, documented misuse): every grid check runs a slice of it, so that a rejection owned by another property is also seen
    by that property's own check"""
    return [history(rnd, "%s%d" % (tag, i), steps=rnd.randint(4, 9), with_bad=(i % 3 == 0), with_copy=(i % 2 == 0), with_rt=(i % 4 == 1),
                    with_construct=True, with_transform=(i % 2 == 1), with_coef=(i % 3 == 1)) for i in range(n)]


NON_NESTED = ["gauss-legendre", "gauss-legendre-odd", "gauss-chebyshev1", "gauss-chebyshev2-odd", "gauss-gegenbauer", "gauss-jacobi", "gauss-laguerre",
              "gauss-hermite-odd", "chebyshev", "chebyshev-odd", "custom-tabulated", "custom-tabulated"]


def local3d_history(rnd, label):
    """local polynomial grids in three dimensions, every rule and order, loaded once and after a refinement: the
    surplus computation switches algorithms with the dimension (DAG walk below three, Kronecker pattern from three on)"""
    d = 3          # (token values distinguish three coordinates)
    rule = rnd.choice(LOCAL_RULES)
    order = rnd.choice([1, 2, 2, 3, 3, -1])
    depth = 2
    L = ["SCEN " + label, "make localp %d %d %d %d %s 0" % (d, rnd.choice([1, 2]), depth, order, rule), "load 1"]
    if rnd.random() < 0.5:
        L.append("surpl %d -1 %s 0 0" % (rnd.choice([1, 2, 3]), rnd.choice(["stable", "classic", "fds"])))
        L.append("load 2")
    return "\n".join(L) + "\n"


def nonnested_history(rnd, label):
    """Global grids with non-nested rules (Gauss families with their parameters, a custom tabulated rule): make, transforms, loads,
    continuing on the restored object, copies.  Their point numbering is an observation of the specification, refinement is not
    documented for them."""
    d = rnd.choice([1, 2, 2, 3])
    rule = rnd.choice(NON_NESTED)
    outs = rnd.choice([0, 1, 2])
    t = rnd.choice(["level", "level", "iptotal", "qptotal", "tensor", "hyperbolic", "qpcurved"])
    aw = []
    if rnd.random() < 0.4:
        aw = [rnd.randint(1, 3) for _ in range(d)] + ([rnd.randint(0, 2) for _ in range(d)] if t in ("qpcurved",) else [])
        if t == "hyperbolic":
            aw = []
    depth = rnd.randint(1, {1: 5, 2: 3, 3: 2}[d] - (1 if rule.endswith("odd") else 0))
    if t == "tensor":
        depth = min(depth, 2)
        aw = aw[:d] if aw else []
    if t in ("iptotal", "qptotal", "qpcurved"):
        depth += 2
    if rule.startswith("gauss-j"):
        alpha, beta = rnd.choice([(0.5, 1.5), (1.0, 0.0), (2.0, 1.0)])
    elif "gegenbauer" in rule or "laguerre" in rule or "hermite" in rule:
        alpha, beta = rnd.choice([0.0, 0.5, 2.0]), 0.0
    else:
        alpha, beta = 0.0, 0.0
    L = ["SCEN " + label, "make global %d %d %d %s %s %s %s %g %g" % (d, outs, depth, t, rule, ivec(aw), ivec(rnd_limits(rnd, d, 0, 3, 0.6)), alpha, beta)]
    epoch = 0
    for _ in range(rnd.randint(2, 5)):
        k = rnd.random()
        if k < 0.25:
            if "laguerre" in rule or "hermite" in rule:
                a = [rnd.choice([-1, 0, 2]) for _ in range(d)]
                b = [rnd.choice([1, 2, 4, 0.5]) for _ in range(d)]
            else:
                a = [rnd.choice([-2, -1, 0, 1]) for _ in range(d)]
                b = [x + rnd.choice([1, 2, 4]) for x in a]
            L.append("transform %d %s %d %s" % (d, " ".join(map(str, a)), d, " ".join(map(str, b))))
        elif k < 0.5 and outs > 0:
            epoch += 1
            L.append("load %d" % epoch)
        elif k < 0.7:
            L.append("rtswap %d" % rnd.randint(0, 1))
        elif k < 0.85:
            L.append(rnd.choice(["@2 copyctor", "@2 assign", "@2 copy 0 -1"]))
        elif k < 0.93:
            L.append("@2 rtswap %d" % rnd.randint(0, 1))
        else:
            L.append(rnd.choice(["cleartransform", "clearlimits"]))
    return "\n".join(L) + "\n"


def ivec(v):
    return "%d %s" % (len(v), " ".join(str(x) for x in v)) if v else "0"


def rnd_limits(rnd, d, lo=0, hi=3, p_none=0.5):
    if rnd.random() < p_none:
        return []
    return [rnd.choice([-1] + list(range(lo, hi + 1))) for _ in range(d)]


def rnd_type_weights(rnd, d, allow_curved=True):
    """selection type and anisotropic weights covered exactly by Selection.tla"""
    r = rnd.random()
    if r < 0.45:
        t = rnd.choice(LEVEL_TYPES)
        aw = [] if rnd.random() < 0.5 else [rnd.randint(1, 3) for _ in range(d)]
    elif r < 0.6:
        t = rnd.choice(TENSOR_TYPES)
        aw = [] if rnd.random() < 0.5 else [rnd.randint(1, 2) for _ in range(d)]
    elif r < 0.75:
        t = rnd.choice(HYPER_TYPES)
        aw = [] if rnd.random() < 0.6 else [rnd.choice([1, 2])] * d
    elif allow_curved:
        t = rnd.choice(CURVED_TYPES)
        if rnd.random() < 0.3:
            aw = []
        else:
            lin = [rnd.randint(1, 3) for _ in range(d)]
            cur = [rnd.randint(0, 2) for _ in range(d)]
            aw = lin + cur
    else:
        t, aw = "level", []
    return t, aw


def make_line(rnd, fam=None, small=True, outs=None, d=None, limits=None):
    fam = fam or rnd.choice(["sequence", "global", "localp", "wavelet", "fourier"])
    d = d or rnd.choice([1, 2, 2, 2, 3])
    if outs is None:
        outs = rnd.choice([1, 1, 2, 3])
    if fam in ("sequence", "global", "fourier"):
        t, aw = rnd_type_weights(rnd, d)
        rule = rnd.choice(SEQ_RULES) if fam == "sequence" else rnd.choice(GLOBAL_NESTED) if fam == "global" else "fourier"
        maxdepth = {1: 5, 2: 4, 3: 3}[d]
        if fam == "fourier":
            maxdepth = {1: 3, 2: 2, 3: 2}[d]       # 3-D needs depth 2 for tensors that are non-constant in two non-adjacent directions
        if fam == "global" and rule in ("clenshaw-curtis", "clenshaw-curtis-zero", "fejer2", "gauss-patterson", "rleja-shifted-double"):
            maxdepth = {1: 4, 2: 3, 3: 2}[d]
        depth = rnd.randint(0 if rnd.random() < 0.1 else 1, maxdepth)
        if t in TENSOR_TYPES:
            depth = min(depth, 2 if d > 1 else 3)
            if aw:
                depth = min(depth, 1)
        if t in HYPER_TYPES:
            depth = min(depth + 1, 5)
        if t not in ("level", "curved", "hyperbolic", "tensor") and fam == "global" and rule.startswith("rleja-shifted-double"):
            depth = min(depth, 2)
        ll = limits if limits is not None else rnd_limits(rnd, d, 0, 3)
        line = "make %s %d %d %d %s" % (fam, d, outs, depth, t)
        if fam != "fourier":
            line += " " + rule
        line += " " + ivec(aw) + " " + ivec(ll)
        if fam == "global":
            line += " 0 0"
        return line, dict(fam=fam, d=d, outs=outs, rule=rule)
    order = rnd.choice([1, 1, 2, 0, -1, 3]) if fam == "localp" else rnd.choice([1, 1, 3])
    rule = rnd.choice(LOCAL_RULES) if fam == "localp" else "wavelet"
    maxdepth = {1: 4, 2: 3, 3: 2}[d]
    if fam == "wavelet":
        maxdepth = {1: 3, 2: 2, 3: 1}[d] if order == 1 else {1: 2, 2: 1, 3: 0}[d]
    if fam == "localp" and order == 0:
        maxdepth = {1: 3, 2: 2, 3: 1}[d]
    depth = rnd.randint(0 if rnd.random() < 0.1 else min(1, maxdepth), maxdepth)
    ll = limits if limits is not None else rnd_limits(rnd, d, 0, 3)
    line = "make %s %d %d %d %d" % (fam, d, outs, depth, order)
    if fam == "localp":
        line += " " + rule
    line += " " + ivec(ll)
    return line, dict(fam=fam, d=d, outs=outs, rule=rule, order=order)


LOCAL_CRIT = ["classic", "classic", "parents", "direction", "fds", "stable"]


def refine_line(rnd, info, allow_scale=True):
    fam, d, outs = info["fam"], info["d"], info["outs"]
    out = rnd.choice([-1] + list(range(max(outs, 1))))
    if fam in ("localp", "wavelet"):
        rank = rnd.choice([-1, 0, 1, 2, 3, 5, 8])
        crit = rnd.choice(LOCAL_CRIT)
        ll = rnd_limits(rnd, d, 1, 4, 0.6)
        smode = rnd.choice([0, 0, 1, 2]) if (allow_scale and fam == "localp") else 0
        return "surpl %d %d %s %s %d" % (rank, out, crit, ivec(ll), smode)
    if fam == "fourier":
        t = rnd.choice(["iptotal", "level", "ipcurved"])
        return "aniso %s %d %d %s" % (t, rnd.randint(1, 6), max(out, 0) if rnd.random() < 0.7 else out, ivec(rnd_limits(rnd, d, 1, 3, 0.7)))
    r = rnd.random()
    if r < 0.4:
        return "surp %d %d %s" % (rnd.choice([0, 1, 2, 3, 5]), out, ivec(rnd_limits(rnd, d, 1, 5, 0.6)))
    if r < 0.7:
        t = rnd.choice(["iptotal", "level", "ipcurved", "qptotal", "iphyperbolic"])
        return "aniso %s %d %d %s" % (t, rnd.randint(1, 8), out, ivec(rnd_limits(rnd, d, 2, 6, 0.7)))
    t, aw = rnd_type_weights(rnd, d)
    return "update %d %s %s %s" % (rnd.randint(1, 4 if d < 3 else 3), t, ivec(aw), ivec(rnd_limits(rnd, d, 1, 4, 0.7)))


BAD_ANY = ["make_dims0", "make_outs_neg", "make_depth_neg", "make_rule_seq", "make_rule_local", "make_order",
           "make_global_rule_none", "make_global_rule_localp", "make_global_rule_wavelet", "make_global_rule_fourier", "make_seq_rule_none",
           "make_seq_rule_cc", "make_seq_rule_localp", "make_local_rule_none", "make_local_rule_cc", "make_local_rule_wavelet",
           "make_wavelet_order", "make_aw_size", "make_ll_size", "make_aw_ok_ll_bad", "make_local_ll_size", "make_wavelet_ll_size",
           "make_fourier_aw_size", "read_missing", "read_garbage", "read_future",
           "read_unknown_type", "read_trunc_asc", "read_trunc_bin", "read_bin_garbage"]
BAD_NONEMPTY = ["transform_size", "transform_a_size", "transform_b_size", "transform_b_empty", "cand_aw_ok_ll_bad", "cand_aw_bad_ll_ok", "load_size",
                "aniso_growth", "aniso_output", "aniso_ll_size", "surp_tol_neg", "surp_output", "surp_ll_size",
                "surpl_output", "surpl_ll_size", "cand_ll_size", "cand_output", "cand_aw_size", "candl_output",
                "candl_ll_size", "loadc_ysize", "setcoef_size", "cand_not_constructing", "loadc_not_constructing"]
BAD_LOADED = ["eval_size", "iweights_size", "dweights_size", "surpl_scale_size"]
# only clauses the API documentation announces are exercised (see the \\throws entries of TasmanianSparseGrid.hpp)


def history(rnd, label, fam=None, steps=6, with_bad=False, with_copy=False, with_rt=False, with_construct=True,
            with_transform=False, limits=None, d=None, with_coef=False):
    """one random operation history on one (or two) grid objects"""
    L = ["SCEN " + label]
    if with_coef and fam is None and rnd.random() < 0.3:
        fam = "localp"          # removal by coefficient size exists for local polynomial grids only
    line, info = make_line(rnd, fam, limits=limits, d=d)
    L.append(line)
    epoch = 0
    loaded = False
    fam = info["fam"]
    constructing = False
    for _ in range(steps):
        r = rnd.random()
        if with_bad and rnd.random() < 0.25:
            pool = BAD_ANY + BAD_NONEMPTY + (BAD_LOADED if loaded and not constructing else [])
            w = rnd.choice(pool)
            if constructing and w in ("cand_not_constructing", "loadc_not_constructing"):
                w = "load_size"
            if w in ("surpl_scale_size",) and fam not in ("localp",):
                w = "eval_size" if loaded else "make_dims0"
            L.append("bad " + w)
            continue
        if with_transform and rnd.random() < 0.15:
            d = info["d"]
            if rnd.random() < 0.7:
                a = [rnd.choice([-2, -1, 0, 1]) for _ in range(d)]
                b = [x + rnd.choice([1, 2, 4]) for x in a]
                L.append("transform %d %s %d %s" % (d, " ".join(map(str, a)), d, " ".join(map(str, b))))
            else:
                L.append(rnd.choice(["cleartransform", "clearlimits"]))
            continue
        if with_copy and rnd.random() < 0.2:
            k = rnd.random()
            if k < 0.4:
                b = rnd.randint(0, max(info["outs"] - 1, 0))
                e = rnd.choice([-1] + list(range(b + 1, info["outs"] + 1))) if info["outs"] > 0 else -1
                L.append("@2 copy %d %d" % (b, e))
            elif k < 0.7:
                L.append("@2 copyctor")
            else:
                L.append("@2 assign")
            # mutate one side afterwards: the spec requires the other side to stay as it was
            if rnd.random() < 0.5:
                epoch += 1
                L.append("@2 load %d" % epoch)
            continue
        if with_rt and rnd.random() < 0.2:
            L.append("rtswap %d" % rnd.randint(0, 1))
            continue
        if with_coef and not constructing and rnd.random() < 0.12:
            epoch += 1
            L.append("setcoef %d" % epoch)       # coefficients overwritten directly (the needed points become loaded if nothing was)
            loaded = True
            continue
        if constructing:
            k = rnd.random()
            if with_bad and rnd.random() < 0.2:
                # out-of-order: refinement while construction is active (documented runtime_error); updateGrid has no such clause
                cand = [refine_line(rnd, info) for _ in range(6)]
                cand = [c for c in cand if not c.startswith("update")]
                if cand:
                    L.append(cand[0])
                    continue
            if k < 0.25:
                L.append(cand_line(rnd, info))
            elif k < 0.8:
                epoch += 1
                L.append(cand_line(rnd, info))
                L.append("loadpool %d %d %d %d" % (epoch, rnd.choice([0, 1, 2, 3, 5]), rnd.randint(1, 10 ** 6), rnd.choice([1, 1, 2, 4, 50])))
                loaded = True
            else:
                L.append("finish")
                constructing = False
            continue
        if not loaded:
            if with_construct and rnd.random() < 0.25:
                L.append("begin")
                constructing = True
                continue
            epoch += 1
            L.append("load %d" % epoch)
            loaded = True
            continue
        if r < 0.45:
            L.append(refine_line(rnd, info))
            if rnd.random() < 0.75:
                epoch += 1
                L.append("load %d" % epoch)
            elif rnd.random() < 0.5:
                L.append(rnd.choice(["clear", "merge"]))
        elif r < 0.55:
            epoch += 1
            L.append("load %d" % epoch)       # overwriting reload
        elif r < 0.65 and with_construct:
            L.append("begin")
            constructing = True
        elif r < 0.72:
            L.append(rnd.choice(["clear", "merge", "clearlimits"]))
        else:
            L.append(refine_line(rnd, info))
    if with_coef and fam == "localp" and loaded and not constructing and rnd.random() < 0.6:
        # points removed by coefficient size; afterwards only what the documentation calls safe: get, evaluate, file I/O, copies
        out = rnd.randint(-1, info["outs"] - 1)
        for _ in range(rnd.randint(1, 3)):
            k = rnd.random()
            if k < 0.4:
                L.append("remove %d %d" % (rnd.randint(0, 12), out))
            elif k < 0.6:
                L.append("removen %d %d" % (rnd.randint(0, 9), out))
            elif k < 0.75:
                L.append("@2 copyctor")
            elif k < 0.85:
                L.append("@2 copy 0 -1")
            else:
                L.append("rtswap %d" % rnd.randint(0, 1))
    return "\n".join(L) + "\n"


def cand_line(rnd, info):
    fam, d, outs = info["fam"], info["d"], info["outs"]
    if fam in ("localp", "wavelet"):
        return "candl %d %d %s %s" % (rnd.choice([-1, -1, 0, 1, 2, 4]), rnd.choice([-1] + list(range(max(outs, 1)))),
                                    rnd.choice(["classic", "classic", "parents", "stable", "fds"]), ivec(rnd_limits(rnd, d, 1, 4, 0.7)))
    if rnd.random() < 0.5:
        t = rnd.choice(["level", "iptotal", "iphyperbolic", "qptotal"])
        return "cand %s %d 0 %s" % (t, rnd.choice([-1] + list(range(max(outs, 1)))), ivec(rnd_limits(rnd, d, 1, 5, 0.6)))
    t = rnd.choice(["level", "iptotal", "hyperbolic"])
    return "cand %s -2 %s %s" % (t, ivec([rnd.randint(1, 3) for _ in range(d)]), ivec(rnd_limits(rnd, d, 1, 5, 0.6)))


# ------------------------------------------------------------------------------------------ execution + validation

def split_execs(rows):
    out, cur = [], []
    for r in rows:
        if r["e"] == "Reset" and cur:
            out.append(cur)
            cur = []
        cur.append(r)
    if cur:
        out.append(cur)
    return out


def slim(ev):
    """shorten an event for reports"""
    if ev is None:
        return None
    e = {k: ev[k] for k in ("e", "o", "a", "r") if k in ev}
    st = ev.get("st", {})
    e["st"] = {k: st.get(k) for k in ("fam", "rule", "order", "dims", "outs", "nl", "nn", "lim", "con") if k in st}
    if "cand" in ev:
        e["cand"] = ev["cand"][:40]
    e["need"] = st.get("need", [])[:40]
    e["obs"] = ev.get("obs")
    return e


def tlc_view(r):
    """the part of a recorded event that GridTrace.tla reads (numeric digests and worst-error notes are for other comparisons)"""
    o = r.get("obs")
    if not isinstance(o, dict):
        return r
    o2 = {}
    for k, v in o.items():
        if k in ("num", "grad_fd_worst"):
            continue
        o2[k] = {f: x for f, x in v.items() if f != "worst"} if isinstance(v, dict) else v
    r2 = dict(r)
    r2["obs"] = o2
    return r2


def validate_file(path):
    """TLC-validate a concatenated trace; after a rejection the offending execution is dropped and the rest re-run"""
    rows = vf.read_ndjson(path)
    execs = split_execs(rows)
    total = len(execs)
    if total == 0:
        return {"ok": 0, "rej": [], "gen": 0, "dist": 0, "left": 0, "total": 0}
    rejections, n_ok, gen, dist, rounds = [], 0, 0, 0, 0
    while execs and rounds < 8:
        rounds += 1
        cur = path + ".cur%d" % rounds
        vf.write_ndjson(cur, [r for ex in execs for r in ex])
        r = vf.run_tlc("GridTrace.tla", "GridTrace.cfg", workers=1, timeout=3000, env={"TRACE": cur}, xmx="4g")
        gen += r.generated
        dist += r.distinct
        if r.ok():
            n_ok += len(execs)
            execs = []
            break
        m = re.search(r'"REJECTED_AT", (\d+)', r.out)
        fails = []
        for fm in re.finditer(r'<<\s*"FAIL",\s*(\d+),\s*((?:<<\s*)?"[^"]+")', r.out):
            body = r.out[fm.start():fm.start() + 1500]
            end = body.find("\n<<", 5)
            fails.append((fm.group(1), fm.group(2).replace("<<", "").strip() + " | " + " ".join(body[:end if end > 0 else 1500].split())[:900]))
        inv = None
        if r.violated and r.violated != "postcondition" and not m:
            lm = re.findall(r"/\\ l = (\d+)", r.error_trace)
            pos = (int(lm[-1]) - 1) if lm else 1     # the state after consuming line l-1 violates the invariant
            inv = r.violated
        elif m:
            pos = int(m.group(1))
        else:
            raise vf.FrameworkError("GridTrace validation failed without verdict on %s\n%s" % (path, r.out[-4000:]))
        acc = 0
        bad = len(execs) - 1
        for idx, ex in enumerate(execs):
            if pos <= acc + len(ex):
                bad = idx
                break
            acc += len(ex)
        k = pos - acc - 1
        ex = execs[bad]
        ev = ex[k] if 0 <= k < len(ex) else None
        reqs = [f[1] for f in fails if int(f[0]) == pos]
        rejections.append({"line": k + 1, "event": slim(ev), "requirements": reqs if not inv else ["INVARIANT " + inv],
                           "invariant": inv, "scenario": ex[0].get("scen"), "prefix": [slim(x) for x in ex[max(0, k - 3):k]],
                           "raw_req": reqs})
        n_ok += bad
        execs = execs[bad + 1:]
    return {"ok": n_ok, "rej": rejections, "gen": gen, "dist": dist, "left": len(execs), "total": total}


def req_name(reqtext):
    m = re.match(r'\s*"([^"]+)"', reqtext)
    if m:
        return m.group(1)
    return reqtext.strip('"')


def add_salt(text, key):
    """append the token salt to the SCEN line of a scenario (two of three scenarios get a non-zero one, derived from the label)"""
    import zlib
    first, _, rest = text.partition("\n")
    parts = first.split()
    if len(parts) != 2:
        return text
    h = zlib.crc32((parts[1] + ":" + key).encode())
    salt = 0 if h % 3 == 0 else (h // 3) % 96
    return "%s %s %d\n%s" % (parts[0], parts[1], salt, rest)


def run_grid(ctx, scen_sets, obs_mask, prop, chunk=None, timeout=240, variant="hooks", env=None, tag="", keep_traces=None, exec_nproc=None, driver="grid_replay.cpp", own_all=False, validate=True, identical_to=None):
    """scen_sets: list of (label, [scenario text]).  Executes on the real library, validates with TLC,
    reports rejections that concern `prop`; others are counted as foreign (and examined by their own check)."""
    lib = vf.build_lib(variant)
    drv = vf.compile_driver(driver, lib)
    wd = vf.workdir(prop.lower() + tag)
    chunk = chunk or (10 if ctx.quick else 25)
    files = []
    nscen = 0
    for label, scens in scen_sets:
        nscen += len(scens)
        for ci in range(0, len(scens), chunk):
            sp = os.path.join(wd, "%s-%d.scen" % (label, ci))
            tp = os.path.join(wd, "%s-%d.ndjson" % (label, ci))
            open(sp, "w").write("".join(add_salt(t, prop) for t in scens[ci:ci + chunk]))
            files.append((label, sp, tp))

    crashes = []

    def exec_one(f):
        """run the driver; after a crash / hang inside the library record it and resume with the remaining scenarios"""
        label, sp, tp = f
        text = open(sp).read()
        scen_texts = ["SCEN" + t for t in text.split("SCEN")[1:]]
        done_rows = []
        start = 0
        attempts = 0
        while start < len(scen_texts) and attempts < 12:
            attempts += 1
            part_s, part_t = sp + ".part", tp + ".part"
            open(part_s, "w").write("".join(scen_texts[start:]))
            if driver == "cli_replay.cpp":
                own = tp + ".dir"
                os.makedirs(own, exist_ok=True)
                p = vf.sh([drv, part_s, part_t, os.path.join(lib, "tasgrid"), own], timeout=timeout, env=env)
            else:
                p = vf.sh([drv, part_s, part_t, str(obs_mask), wd], timeout=timeout, env=env)
            rows = vf.read_ndjson_lenient(part_t)
            if p.returncode == 0:
                done_rows += rows
                start = len(scen_texts)
                break
            # abnormal exit: the last started scenario is the one that crashed
            nstarted = sum(1 for r in rows if r.get("e") == "Reset")
            bad = start + max(nstarted - 1, 0)
            if p.timed_out:
                # the time limit covers the whole chunk: on a loaded machine it can expire although nothing hangs.
                # Only a scenario that does not finish on its own, with a generous limit, is a hang.
                one_s, one_t = sp + ".one", tp + ".one"
                open(one_s, "w").write(scen_texts[bad])
                if driver == "cli_replay.cpp":
                    p1 = vf.sh([drv, one_s, one_t, os.path.join(lib, "tasgrid"), own], timeout=max(timeout, 600), env=env)
                else:
                    p1 = vf.sh([drv, one_s, one_t, str(obs_mask), wd], timeout=max(timeout, 600), env=env)
                if p1.returncode == 0:
                    keep1, cur1 = [], []
                    for r in rows:
                        if r.get("e") == "Reset":
                            cur1 = []
                        cur1.append(r)
                        if r.get("e") == "End":
                            keep1 += cur1
                            cur1 = []
                    done_rows += keep1 + vf.read_ndjson_lenient(one_t)
                    start = bad + 1
                    attempts -= 1        # not a failure of the library
                    continue
            # keep the complete executions only
            keep, cur = [], []
            for r in rows:
                if r.get("e") == "Reset":
                    cur = []
                cur.append(r)
                if r.get("e") == "End":
                    keep += cur
                    cur = []
            done_rows += keep
            lines = scen_texts[bad].strip().split("\n")
            nev = len([r for r in cur if r.get("e") not in ("Reset",)])
            crashes.append({"scenario_file": sp, "scenario": lines[0], "rc": p.returncode, "timed_out": p.timed_out,
                            "events_before": [slim(r) for r in cur[-3:]], "script": lines[:nev + 3],
                            "crashing_line_approx": lines[min(nev + 1, len(lines) - 1)]})
            start = bad + 1
        vf.write_ndjson(tp, done_rows)
        return 0

    t_x = time.time()
    vf.parallel_map(exec_one, files, nproc=exec_nproc)
    if os.environ.get("VERIF_TIMING"):
        print("exec wall %.1fs" % (time.time() - t_x))
    for c in crashes:
        act = c["crashing_line_approx"].split()
        act = [a for a in act if not a.startswith("@")]
        sig = "crash:%s:%s" % (act[0] if act else "?", "hang" if c["timed_out"] else "rc=%s" % c["rc"])
        ctx.report(sig, "the library crashed or hung inside a scripted call (no exception): %s" % json.dumps(c)[:1500], c)
    ctx.extra["driver_crashes"] = ctx.extra.get("driver_crashes", 0) + len(crashes)
    # which trace actions the recorded executions exercise (vacuity: an action never taken was never checked)
    counts = ctx.extra.setdefault("events_by_action", {})
    for f in files:
        for r in vf.read_ndjson(f[2]):
            k = r.get("e", "?")
            if k not in ("Reset", "End"):
                counts[k] = counts.get(k, 0) + 1
    if not validate:
        # executions recorded for comparison only (grids too large for TLC's set arithmetic)
        if keep_traces is not None:
            for f in files:
                keep_traces[os.path.basename(f[1])] = f[2]
        return []
    if identical_to:
        # TLC's verdict is a function of the fields it reads: an execution that equals, field for field, an execution already
        # validated (the serial build's) needs no second run; only executions that differ are validated again
        skipped = 0
        for label, sp, tp in files:
            refp = identical_to.get(os.path.basename(sp))
            if not refp:
                continue
            ref_ex = {ex[0].get("scen"): [tlc_view(r) for r in ex] for ex in split_execs(vf.read_ndjson(refp))}
            keep = []
            for ex in split_execs(vf.read_ndjson(tp)):
                if ref_ex.get(ex[0].get("scen")) == [tlc_view(r) for r in ex]:
                    skipped += 1
                else:
                    keep += ex
            os.replace(tp, tp + ".full")
            vf.write_ndjson(tp, keep)
        ctx.extra["executions_identical_to_validated_serial_trace"] = ctx.extra.get("executions_identical_to_validated_serial_trace", 0) + skipped
        ctx.traces += skipped

    def timed_validate(tp):
        t0 = time.time()
        r = validate_file(tp)
        r["wall"] = time.time() - t0
        return r

    t_exec = time.time()
    # longest traces first so that the tail of the pool is short
    order = sorted(range(len(files)), key=lambda i: -os.path.getsize(files[i][2]))
    res_o = vf.parallel_map(timed_validate, [files[i][2] for i in order], nproc=16)
    res = [None] * len(files)
    for i, r in zip(order, res_o):
        res[i] = r
    if os.environ.get("VERIF_TIMING"):
        print("validate wall %.1fs; slowest: %s" % (time.time() - t_exec, sorted([(round(r["wall"], 1), os.path.basename(f[2])) for f, r in zip(files, res)], reverse=True)[:6]))
    foreign = {}
    for f, r in zip(files, res):
        ctx.traces += r["ok"]
        ctx.states += r["dist"]
        ctx.transitions += r["gen"]
        ctx.extra["executions_unexamined"] = ctx.extra.get("executions_unexamined", 0) + r["left"]
        for rj in r["rej"]:
            ev = rj["event"] or {}
            names = [req_name(x) for x in rj["raw_req"]] or ([rj["invariant"]] if rj["invariant"] else ["truncated"])
            name = names[0]
            owner = attribute(name, ev.get("e", "?"), ev, (rj["raw_req"] or [""])[0]) if name != "truncated" else prop
            # an event may fail several requirements at once (e.g. the nodal observation and the route identities): the running
            # check reports it if it owns any of them, under that requirement's name
            if owner != prop and len(names) > 1:
                for nm, raw in zip(names[1:], rj["raw_req"][1:]):
                    if attribute(nm, ev.get("e", "?"), ev, raw) == prop:
                        name, owner = nm, prop
                        rj = dict(rj)
                        rj["raw_req"] = [raw] + [r for r in rj["raw_req"] if r is not raw]
                        break
            if ev.get("r") == "timeout":
                owner = "C08"       # a refinement / update call that does not return
            if rj["invariant"] == "TLimits":
                owner = "C08"
            st = ev.get("st", {})
            sig = "%s:%s:%s:%s%s" % (ev.get("e", "?"), name, st.get("fam", "?"), sig_detail(ev, rj), sig_suffix(ev, (rj["raw_req"] or [""])[0]))
            if name == "obs-nodal" and ev.get("e") == "finish" and prop == "C09":
                owner = "C09"         # the surrogate of a constructed grid differs from the one-batch surrogate: C01 and C09 both own it
            if prop == "C11" and ev.get("o") == 2 and owner in ("C09", "C07", "C08"):
                owner = "C11"         # slot 2 holds the copy: a candidate, promotion or refinement outcome that differs from the specification's is a copy that is not complete
            if name == "need" and owner == "C08" and ev.get("e") in ("surp", "surpl") and prop == "C07":
                owner = "C07"         # a surplus refinement under level limits that does not propose the documented children: C07 and C08 both own it
            if own_all:
                owner = prop          # every state in these traces was produced by the front end under test
            if owner != prop:
                foreign[owner] = foreign.get(owner, 0) + 1
                ctx.extra.setdefault("foreign_samples", [])
                if len(ctx.extra["foreign_samples"]) < 5:
                    ctx.extra["foreign_samples"].append({"owner": owner, "signature": sig})
                continue
            ctx.report(sig, "recorded execution rejected by GridTrace.tla: event %s failed requirement(s) %s"
                       % (json.dumps(ev)[:1500], rj["requirements"]),
                       {"scenario_file": f[1], "trace_file": f[2], "scenario": rj["scenario"], "line_in_execution": rj["line"],
                        "prefix": rj["prefix"], "event": ev,
                        "how": "build/<hooks>/drv-grid_replay <scenario_file> out.ndjson %d . ; TRACE=out.ndjson tlc -workers 1 -config spec/GridTrace.cfg spec/GridTrace.tla" % obs_mask})
    if keep_traces is not None:
        for f in files:
            keep_traces[os.path.basename(f[1])] = f[2]
    ctx.extra["executions_recorded"] = ctx.extra.get("executions_recorded", 0) + nscen
    ctx.extra["rejections_owned_by_other_properties"] = foreign
    if foreign:
        print("NOTE: rejections owned by other properties (examined by their own checks, which run the same mixed family): %s" % json.dumps(foreign))
    if files:
        rows = vf.read_ndjson(files[0][2])
        ctx.sample({"kind": "recorded execution prefix", "events": [slim(r) for r in rows[:4]]})
        ctx.sample({"kind": "scenario script", "text": open(files[0][1]).read().split("SCEN")[1][:600]})
    return res


def sig_detail(ev, rj):
    a = ev.get("a", {}) or {}
    e = ev.get("e")
    if e == "surpl":
        return "crit=%s,smode=%s" % (a.get("crit"), a.get("smode"))
    if e == "bad":
        return "which=%s,r=%s" % (a.get("which"), ev.get("r"))
    if e in ("cand", "candl"):
        return "type=%s,ll=%s" % (a.get("type", a.get("crit")), "set" if a.get("ll") else "none")
    if e in ("update", "aniso", "make"):
        return "type=%s,ll=%s" % (a.get("type"), "set" if a.get("ll") else "none")
    if e == "loadc":
        return "n=%d" % len(a.get("p", []))
    return "r=%s" % ev.get("r")


def sig_suffix(ev, text=""):
    s = ":timeout" if ev.get("r") == "timeout" else ""
    if "after-a-child-was-promoted-before-a-parent" in text:
        s += ":child-before-parent-history"
    return s


def replay(ctx, path, prop, obs_mask):
    """re-run the scenario named in a replay file on the current tree and print the verdict"""
    body = json.load(open(path))
    rp = body.get("replay", {})
    sf, label = rp.get("scenario_file"), (rp.get("scenario") or "").replace("SCEN ", "")
    if not sf or not os.path.exists(sf):
        print("replay file does not name an existing scenario file: %s" % sf)
        return 3
    text = open(sf).read()
    parts = ["SCEN" + t for t in text.split("SCEN")[1:]]
    mine = [p for p in parts if p.split("\n")[0].strip() == "SCEN " + label]
    if not mine:
        print("scenario %s not found in %s" % (label, sf))
        return 3
    res = run_grid(ctx, [("replay", mine)], obs_mask, prop)
    rc = 1 if ctx.violations or ctx.known_hits else 0
    print("replay of %s / %s: %s" % (sf, label, "rejected again" if rc else "accepted"))
    return rc


# ------------------------------------------------------------------------------------------ spec -> code (GridMC Gen)

def mc_cfg_text(name, emit, maxlen=None, maxpts=None, maxdepth=None):
    txt = open(os.path.join(vf.SPEC, "GridMC-%s.cfg" % name)).read()
    txt = txt.replace("EMIT = FALSE", "EMIT = %s" % ("TRUE" if emit else "FALSE"))
    if maxlen is not None:
        txt = re.sub(r"MAXLEN = \d+", "MAXLEN = %d" % maxlen, txt)
    if maxpts is not None:
        txt = re.sub(r"MAXPTS = \d+", "MAXPTS = %d" % maxpts, txt)
    if maxdepth is not None:
        txt = re.sub(r"MAXDEPTH = \d+", "MAXDEPTH = %d" % maxdepth, txt)
    if emit:
        txt = re.sub(r"INVARIANTS.*\n", "", txt)
        txt = re.sub(r"PROPERTIES.*\n", "", txt)
        txt += "ACTION_CONSTRAINT Emit\n"
    return txt


def cfg_constants(name):
    txt = open(os.path.join(vf.SPEC, "GridMC-%s.cfg" % name)).read()
    c = {}
    for k in ("FAM", "RULE"):
        c[k] = re.search(k + r' = "([^"]+)"', txt).group(1)
    for k in ("ORDER", "D", "OUTS"):
        c[k] = int(re.search(k + r" = (-?\d+)", txt).group(1))
    return c


def script_to_lines(script, c, label):
    """GridMC history -> driver script (skeleton: numeric-dependent outcomes are whatever the code produces)"""
    fam, d, outs = c["FAM"], c["D"], c["OUTS"]
    L = ["SCEN " + label]
    ep = 0
    for st in script:
        a = st["a"]
        ll = st.get("ll", [])
        if a == "make":
            if fam in ("localp", "wavelet"):
                line = "make %s %d %d %d %d" % (fam, d, outs, st["depth"], c["ORDER"])
                if fam == "localp":
                    line += " " + c["RULE"]
                line += " " + ivec(ll)
            else:
                line = "make %s %d %d %d %s" % (fam, d, outs, st["depth"], st["type"])
                if fam != "fourier":
                    line += " " + c["RULE"]
                line += " 0 " + ivec(ll)
                if fam == "global":
                    line += " 0 0"
            L.append(line)
        elif a == "load":
            ep += 1
            L.append("load %d" % ep)
        elif a == "surp":
            rank = -1 if st["all"] else 2
            if fam in ("localp", "wavelet"):
                L.append("surpl %d -1 classic %s 0" % (rank, ivec(ll)))
            else:
                L.append("surp %d -1 %s" % (20 if st["all"] else 2, ivec(ll)))
        elif a == "update":
            L.append("update %d %s %s %s" % (st["depth"], st["type"], ivec(st.get("aw", [])), ivec(ll)))
        elif a == "aniso":
            L.append("aniso iptotal %d 0 %s" % (st["mg"], ivec(ll)))
        elif a in ("clear", "merge", "begin", "finish", "clearlimits"):
            L.append(a)
        elif a == "setcoef":
            ep += 1
            L.append("setcoef %d" % ep)
        elif a == "removen":
            L.append("removen %d -1" % st["keep"])
        elif a == "deliver":
            ep += 1
            pts = st["p"]
            if fam in ("localp", "wavelet"):
                L.append("candl -1 -1 classic 0")
            else:
                L.append("cand level 0 0 0")
            L.append("loadc %d %d %s" % (ep, len(pts), " ".join(" ".join(str(x) for x in p) for p in pts)))
    return "\n".join(L) + "\n"


def mc_and_scripts(ctx, names, rnd, cap, maxlen=None, maxpts=None, mc=True, genlen=3):
    """model-check the design for the named family configurations and return replay scripts (one per abstract edge)"""
    wd = vf.workdir(ctx.prop.lower() + "-mc")
    out = []

    BIG = ("seq", "globalcc", "globalleja")     # exhaustive to the history length of their cfg; deeper histories by simulation

    def one(task):
        kind, name = task
        t0 = time.time()
        if kind == "mc":
            c = os.path.join(wd, "MC-%s.cfg" % name)
            # quick tier: the large configurations exhaustively to history length 3 (plus a short simulation to length 5);
            # thorough tier: to the length of their cfg (4) plus simulation to length 7
            open(c, "w").write(mc_cfg_text(name, False, (3 if ctx.quick else None) if name in BIG else maxlen, maxpts))
            r = vf.run_tlc("GridMC.tla", c, workers={"seq": 12, "globalcc": 8, "globalleja": 8}.get(name, 2), timeout=3600, xmx="8g")
        elif kind == "sim":
            c = os.path.join(wd, "Sim-%s.cfg" % name)
            simlen = 5 if ctx.quick else (maxlen or 4) + 2
            open(c, "w").write(mc_cfg_text(name, False, simlen, maxpts))
            r = vf.run_tlc("GridMC.tla", c, workers=4, timeout=3600, xmx="6g", simulate="num=%d" % (8 if ctx.quick else (25 if name in BIG else 300)), depth=simlen + 1)
        else:
            c = os.path.join(wd, "Gen-%s.cfg" % name)
            open(c, "w").write(mc_cfg_text(name, True, min(genlen, 3) if name in BIG else genlen, maxpts))     # shorter histories: one script per abstract edge is printed
            r = vf.run_tlc("GridMC.tla", c, workers=6, timeout=1800, xmx="6g")     # PrintT lines are written under the stream lock
        if os.environ.get("VERIF_TIMING"):
            print("GridMC %s %s %.1fs" % (kind, name, time.time() - t0))
        return r

    tasks = ([("mc", nm) for nm in names] if mc else []) + [("gen", nm) for nm in names]
    if mc and not ctx.quick:
        tasks += [("sim", nm) for nm in names]
    elif mc:
        tasks += [("sim", nm) for nm in names if nm in BIG]
    tasks.sort(key=lambda t: 0 if t == ("mc", "seq") else 1 if t[0] == "mc" and t[1].startswith("global") else 2)
    rs = vf.parallel_map(one, tasks, nproc=len(tasks))
    results = [{} for _ in names]
    for (kind, nm), r in zip(tasks, rs):
        results[names.index(nm)][kind] = r
    for name, res in zip(names, results):
        for kind in ("mc", "sim"):
            if kind not in res:
                continue
            r = res[kind]
            vf.tlc_must_pass(r, "GridMC %s %s" % (kind, name))
            ctx.add_tlc(r, "GridMC%s:%s" % ("" if kind == "mc" else "-simulate", name))
            if r.violated:
                ctx.report("spec:GridMC:%s:%s" % (name, r.violated), "the design model GridMC (%s, %s) violates %s" % (name, kind, r.violated), {"tlc": r.error_trace[:6000]})
        r = res["gen"]
        vf.tlc_must_pass(r, "GridMC Gen " + name)
        ctx.add_tlc(r, "GridGen:" + name)
        scripts = [json.loads(json.loads(m)) for m in re.findall(r'<<"SCRIPT", ("(?:[^"\\]|\\.)*")>>', r.out)]
        if len(scripts) > cap:
            rnd.shuffle(scripts)
            scripts = scripts[:cap]
        c = cfg_constants(name)
        if scripts:
            ctx.sample({"kind": "TLC-generated history (spec->code)", "config": name, "script": scripts[len(scripts) // 2]})
        out.append(("gen-" + name, [script_to_lines(s, c, "%s-%d" % (name, i)) for i, s in enumerate(scripts)]))
    return out
