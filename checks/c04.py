"""C04 - all documented routes to the same quantity agree."""
import random
import gridlib as gl


# recorded input of the known finding (weights-times-values differs from evaluate while a parent of a promoted point is missing)
KNOWN_INPUT = ("SCEN kf4 80\nmake localp 2 1 3 1 localp-boundary 2 -1 3\nbegin\ncandl -1 -1 classic 0\nloadpool 1 5 352343 1\n"
               "candl 0 -1 fds 0\nloadpool 2 0 2531 1\nfinish\n")


def run(ctx):
    rnd = random.Random(ctx.seed + 404)
    n = 160 if ctx.quick else 1000
    scens = [gl.history(rnd, "q%d" % i, steps=rnd.randint(3, 8), with_construct=True, with_transform=True, with_coef=True) for i in range(n)]
    scens.append(KNOWN_INPUT)
    scens += [gl.local3d_history(rnd, "v%d" % i) for i in range(n // 6)]
    gl.run_grid(ctx, [("routes", scens), ("mixed", gl.mixed_family(rnd, max(40, n // 5)))], gl.OBS_NODAL | gl.OBS_ROUTES, "C04")
    ctx.assume("identities are judged by observer bits at 1e-9..1e-10 relative tolerance on 33 probe points per state (nodes, interior)")


def replay(ctx, path):
    return gl.replay(ctx, path, "C04", gl.OBS_NODAL | gl.OBS_ROUTES)
