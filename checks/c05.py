"""C05 - differentiate() returns the gradient of the surrogate."""
import random
import gridlib as gl
import c02


def grad_history(rnd, label):
    txt = c02.exact_history(rnd, label, ["global", "sequence", "fourier", "localp", "localp", "wavelet"])
    L = txt.strip().split("\n")
    # gradients need outputs: zero-output grids are replaced by one output
    parts = L[1].split()
    if parts[0] == "make" and parts[3] == "0":
        parts[3] = "1"
        L[1] = " ".join(parts)
    if not any(x.startswith("load") for x in L):
        L.append("load 1")
    return "\n".join(L) + "\n"


def run(ctx):
    rnd = random.Random(ctx.seed + 505)
    n = 360 if ctx.quick else 2500
    scens = [grad_history(rnd, "g%d" % i) for i in range(n)]
    gl.run_grid(ctx, [("grad", scens)], gl.OBS_GRAD | gl.OBS_ROUTES, "C05")
    ctx.assume("the gradient of every reproduced function (monomials of the interpolation space, affine functions for local / wavelet grids) is compared with differentiate() at 1e-7; for smooth loaded data differentiate() is compared with 4th order central differences of evaluate() at 1e-5, at points that keep away from node coordinates (kinks) and with steps that stay inside one cell; the comparison is done in the transformed coordinates, so the chain-rule factor of a linear domain transform is included")
    ctx.assume("local polynomial order 0 is not differentiable across cell boundaries: only 'derivative is zero' is required")


def replay(ctx, path):
    return gl.replay(ctx, path, "C05", gl.OBS_GRAD | gl.OBS_ROUTES)
