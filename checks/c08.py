"""C08 - level limits bound every point a grid ever contains or proposes; refinement terminates when they admit nothing."""
import random
import gridlib as gl


def limited_history(rnd, label):
    """histories where limits are set at make time or by a later call and several refinement / candidate calls follow"""
    fam = rnd.choice(["sequence", "global", "localp", "wavelet", "fourier"])
    d = rnd.choice([1, 2, 2, 3])
    lim = [rnd.choice([-1, 0, 1, 2, 2, 3]) for _ in range(d)] if rnd.random() < 0.7 else None
    return gl.history(rnd, label, fam=fam, steps=rnd.randint(4, 9), with_construct=True, limits=lim, d=d)


def run(ctx):
    rnd = random.Random(ctx.seed + 808)
    n = 200 if ctx.quick else 1200
    scens = [limited_history(rnd, "l%d" % i) for i in range(n)]
    gen = gl.mc_and_scripts(ctx, ['seq', 'localp1', 'semilocalp', 'localpb', 'wavelet', 'globalcc', 'globalleja', 'fourier'], rnd, 150 if ctx.quick else 1000, maxlen=None if ctx.quick else 5, genlen=3 if ctx.quick else 4, mc=True)
    gl.run_grid(ctx, gen + [("limits", scens), ("mixed", gl.mixed_family(rnd, max(40, n // 5)))], 0, "C08")
    ctx.assume("points loaded before limits were (re)set may exceed them; their descendants in other directions inherit that coordinate (bound per dimension: max(limit, highest loaded level))")
    ctx.assume("non-termination is observed by a watchdog: each refinement/update call runs first in a forked child with a 10 s limit")


def replay(ctx, path):
    return gl.replay(ctx, path, "C08", 0)
