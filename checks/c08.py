"""C08 - level limits bound every point a grid ever contains or proposes; refinement terminates when they admit nothing."""
import random
import gridlib as gl
import vf


def limited_history(rnd, label):
    """histories where limits are set at make time or by a later call and several refinement / candidate calls follow"""
    fam = rnd.choice(["sequence", "global", "localp", "wavelet", "fourier"])
    d = rnd.choice([1, 2, 2, 3])
    lim = [rnd.choice([-1, 0, 1, 2, 2, 3]) for _ in range(d)] if rnd.random() < 0.7 else None
    return gl.history(rnd, label, fam=fam, steps=rnd.randint(4, 9), with_construct=True, limits=lim, d=d)


def aniso_loop_mc(ctx):
    """termination clause at the level of the design: the grow-until-min_growth loop as a step machine (AnisoLoop.tla), for every
    weight vector, limit vector (saturated ones included) and min_growth in bounds; the loop of the pinned tree is the negative control"""
    for cfg, must_fail in (("AnisoLoop.cfg", False), ("AnisoLoopPinned.cfg", True)):
        r = vf.run_tlc("AnisoLoop.tla", cfg, workers=6, timeout=1800, xmx="4g")
        vf.tlc_must_pass(r, cfg)
        ctx.add_tlc(r, cfg)
        if must_fail and r.violated != "Terminates":
            raise vf.FrameworkError("the loop of the pinned tree (no exit when the limits are saturated) is expected to violate Terminates")
        if not must_fail and r.violated:
            ctx.report("spec:AnisoLoop:" + r.violated, "the model of the anisotropic refinement loop violates " + r.violated, {"tlc": r.error_trace[:4000]})


def run(ctx):
    rnd = random.Random(ctx.seed + 808)
    aniso_loop_mc(ctx)
    n = 200 if ctx.quick else 1200
    scens = [limited_history(rnd, "l%d" % i) for i in range(n)]
    gen = gl.mc_and_scripts(ctx, ['seq', 'localp1', 'semilocalp', 'localpb', 'wavelet', 'globalcc', 'globalleja', 'fourier'], rnd, 150 if ctx.quick else 1000, maxlen=None if ctx.quick else 5, genlen=3 if ctx.quick else 4, mc=True)
    gl.run_grid(ctx, gen + [("limits", scens), ("mixed", gl.mixed_family(rnd, max(40, n // 5)))], 0, "C08")
    ctx.assume("points loaded before limits were (re)set may exceed them; their descendants in other directions inherit that coordinate (bound per dimension: max(limit, highest loaded level))")
    ctx.assume("termination: AnisoLoop.tla shows for all parameters in bounds (2-D, weights 1..3, limits -1..2, min_growth 1..4) that the loop leaves, also when the limits are saturated (liveness under weak fairness + a bound on the iterations); on the code  each refinement/update call runs first in a forked child with a 10 s limit")


def replay(ctx, path):
    return gl.replay(ctx, path, "C08", 0)
