"""C11 - copies are complete, equal to the source and independent of it."""
import random
import gridlib as gl


def copy_in_construction(rnd, label):
    """copies (whole, prefix and inner output ranges; copy constructor; assignment) taken while samples are parked: a part of a fixed
    target set was delivered out of order; afterwards the construction continues on the copy and on the source, one sample per call"""
    fam = rnd.choice(["sequence", "sequence", "localp", "localp", "wavelet", "wavelet", "wavelet", "global", "fourier"])
    d = rnd.choice([1, 2, 2])
    outs = rnd.choice([2, 3, 4])
    if fam == "global":
        target = {1: 4, 2: 3}[d]
        L = ["SCEN " + label, "make global %d %d %d level %s 0 0 0 0" % (d, outs, rnd.choice([0, 1]), rnd.choice(["rleja", "leja", "clenshaw-curtis", "fejer2"]))]
    elif fam == "fourier":
        target = {1: 3, 2: 2}[d]
        L = ["SCEN " + label, "make fourier %d %d %d level 0 0" % (d, outs, rnd.choice([0, 1]))]
    elif fam == "sequence":
        target = {1: 5, 2: 4}[d]
        L = ["SCEN " + label, "make sequence %d %d %d level %s 0 0" % (d, outs, rnd.choice([0, 1]), rnd.choice(gl.SEQ_RULES))]
    elif fam == "localp":
        target = {1: 4, 2: 3}[d]
        L = ["SCEN " + label, "make localp %d %d %d %d %s 0" % (d, outs, rnd.choice([0, 1]), rnd.choice([1, 2]), rnd.choice(gl.LOCAL_RULES))]
    else:
        target = {1: 3, 2: 2}[d]
        L = ["SCEN " + label, "make wavelet %d %d %d 1 0" % (d, outs, rnd.choice([0, 1]))]
    L.append("begin")
    L.append("loadtarget 1 %d %d %d %d 0" % (target, rnd.randint(1, 10 ** 6), rnd.choice([1, 1, 2]), rnd.randint(2, 9)))
    k = rnd.random()
    if k < 0.6:
        b = rnd.randint(0, outs - 1)
        e = rnd.choice([-1] + list(range(b + 1, outs + 1)))
        L.append("@2 copy %d %d" % (b, e))
    elif k < 0.8:
        L.append("@2 copyctor")
    else:
        L.append("@2 assign")
    if rnd.random() < 0.4:
        L.append("@2 rtswap %d" % rnd.randint(0, 1))
    if rnd.random() < 0.8:
        # the copy proposes what the source would propose (initial points that are still missing first)
        L.append("@2 candl -1 -1 classic 0" if fam in ("localp", "wavelet") else "@2 cand level 0 0 0")
    first = rnd.choice([1, 2])
    for o in (first, 3 - first):
        L.append("%sloadtarget 2 %d %d %d 0 %d" % ("@2 " if o == 2 else "", target, rnd.randint(1, 10 ** 6), rnd.choice([1, 1, 1, 2]), rnd.choice([0, 0, 2])))
    L.append("finish")
    L.append("@2 finish")
    return "\n".join(L) + "\n"


def overwrite_history(rnd, label):
    """a copy into an object that already holds another grid with its own domain transform, conformal map, limits, values or an
    active construction: whatever the destination held must be gone (the source may have none of these)"""
    L = ["SCEN " + label]
    # the destination first (slot 2): its own grid and attributes
    line2, info2 = gl.make_line(rnd, d=rnd.choice([1, 2, 2, 3]), limits=gl.rnd_limits(rnd, 2, 0, 3, 0.3) if False else None)
    L.append("@2 " + line2)
    d2 = info2["d"]
    if rnd.random() < 0.8:
        a = [rnd.choice([-2, -1, 0, 1]) for _ in range(d2)]
        L.append("@2 transform %d %s %d %s" % (d2, " ".join(map(str, a)), d2, " ".join(str(x + rnd.choice([1, 2, 4])) for x in a)))
    if rnd.random() < 0.6:
        L.append("@2 load 1")
    if rnd.random() < 0.3:
        L.append("@2 begin")
    # the source (slot 1): mostly without a transform
    line1, info1 = gl.make_line(rnd, d=rnd.choice([1, 2, 2, 3]))
    L.append(line1)
    d1 = info1["d"]
    if rnd.random() < 0.25:
        a = [rnd.choice([-2, -1, 0, 1]) for _ in range(d1)]
        L.append("transform %d %s %d %s" % (d1, " ".join(map(str, a)), d1, " ".join(str(x + rnd.choice([1, 2, 4])) for x in a)))
    if rnd.random() < 0.7:
        L.append("load 1")
    k = rnd.random()
    if k < 0.45:
        b = rnd.randint(0, max(info1["outs"] - 1, 0))
        e = rnd.choice([-1] + list(range(b + 1, info1["outs"] + 1))) if info1["outs"] > 0 else -1
        L.append("@2 copy %d %d" % (b, e))
    elif k < 0.55:
        L.append("@2 copyctor")
    else:
        L.append("@2 assign")
    L.append("@2 rtswap %d" % rnd.randint(0, 1))
    if rnd.random() < 0.5:
        L.append("@2 load 2")
    return "\n".join(L) + "\n"


def run(ctx):
    rnd = random.Random(ctx.seed + 1111)
    n = 200 if ctx.quick else 1200
    scens = [gl.history(rnd, "c%d" % i, steps=rnd.randint(4, 9), with_copy=True, with_construct=True, with_transform=True, with_coef=(i % 3 == 0)) for i in range(n)]
    scens += [copy_in_construction(rnd, "k%d" % i) for i in range(n)]
    scens += [overwrite_history(rnd, "w%d" % i) for i in range(n // 4)]
    scens += [gl.nonnested_history(rnd, "g%d" % i) for i in range(n // 4)]
    gl.run_grid(ctx, [("copy", scens), ("mixed", gl.mixed_family(rnd, max(40, n // 5)))], gl.OBS_NODAL | gl.OBS_RT, "C11")
    ctx.assume("equality of source and copy is judged on the projected state (points, needed, values, limits, transforms, construction flag) and on nodal reproduction; both objects are projected after every step")


def replay(ctx, path):
    return gl.replay(ctx, path, "C11", gl.OBS_NODAL | gl.OBS_RT)
