"""C11 - copies are complete, equal to the source and independent of it."""
import random
import gridlib as gl


def run(ctx):
    rnd = random.Random(ctx.seed + 1111)
    n = 200 if ctx.quick else 1200
    scens = [gl.history(rnd, "c%d" % i, steps=rnd.randint(4, 9), with_copy=True, with_construct=True, with_transform=True, with_coef=(i % 3 == 0)) for i in range(n)]
    gl.run_grid(ctx, [("copy", scens), ("mixed", gl.mixed_family(rnd, max(40, n // 5)))], gl.OBS_NODAL | gl.OBS_RT, "C11")
    ctx.assume("equality of source and copy is judged on the projected state (points, needed, values, limits, transforms, construction flag) and on nodal reproduction; both objects are projected after every step")


def replay(ctx, path):
    return gl.replay(ctx, path, "C11", gl.OBS_NODAL | gl.OBS_RT)
