"""C16 - the tasgrid command-line tool is equivalent to the library API."""
import random
import gridlib as gl


def cli_history(rnd, label):
    """histories restricted to actions that have a tasgrid command (make* with transform, load, update, refine, cancel / merge, construction)"""
    txt = gl.history(rnd, label, steps=rnd.randint(3, 8), with_construct=True, with_transform=False)
    L = []
    for x in txt.strip().split("\n"):
        if x.startswith("finish"):
            break                      # the tool has no command that ends a construction: the script stops there
        if not x.startswith("clearlimits"):
            L.append(x)
    # scale corrections go through files the driver does not produce: plain refinement only
    L = [(" ".join(x.split()[:-1] + ["0"]) if x.startswith("surpl ") else x) for x in L]
    if rnd.random() < 0.4 and not any("gauss" in x for x in L[:2]):
        parts = L[1].split()
        d = int(parts[2])
        a = [rnd.choice([-2, -1, 0, 1]) for _ in range(d)]
        b = [x + rnd.choice([1, 2, 4]) for x in a]
        L.insert(2, "transform %d %s %d %s" % (d, " ".join(map(str, a)), d, " ".join(map(str, b))))
    # -makequadrature for a rule of any family, before the grid history
    rule = rnd.choice(["clenshaw-curtis", "gauss-legendre", "leja", "gauss-patterson", "fourier", "wavelet", "localp", "semi-localp", "localp-zero", "localp-boundary", "gauss-chebyshev2"])
    order = rnd.choice([1, 3]) if rule == "wavelet" else rnd.choice([1, 2, 3])
    L.insert(1, "mq %s %d %d %s %d" % (rule, rnd.choice([1, 2]), rnd.randint(1, 3) if rule != "fourier" else 2, rnd.choice(["level", "iptotal", "qptotal"]), order))
    return "\n".join(L) + "\n"


def cli_gauss(rnd, label):
    """Global grids with the Gauss families and their real-valued parameters (-alpha, -beta with fractional values), optional
    transform and values: the parameters travel through the option parser and the grid file"""
    d = rnd.choice([1, 2, 2])
    rule = rnd.choice(["gauss-jacobi", "gauss-jacobi", "gauss-jacobi-odd", "gauss-gegenbauer", "gauss-gegenbauer-odd", "gauss-laguerre", "gauss-hermite", "gauss-hermite-odd", "gauss-legendre", "gauss-chebyshev2"])
    alpha = rnd.choice([0.5, 1.5, 0.25, 2.0, 1.0, 0.75])
    beta = rnd.choice([0.5, 1.5, 0.25, -0.5, 2.0, 0.75]) if "jacobi" in rule else 0.0
    t = rnd.choice(["level", "iptotal", "qptotal", "hyperbolic"])
    depth = rnd.randint(1, 3) + (2 if t in ("iptotal", "qptotal") else 0)
    outs = rnd.choice([1, 1, 2])        # (the tool refuses -outputs 0 although its message says zero is allowed; C16 speaks of scripts the tool accepts)
    L = ["SCEN " + label, "make global %d %d %d %s %s 0 0 %g %g" % (d, outs, depth, t, rule, alpha, beta)]
    if rnd.random() < 0.4:
        if "laguerre" in rule or "hermite" in rule:
            a = [rnd.choice([-1, 0, 2]) for _ in range(d)]
            b = [rnd.choice([1, 2, 4, 0.5]) for _ in range(d)]
        else:
            a = [rnd.choice([-2, -1, 0, 1]) for _ in range(d)]
            b = [x + rnd.choice([1, 2, 4]) for x in a]
        L.append("transform %d %s %d %s" % (d, " ".join(map(str, a)), d, " ".join(map(str, b))))
    if outs > 0:
        L.append("load 1")
    return "\n".join(L) + "\n"


def run(ctx):
    rnd = random.Random(ctx.seed + 1616)
    n = 150 if ctx.quick else 700
    scens = [cli_history(rnd, "u%d" % i) for i in range(n)]
    scens += [cli_gauss(rnd, "j%d" % i) for i in range(n // 5)]
    gl.run_grid(ctx, [("cli", scens)], 0, "C16", driver="cli_replay.cpp", chunk=15, timeout=600, own_all=True)
    ctx.assume("every scripted action runs through the API on an object and through the tasgrid executable on a grid file (binary and ASCII grid files alternate per scenario); the state read back from the tool's grid file is what TLC validates against GridTrace.tla; the tool's grid file must equal byte for byte the API object written in the same format; the query commands (-gp -gn -gq -gi -e -i -gc, candidate lists of -gcp) are compared number by number (ASCII matrix files, 17 digits) with the API results at 1e-14")
    ctx.assume("commands without a counterpart in this driver are not exercised: finishConstruction (the tool has no command), copies, scale-correction files, exotic quadrature, custom rule files, the MATLAB work-folder protocol")


def replay(ctx, path):
    print("re-run ./check C16 with the same VERIF_SEED; the replay file names the scenario")
    return 0
