"""C15 - DREAM sampling: index safety, domain, bookkeeping, accept rule, run splitting.

1. TLC model-checks spec/Dream.tla (DreamMC) exhaustively for small constants, regular and
   logarithmic form: IndexInRange, InDomain, PdfCoherent, HistoryLength, AcceptedBound.
2. Spec -> code: the Gen configuration prints one environment script per abstract commit edge;
   each script (random stream incl. 0 and 1, differential weights, updates, run split) is fed to
   the real SampleDREAM by harness/dream_replay.cpp.
3. Code -> spec: every recorded execution (all sampler/environment interactions, the chain
   indexes from the dream_pick hook, state and history after each run) is validated by TLC
   against spec/DreamTrace.tla, which also evaluates the invariants in every state.
4. Seeded random scenarios (more chains, 2 dimensions, built-in updates, both forms, splittings).
"""
import json
import os
import random
import re

import vf

HALF = 1


def pdf_table_1d(half, logform):
    t = []
    for p in range(-half, half + 1):
        t.append(((p,), -(p * p) if logform else 1 + 2 * half - abs(p)))
    return t


def scen_text(n, d, logform, upd, mag, pdf, s0, rng, w, delta, runs):
    L = ["SCEN %d %d %d %d %d" % (n, d, 1 if logform else 0, upd, mag), "PDF %d" % len(pdf)]
    for x, v in pdf:
        L.append(" ".join(str(a) for a in x) + " %d" % v)
    L.append("S0 " + " ".join(str(a) for a in s0))
    L.append("RNG %d " % len(rng) + " ".join(map(str, rng)))
    L.append("W %d " % len(w) + " ".join(map(str, w)))
    L.append("DELTA %d " % len(delta) + " ".join(map(str, delta)))
    L.append("RUNS %d " % len(runs) + " ".join("%d %d" % r for r in runs))
    return "\n".join(L) + "\n"


def script_to_scen(script, n, half, logform):
    rng, w, dl, runs = [], [], [], []
    for s in script:
        if s["a"] == "run":
            runs.append((s["b"], s["c"]))
        elif s["a"] == "prop":
            rng += [s["rj"], s["rk"]]
            w.append(s["w"])
            dl.append(s["dl"])
        else:
            rng.append(s["r"])
    width = 2 * half + 1
    s0 = [-half + (m % width) for m in range(n)]
    return scen_text(n, 1, logform, 0, 0, pdf_table_1d(half, logform), s0, rng, w, dl, runs)


def random_scen(rnd, mode):
    logform = rnd.random() < 0.5
    n = rnd.choice([1, 2, 3, 4, 5])
    d = rnd.choice([1, 2]) if mode != "gauss" else 2
    half = rnd.choice([1, 2])
    pts = []
    if d == 1:
        pts = [(p,) for p in range(-half, half + 1)]
    else:
        pts = [(p, q) for p in range(-half, half + 1) for q in range(-half, half + 1)]
    # domains with holes: some lattice points are excluded
    if rnd.random() < 0.4 and len(pts) > 3:
        for _ in range(rnd.randint(1, max(1, len(pts) // 4))):
            pts.pop(rnd.randrange(len(pts)))
    pdf = [(p, (rnd.randint(-6, 3) if logform else rnd.randint(1, 8))) for p in pts]
    s0 = []
    for _ in range(n):
        s0 += list(rnd.choice(pts))
    if mode == "user":
        upd, mag = 0, 0
    elif mode == "none":
        upd, mag = 1, 0
    elif mode == "uniform":
        upd, mag = 2, rnd.choice([0, 2, 4])
    else:
        upd, mag = 3, 1
    L = rnd.randint(3, 40)
    if mode == "gauss":
        # rng stream arranged so that every Box-Muller radius draw is exactly 1.0 (update = 0 exactly):
        # per proposal: rj rk | radius angle ; accept draws cannot be told apart in advance, so use
        # a constant stream of ones apart from... keep it simple: all draws are 1.0
        rng = [4]
    else:
        weights = rnd.choice([[1, 1, 1, 1, 1], [3, 1, 1, 1, 3], [1, 0, 0, 0, 4], [4, 1, 1, 1, 1]])
        rng = [rnd.choices([0, 1, 2, 3, 4], weights)[0] for _ in range(L)]
    w = [rnd.choice([0, 1, 1, 2]) for _ in range(rnd.randint(1, 7))]
    delta = [rnd.choice([-1, 0, 0, 1]) for _ in range(rnd.randint(1, 9))]
    total = rnd.randint(1, 5)
    runs = []
    left = total
    while left > 0:
        b = rnd.randint(0, left)
        c = rnd.randint(0, left - b)
        if b + c == 0:
            c = 1
        runs.append((b, c))
        left -= b + c
    if rnd.random() < 0.2:
        runs.insert(rnd.randrange(len(runs) + 1), (0, 0))
    return scen_text(n, d, logform, upd, mag, pdf, s0, rng, w, delta, runs), (n, d, logform, upd, mag, pdf, s0, rng, w, delta, runs)


def split_traces(rows):
    """split a concatenated trace into executions (list of (start_index, rows))"""
    out, cur, start = [], [], 0
    for i, r in enumerate(rows):
        if r["e"] == "Reset" and cur:
            out.append((start, cur))
            cur, start = [], i
        cur.append(r)
    if cur:
        out.append((start, cur))
    return out


def classify(ev):
    if ev is None:
        return "reject:truncated"
    sig = "reject:" + ev.get("e", "?")
    if ev.get("e") == "Prop":
        if ev.get("k") == ev.get("n"):
            sig += ":k=n"
        elif ev.get("j") == ev.get("n"):
            sig += ":j=n"
    return sig


def validate_file(args):
    """validate one concatenated trace file; returns (n_ok, [rejections]) handling several rejections"""
    path, label = args
    rows = vf.read_ndjson(path)
    execs = split_traces(rows)
    rejections = []
    n_ok = 0
    gen = dist = 0
    rounds = 0
    while execs and rounds < 6:
        rounds += 1
        cur = path + ".cur%d" % rounds
        flat = [r for _, ex in execs for r in ex]
        vf.write_ndjson(cur, flat)
        r = vf.run_tlc("DreamTrace.tla", "DreamTrace.cfg", workers=1, timeout=1500, env={"TRACE": cur}, xmx="3g")
        gen += r.generated
        dist += r.distinct
        if r.ok():
            n_ok += len(execs)
            execs = []
            break
        m = re.search(r'"REJECTED_AT", (\d+)', r.out)
        if r.violated and r.violated not in ("postcondition",) and not m:
            # invariant violated in some state: find the execution through the trace position in the error trace
            lm = re.findall(r"/\\ l = (\d+)", r.error_trace)
            pos = int(lm[-1]) if lm else 1
            kind = "inv:" + r.violated
        elif m:
            pos = int(m.group(1))
            kind = None
        else:
            raise vf.FrameworkError("trace validation failed without verdict (%s)\n%s" % (label, r.out[-3000:]))
        # locate execution containing line pos (1-based in flat)
        acc_len = 0
        bad = None
        for idx, (_, ex) in enumerate(execs):
            if pos <= acc_len + len(ex):
                bad = idx
                break
            acc_len += len(ex)
        if bad is None:
            bad = len(execs) - 1
            ev = None
        else:
            ev = execs[bad][1][pos - acc_len - 1] if pos - acc_len - 1 < len(execs[bad][1]) else None
        sig = kind or classify(ev)
        rejections.append({"signature": sig, "line_in_execution": pos - acc_len, "event": ev,
                           "execution": execs[bad][1][:pos - acc_len + 2], "tlc": r.out[-1500:] if kind else ""})
        n_ok += bad
        execs = execs[bad + 1:]
    return n_ok, rejections, gen, dist, len(execs)


def run(ctx):
    quick = ctx.quick
    lib = vf.build_lib("hooks")
    drv = vf.compile_driver("dream_replay.cpp", lib)
    wd = vf.workdir("c15")
    rnd = random.Random(ctx.seed)

    # ---- 1. exhaustive model checking of the design
    mc_cfgs = [("DreamMC.cfg", {}), ("DreamMClog.cfg", {})]
    for cfg, _ in mc_cfgs:
        c = os.path.join(wd, cfg)
        txt = open(os.path.join(vf.SPEC, cfg)).read()
        if quick:
            txt = txt.replace("MAXIT = 2", "MAXIT = 1").replace("N = 3", "N = 3")
        open(c, "w").write(txt)
        r = vf.run_tlc("DreamMC.tla", c, workers=16, timeout=1500, xmx="12g")
        vf.tlc_must_pass(r, cfg)
        ctx.add_tlc(r, "DreamMC:" + cfg + (":MAXIT=1" if quick else ""))
        if r.violated:
            ctx.report("spec:" + r.violated, "Dream.tla violates %s in %s" % (r.violated, cfg), {"tlc": r.error_trace})

    # ---- 2. spec -> code: scripts per abstract commit edge
    scen_sets = []   # (label, [scenario text])
    gens = ([(2, 1, False, "{0,1,2,3,4}"), (2, 1, True, "{0,1,2,3,4}"), (2, 2, False, "{0,2,4}"), (3, 1, False, "{0,4}")] if quick else
            [(2, 1, False, "{0,1,2,3,4}"), (2, 1, True, "{0,1,2,3,4}"), (2, 2, False, "{0,2,4}"), (2, 2, True, "{0,1,4}"),
             (3, 1, False, "{0,2,4}"), (3, 1, True, "{0,1,4}"), (2, 3, False, "{0,4}")])

    def gen_one(g):
        (n, maxit, logform, rngset) = g
        c = os.path.join(wd, "Gen-%d-%d-%d.cfg" % (n, maxit, logform))
        txt = open(os.path.join(vf.SPEC, "DreamGen.cfg")).read()
        txt = txt.replace("N = 3", "N = %d" % n).replace("MAXIT = 2", "MAXIT = %d" % maxit)
        txt = txt.replace("LOGFORM = FALSE", "LOGFORM = %s" % ("TRUE" if logform else "FALSE"))
        txt = txt.replace("RNG = {0,2,4}", "RNG = " + rngset)
        open(c, "w").write(txt)
        return vf.run_tlc("DreamMC.tla", c, workers=1, timeout=2400, xmx="6g")

    gen_res = vf.parallel_map(gen_one, gens, nproc=8)
    for (n, maxit, logform, rngset), r in zip(gens, gen_res):
        vf.tlc_must_pass(r, "DreamGen")
        ctx.add_tlc(r, "DreamGen:n=%d,maxit=%d,log=%s,rng=%s" % (n, maxit, logform, rngset))
        scripts = [json.loads(json.loads(m)) for m in re.findall(r'<<"SCRIPT", ("(?:[^"\\]|\\.)*")>>', r.out)]
        cap = 12000 if quick else 150000
        if len(scripts) > cap:
            rnd.shuffle(scripts)
            scripts = scripts[:cap]
        if scripts:
            ctx.sample({"kind": "TLC script (spec->code)", "n": n, "logform": logform, "script": scripts[len(scripts) // 2]})
        scen_sets.append(("gen-n%d-it%d-%s" % (n, maxit, "log" if logform else "reg"),
                          [script_to_scen(s, n, HALF, logform) for s in scripts]))

    # ---- 3. seeded random scenarios, each also run with its iterations split differently
    nrand = 1500 if quick else 20000
    rs = []
    split_pairs = []
    for mode in ["user", "none", "uniform", "gauss"]:
        for _ in range(nrand // 4 if mode != "gauss" else nrand // 20):
            txt, params = random_scen(rnd, mode)
            rs.append(txt)
            # the same environment with all iterations in one run of the combined length is appended
            (n, d, logform, upd, mag, pdf, s0, rng, w, delta, runs) = params
            if all(b == 0 for b, c in runs) and len(runs) > 1:
                whole = [(0, sum(c for _, c in runs))]
                rs.append(scen_text(n, d, logform, upd, mag, pdf, s0, rng, w, delta, whole))
                split_pairs.append((len(rs) - 2, len(rs) - 1))
    scen_sets.append(("random", rs))
    # the same kind of environments with the chain states replaced between runs (setState on a warm object)
    es = []
    for mode in ["user", "none", "uniform"]:
        for _ in range(nrand // 12):
            txt, params = random_scen(rnd, mode)
            (n, d, logform, upd, mag, pdf, s0, rng, w, delta, runs) = params
            runs = list(runs)
            for _k in range(rnd.randint(1, 2)):
                runs.insert(rnd.randrange(1, len(runs) + 1), (-1, rnd.randint(0, max(n - 1, 0))))
            if rnd.random() < 0.7:
                runs.append((rnd.randint(0, 1), rnd.randint(1, 2)))
            es.append(scen_text(n, d, logform, upd, mag, pdf, s0, rng, w, delta, runs))
    scen_sets.append(("edits", es))

    # ---- run the real code
    files = []
    total_scen = 0
    for label, scens in scen_sets:
        total_scen += len(scens)
        chunk = 1500
        for ci in range(0, len(scens), chunk):
            sp = os.path.join(wd, "%s-%d.scen" % (label, ci))
            tp = os.path.join(wd, "%s-%d.ndjson" % (label, ci))
            open(sp, "w").write("".join(scens[ci:ci + chunk]))
            files.append((label, sp, tp, ci, len(scens[ci:ci + chunk])))

    def exec_one(f):
        label, sp, tp, ci, cnt = f
        p = vf.sh([drv, sp, tp], timeout=600)
        return p.returncode

    rcs = vf.parallel_map(exec_one, files)
    for f, rc in zip(files, rcs):
        if rc != 0:
            # a crash of the sampler truncates the trace: the validation below rejects it
            ctx.extra.setdefault("driver_nonzero_exit", []).append({"file": f[1], "rc": rc})

    # split-run = whole-run: final End lines must coincide (both are also validated against the spec)
    if split_pairs:
        label, sp, tp, ci, cnt = [f for f in files if f[0] == "random"][0]
        allrows = []
        for f in files:
            if f[0] == "random":
                allrows += vf.read_ndjson(f[2])
        ex = split_traces(allrows)
        neq = 0
        for a, b in split_pairs:
            if a < len(ex) and b < len(ex):
                ea = [r for r in ex[a][1] if r["e"] == "End"]
                eb = [r for r in ex[b][1] if r["e"] == "End"]
                if ea and eb and (ea[-1]["st"] != eb[-1]["st"] or ea[-1]["hist"] != eb[-1]["hist"] or ea[-1]["phist"] != eb[-1]["phist"]):
                    # only meaningful if both executions conform; reported after validation
                    neq += 1
                    ctx.extra.setdefault("split_mismatch", []).append({"split": ex[a][1][:3], "whole": ex[b][1][:3]})
        ctx.extra["split_vs_whole_pairs"] = len(split_pairs)

    # ---- code -> spec: TLC validates every recorded execution
    res = vf.parallel_map(validate_file, [(f[2], f[0]) for f in files], nproc=16)
    n_ok = 0
    unexamined = 0
    for (ok, rejs, gen, dist, left), f in zip(res, files):
        n_ok += ok
        unexamined += left
        ctx.states += dist
        ctx.transitions += gen
        for rj in rejs:
            ctx.report(rj["signature"],
                       "recorded SampleDREAM execution is not a behaviour of Dream.tla (set %s): first unmatched event %s"
                       % (f[0], json.dumps(rj["event"])),
                       {"scenario_file": f[1], "trace_file": f[2], "execution_prefix": rj["execution"], "tlc": rj["tlc"],
                        "how": "harness/dream_replay <scenario_file> out.ndjson ; TRACE=out.ndjson tlc -config spec/DreamTrace.cfg spec/DreamTrace.tla"})
    if ctx.extra.get("split_mismatch") and not ctx.violations and not ctx.known_hits:
        ctx.report("split-vs-whole", "two consecutive runs differ from one run of the combined length",
                   {"pairs": ctx.extra["split_mismatch"][:3]})
    ctx.traces = n_ok
    ctx.extra["executions_recorded"] = total_scen
    ctx.extra["executions_unexamined_after_repeated_rejections"] = unexamined
    ctx.extra["rule"] = ("one execution = one scripted environment run through the real SampleDREAM; "
                         "scripts come from TLC (one per abstract commit edge of DreamMC) and from a seeded generator")
    if files:
        rows = vf.read_ndjson(files[-1][2])[:14]
        ctx.sample({"kind": "recorded execution prefix (code->spec)", "events": rows})
    ctx.assume("random numbers are k/4 (k=0..4), chain states integer vectors, pdf values small integers: all "
               "floating-point operations of the sampler are exact on these inputs")
    ctx.assume("memory safety is decided at the level of index values (dream_pick hook), not of addresses")
    ctx.assume("gaussian built-in update only with radius draws equal to 1 (update exactly zero)")
