"""C20 - ParticleSwarm only evaluates inside the domain and tracks the true best.

1. TLC model-checks spec/Swarm.tla (SwarmMC) exhaustively for small constants: every random stream
   over {0, 1/2, 1}, domains that contain all / some / none of the initial particles (now or ever), a
   domain with a hole, the empty domain, several coefficient triples, every splitting of the
   iteration budget into calls and every interleaving of the state edits (clearCache,
   clearBestParticles, setParticlePositions/Velocities/BestPositions).  Invariants = the clauses of
   C20: OnlyInside, BestsVisited, SwarmBestIsMin (ghost running minimum), PersonalBestIsMin, Ordered,
   NonIncreasing, BoundaryTransparent (n then m = n + m on one stream).
2. Spec -> code: the Gen configuration prints one environment script per abstract edge that completes
   a call; each script (domain, objective table, random stream, calls, edits) is fed to the real
   TasOptimization::ParticleSwarm by harness/swarm_replay.cpp.
3. Code -> spec: every recorded execution (every domain test, every objective batch with its values,
   every random number, the state through the public getters after every call and edit) is validated
   by TLC against spec/SwarmTrace.tla, which also evaluates the invariants in every state.
4. Seeded random scenarios: up to 5 particles, 2 dimensions, domains with holes, edits between calls
   (including initializeParticlesInsideBox), uninitialised states, the C wrapper, and pairs
   "n then m" / "n + m" on the same random stream.
"""
import json
import os
import random
import re
import time
import uuid

import vf

MC_CFG = "SwarmMC.cfg"
GEN_CFG = "SwarmGen.cfg"


def run_tlc(module, cfg, **kw):
    """vf.run_tlc with a metadir that is unique across the threads of this process (the default name is
    built from pid and milliseconds, which collides when several validations start together)"""
    md = os.path.join(vf.WORK, "tlc-meta", "c20-%s-%s" % (os.path.basename(cfg), uuid.uuid4().hex[:12]))
    return vf.run_tlc(module, cfg, metadir=md, **kw)


# ----------------------------------------------------------------------------- scenarios

def scen_text(n, d, scale, api, ctor, cells, pos, vel, rng, ops):
    L = ["SCEN %d %d %d %d %d" % (n, d, scale, api, ctor), "CELLS %d" % len(cells)]
    for c, v in cells:
        L.append(" ".join(str(a) for a in c) + " %d" % v)
    L.append("POS " + " ".join(map(str, pos)))
    L.append("VEL " + " ".join(map(str, vel)))
    L.append("RNG %d " % len(rng) + " ".join(map(str, rng)))
    L.append("OPS %d" % len(ops))
    for o in ops:
        L.append(" ".join(str(a) for a in o))
    return "\n".join(L) + "\n"


def flat(vs):
    return [a for v in vs for a in v]


def script_to_scen(script, api=0):
    """a TLC history (SwarmMC.h) -> driver scenario"""
    init = script[0]
    env = init["env"]
    cells = [(tuple(c["c"]), c["v"]) for c in env["cells"]]
    co = init["co"]
    rng, ops = [], []
    for s in script[1:]:
        if s["a"] == "call":
            ops.append(("CALL", s["k"], co["wn"], co["c1n"], co["c2n"]))
        elif s["a"] == "r":
            rng.append(s["r"])
        elif s["a"] == "edit":
            k = s["k"]
            if k == "clearCache":
                ops.append(("CC",))
            elif k == "clearBest":
                ops.append(("CB",))
            else:
                ops.append(({"setPos": "SP", "setVel": "SV", "setBest": "SB"}[k],) + tuple(flat(s["x"])))
    return scen_text(env["n"], env["d"], env["scale"], api, 1, cells, flat(init["pos"]), flat(init["vel"]), rng, ops)


def random_scen(rnd, maxiter):
    n = rnd.choice([1, 2, 2, 3, 3, 4, 5])
    d = rnd.choice([1, 2])
    T = rnd.randint(1, maxiter)
    unit = 4 ** T              # every user supplied number is a multiple of unit: the run stays on the lattice
    scale = 4 * unit           # quarter-cell resolution
    H = rnd.choice([2, 3, 4])
    if d == 1:
        allc = [(a,) for a in range(-H, H + 1)]
    else:
        allc = [(a, b) for a in range(-H, H + 1) for b in range(-H, H + 1)]

    def coord(lim):
        return rnd.randint(-4 * lim, 4 * lim) * unit

    pos = [coord(H + 1) for _ in range(n * d)]
    vel = [rnd.choice([0, 0, 1, -1, 2, -2, 4, -4, 6, -6]) * unit for _ in range(n * d)]

    def cell_of(p):
        return tuple(p[j] // scale for j in range(d))

    mode = rnd.choice(["full", "holes", "holes", "noswarm", "nofirst", "few", "empty"])
    cells = list(allc)
    if mode == "holes":
        cells = [c for c in cells if rnd.random() < 0.7]
    elif mode == "noswarm":
        occupied = {cell_of(pos[i * d:(i + 1) * d]) for i in range(n)}
        cells = [c for c in cells if c not in occupied and rnd.random() < 0.8]
    elif mode == "nofirst":
        occupied = {cell_of(pos[0:d])}
        cells = [c for c in cells if c not in occupied]
    elif mode == "few":
        cells = rnd.sample(cells, min(len(cells), rnd.randint(1, 3)))
    elif mode == "empty":
        cells = []
    top = rnd.choice([1, 3, 6])
    cells = [(c, rnd.randint(0, top)) for c in cells]

    L = rnd.randint(1, 40)
    weights = rnd.choice([[1, 1, 1], [3, 1, 3], [1, 0, 1], [4, 1, 1], [1, 1, 4]])
    rng = [rnd.choices([0, 1, 2], weights)[0] for _ in range(L)]

    def coefs():
        return (rnd.choice([0, 1, 1, 2]), rnd.choice([0, 1, 2, 2, 4]), rnd.choice([0, 1, 2, 2, 4]))

    co = coefs()
    vary = rnd.random() < 0.25
    # split T into calls
    ks, left = [], T
    while left > 0:
        k = rnd.randint(1, left)
        ks.append(k)
        left -= k
    for _ in range(rnd.choice([0, 0, 1])):
        ks.insert(rnd.randrange(len(ks) + 1), 0)
    p_edit = rnd.choice([0.0, 0.3, 0.7])
    ctor = 0 if rnd.random() < 0.12 else 1
    api = 1 if rnd.random() < 0.3 else 0
    ops = []
    plain = ctor == 1 and not vary

    def an_edit():
        k = rnd.choice(["CC", "CB", "SP", "SV", "SB", "IB", "CC", "CB"])
        if k in ("CC", "CB"):
            return (k,)
        if k == "SP":
            return ("SP",) + tuple(coord(H + 1) for _ in range(n * d))
        if k == "SV":
            return ("SV",) + tuple(rnd.choice([0, 1, -1, 2, -4]) * unit for _ in range(n * d))
        if k == "SB":
            return ("SB",) + tuple(coord(H + 1) for _ in range((n + 1) * d))
        lo = [rnd.randint(-H, 0) * scale for _ in range(d)]
        hi = [rnd.randint(0, H) * scale for _ in range(d)]
        if rnd.random() < 0.15:
            lo, hi = hi, lo
        return ("IB",) + tuple(lo) + tuple(hi)

    if ctor == 0:
        # a call on the uninitialised state (throws), then the state is completed one way or another
        if rnd.random() < 0.7:
            ops.append(("CALL", ks[0]) + co)
        if rnd.random() < 0.5:
            ops.append(("IB",) + tuple([-H * scale] * d) + tuple([H * scale] * d))
        else:
            first = [("SP",) + tuple(pos), ("SV",) + tuple(vel)]
            rnd.shuffle(first)
            ops.append(first[0])
            if rnd.random() < 0.4:
                ops.append(("CALL", 0) + co)
            ops.append(first[1])
    for i, k in enumerate(ks):
        if i > 0 or rnd.random() < 0.3:
            while rnd.random() < p_edit:
                ops.append(an_edit())
                plain = False
        ops.append(("CALL", k) + (coefs() if vary else co))
    txt = scen_text(n, d, scale, api, ctor, cells, pos, vel, rng, ops)
    whole = None
    if plain and len([k for k in ks if k > 0]) > 1:
        whole = scen_text(n, d, scale, api, ctor, cells, pos, vel, rng, [("CALL", T) + co])
    return txt, whole


# ----------------------------------------------------------------------------- trace handling

def split_traces(rows):
    out, cur, start = [], [], 0
    for i, r in enumerate(rows):
        if r["e"] == "Reset" and cur:
            out.append((start, cur))
            cur, start = [], i
        cur.append(r)
    if cur:
        out.append((start, cur))
    return out


def classify(ev, prefix, mismatch):
    """signature of a rejection: unmatched event, the field that differs, what preceded it"""
    if ev is None:
        return "reject:truncated"
    edits = []
    for r in reversed(prefix):
        if r["e"] in ("End", "Reset"):
            break
        if r["e"] == "Edit":
            edits.append(r["k"])
        elif r["e"] == "InitBox":
            edits.append("initBox")
    warm = None
    for r in reversed(prefix):
        if r["e"] in ("End", "Get"):
            warm = "cache=%s,best=%s" % ("warm" if r["flags"][3] else "cold", "set" if r["flags"][2] else "unset")
            break
    name = ev.get("e", "?")
    if mismatch:
        fields = sorted(set(f if "." in f else name + "." + f for f in mismatch))
        sig = "reject:" + "+".join(fields)
    else:
        sig = "reject:" + name
    sig += ":edits=" + ("+".join(reversed(edits)) if edits else "none")
    if warm:
        sig += ":" + warm
    # iterations completed in the running call when the event was recorded
    its, prev, incall = 0, None, False
    for r in prefix:
        if r["e"] == "Start":
            its, incall = 0, True
        elif r["e"] == "End":
            incall = False
        elif r["e"] == "In" and prev == "Rng":
            its += 1
        prev = r["e"]
    if incall:
        sig += ":iter=%d" % its
    return sig


STATS = []


def trace_stats(execs):
    """what the recorded executions exercised (vacuity information for the evidence file)"""
    st = {}

    def inc(k, n=1):
        st[k] = st.get(k, 0) + n

    for _, ex in execs:
        kinds = [r["e"] for r in ex]
        inc("executions")
        inc("events", len(ex))
        if ex[0].get("api") == 1:
            inc("executions through the C wrapper")
        if any(r["e"] == "In" and not r["ok"] for r in ex):
            inc("executions with a point outside the domain")
        ins = [r for r in ex if r["e"] == "In"]
        if ins and not any(r["ok"] for r in ins):
            inc("executions where no point is ever inside the domain")
        if "Threw" in kinds:
            inc("executions with a call on an uninitialised state")
        for r in ex:
            if r["e"] == "Edit":
                inc("edit " + r["k"])
            elif r["e"] == "InitBox":
                inc("edit initBox")
            elif r["e"] == "In":
                inc("domain tests")
            elif r["e"] == "Obj":
                inc("objective calls")
                inc("objective points", len(r["x"]))
            elif r["e"] == "Rng":
                inc("random numbers")
            elif r["e"] == "Start":
                inc("calls")
                inc("iterations requested", r["k"])
        # batches skipped because no point was inside: an In directly followed by something that is not In / Obj
        for a, b in zip(ex, ex[1:]):
            if a["e"] == "In" and b["e"] not in ("In", "Obj"):
                inc("objective calls skipped (empty batch)")
        # a best that improved during an execution
        ends = [r for r in ex if r["e"] == "End" and r["flags"][2]]
        if len(ends) > 1 and any(a["gbest"] != b["gbest"] for a, b in zip(ends, ends[1:])):
            inc("executions where the swarm best moved between calls")
    return st


def validate_file(args):
    """validate one concatenated trace file; several rejections per file are handled by re-running on the rest"""
    path, label = args
    rows = vf.read_ndjson(path)
    for r in rows:
        if "nonlattice" in json.dumps(r):
            raise vf.FrameworkError("scenario left the lattice (generator bound too weak): %s %s" % (path, json.dumps(r)[:300]))
    execs = split_traces(rows)
    total = len(execs)
    STATS.append(trace_stats(execs))
    rejections = []
    n_ok = 0
    gen = dist = 0
    rounds = 0
    done = 0            # executions consumed so far (index into the file)
    while execs and rounds < 8:
        rounds += 1
        cur = path + ".cur%d" % rounds
        flatrows = [r for _, ex in execs for r in ex]
        vf.write_ndjson(cur, flatrows)
        r = run_tlc("SwarmTrace.tla", os.path.join(vf.SPEC, "SwarmTrace.cfg"), workers=1, timeout=1500, env={"TRACE": cur}, xmx="3g")
        gen += r.generated
        dist += r.distinct
        if r.timed_out:
            raise vf.FrameworkError("trace validation timed out (%s)" % label)
        if r.ok():
            n_ok += len(execs)
            execs = []
            break
        m = re.search(r'"REJECTED_AT", (\d+)', r.out)
        kind = None
        if r.violated and r.violated != "postcondition" and not m:
            lm = re.findall(r"/\\ l = (\d+)", r.error_trace)
            pos = int(lm[-1]) if lm else 1
            kind = "inv:" + r.violated
        elif m:
            pos = int(m.group(1))
        else:
            raise vf.FrameworkError("trace validation failed without verdict (%s)\n%s" % (label, r.out[-3000:]))
        mism = [f for (ln, f) in re.findall(r'"MISMATCH", (\d+), "([^"]+)"', r.out) if int(ln) == pos]
        acc_len = 0
        bad = None
        for idx, (_, ex) in enumerate(execs):
            if pos <= acc_len + len(ex):
                bad = idx
                break
            acc_len += len(ex)
        if bad is None:
            bad = len(execs) - 1
            acc_len = sum(len(ex) for _, ex in execs[:bad])
            ev = None
        else:
            k = pos - acc_len - 1
            ev = execs[bad][1][k] if k < len(execs[bad][1]) else None
        prefix = execs[bad][1][:max(0, pos - acc_len - 1)]
        if kind:
            sig = kind + ":" + classify(ev, prefix, [])[len("reject:"):]
        else:
            sig = classify(ev, prefix, mism)
        rejections.append({"signature": sig, "line_in_execution": pos - acc_len, "event": ev, "index_in_file": done + bad,
                           "execution": execs[bad][1][:pos - acc_len + 1], "tlc": r.out[-2500:] if kind else "", "mismatch": mism})
        n_ok += bad
        done += bad + 1
        execs = execs[bad + 1:]
    return n_ok, rejections, gen, dist, len(execs), total


HOW = ("write the scenario text to s.scen; <build>/drv-swarm_replay-* s.scen out.ndjson ; "
       "TRACE=$PWD/out.ndjson tlc -workers 1 -config spec/SwarmTrace.cfg spec/SwarmTrace.tla   (or ./check C20 --replay <this file>)")


def run(ctx):
    quick = ctx.quick
    lib = vf.build_lib("hooks")
    drv = vf.compile_driver("swarm_replay.cpp", lib)
    wd = vf.workdir("c20")
    rnd = random.Random(ctx.seed)
    t_phase = [time.time()]
    phases = ctx.extra.setdefault("phase_wall_s", {})

    def lap(name):
        phases[name] = round(time.time() - t_phase[0], 1)
        t_phase[0] = time.time()

    def cfg_with(base, name, **kw):
        txt = open(os.path.join(vf.SPEC, base)).read()
        for k, v in kw.items():
            txt, cnt = re.subn(r"(?m)^(\s*%s = ).*$" % k, lambda mm: mm.group(1) + str(v), txt)
            if cnt != 1:
                raise vf.FrameworkError("cfg %s has no constant %s" % (base, k))
        p = os.path.join(wd, name)
        open(p, "w").write(txt)
        return p

    # ---- 1. exhaustive model checking of the design; one TLC run per slice of initial states
    ALLE = '{"clearCache","clearBest","setPos","setVel","setBest"}'
    if quick:
        mcs = [("np2-it2-calls2-edits1", dict(NP=2, MAXIT=2, MAXCALLS=2, MAXEDITS=1, COEFS="{1,2}", DOMS="{1,2,3,4,5,6}"), 6),
               ("np2-it1-calls3-edits3", dict(NP=2, MAXIT=1, MAXCALLS=3, MAXEDITS=3, COEFS="{1}", DOMS="{1,2,3,4,5,6}"), 5),
               ("np3-it1-calls2-edits1", dict(NP=3, MAXIT=1, MAXCALLS=2, MAXEDITS=1, COEFS="{1}", DOMS="{1,2,3,5}", RNG="{0,2}"), 5)]
    else:
        mcs = [("np2-it3-calls3-edits1", dict(NP=2, MAXIT=3, MAXCALLS=3, MAXEDITS=1, COEFS="{1,2}", DOMS="{1,2,3,4,5,6}"), 6),
               ("np2-it2-calls3-edits2", dict(NP=2, MAXIT=2, MAXCALLS=3, MAXEDITS=2, COEFS="{1,2}", DOMS="{1,2,3,4,5,6}"), 4),
               ("np2-it3-calls3-edits0", dict(NP=2, MAXIT=3, MAXCALLS=3, MAXEDITS=0, COEFS="{1,2,3,4}", DOMS="{1,2,3,4,5,6}"), 2),
               ("np2-it1-calls4-edits4", dict(NP=2, MAXIT=1, MAXCALLS=4, MAXEDITS=4, COEFS="{1,3}", DOMS="{1,2,3,4,5,6}"), 2),
               ("np3-it2-calls2-edits1", dict(NP=3, MAXIT=2, MAXCALLS=2, MAXEDITS=1, COEFS="{1}", DOMS="{1,2,3,5}", RNG="{0,2}"), 2),
               ("np1-it3-calls3-edits2", dict(NP=1, MAXIT=3, MAXCALLS=3, MAXEDITS=2, COEFS="{1,2,3,4}", DOMS="{1,2,3,4,5,6}"), 1)]

    def mc_one(m):
        label, kw, workers = m
        c = cfg_with(MC_CFG, "MC-%s.cfg" % label, **kw)
        return run_tlc("SwarmMC.tla", c, workers=workers, timeout=1500 if quick else 14000, xmx="8g" if (workers >= 6 and not quick) else "4g")

    # ---- 2. spec -> code: scripts per abstract edge that completes a call
    if quick:
        gens = [("np2-it2", dict(NP=2, MAXIT=2, MAXCALLS=2, MAXEDITS=1, COEFS="{1}", DOMS="{1,2,3,4,5,6}")),
                ("np2-it1-edits2", dict(NP=2, MAXIT=1, MAXCALLS=3, MAXEDITS=2, COEFS="{2}", DOMS="{1,2,3,5}"))]
    else:
        gens = [("np2-it2-coef%d" % cf, dict(NP=2, MAXIT=2, MAXCALLS=2, MAXEDITS=1, COEFS="{%d}" % cf, DOMS="{1,2,3,4,5,6}")) for cf in (1, 2, 3, 4)]
        gens += [("np2-it1-edits2", dict(NP=2, MAXIT=1, MAXCALLS=3, MAXEDITS=2, COEFS="{1,2}", DOMS="{1,2,3,4,5,6}")),
                 ("np2-it3-dom%d" % 1, dict(NP=2, MAXIT=3, MAXCALLS=2, MAXEDITS=0, COEFS="{1}", DOMS="{1}")),
                 ("np2-it3-dom%d" % 5, dict(NP=2, MAXIT=3, MAXCALLS=2, MAXEDITS=0, COEFS="{1}", DOMS="{5}")),
                 ("np3-it1", dict(NP=3, MAXIT=1, MAXCALLS=2, MAXEDITS=1, COEFS="{1}", DOMS="{1,2,3,5}", RNG="{0,2}"))]

    def gen_one(g):
        label, kw = g
        c = cfg_with(GEN_CFG, "Gen-%s.cfg" % label, **kw)
        return run_tlc("SwarmMC.tla", c, workers=1, timeout=2400 if quick else 14000, xmx="3g")

    jobs = [("mc", m) for m in mcs] + [("gen", g) for g in gens]
    results = vf.parallel_map(lambda j: mc_one(j[1]) if j[0] == "mc" else gen_one(j[1]), jobs, nproc=len(jobs))

    lap("tlc model checking + behaviour generation")
    scen_sets = []       # (label, [scenario text])
    for (kind, job), r in zip(jobs, results):
        label = job[0]
        vf.tlc_must_pass(r, "Swarm%s:%s" % (kind, label))
        ctx.add_tlc(r, ("SwarmMC:" if kind == "mc" else "SwarmGen:") + label)
        if kind == "mc":
            if r.violated:
                ctx.report("spec:" + r.violated + ":" + label, "Swarm.tla violates %s in configuration %s" % (r.violated, label), {"tlc": r.error_trace})
            continue
        if r.violated:
            raise vf.FrameworkError("Gen configuration reported %s" % r.violated)
        scripts = [json.loads(json.loads(m)) for m in re.findall(r'<<"SCRIPT", ("(?:[^"\\]|\\.)*")>>', r.out)]
        if not scripts:
            raise vf.FrameworkError("Gen configuration %s printed no script" % label)
        cap = 2500 if quick else 60000
        ctx.extra.setdefault("tlc_scripts", {})[label] = len(scripts)
        sst = ctx.extra.setdefault("tlc_script_statistics", {})
        for sc in scripts:
            k = "domain %d" % sc[0]["env"]["dom"]
            sst[k] = sst.get(k, 0) + 1
            for e in sc[1:]:
                k = ("edit " + e["k"]) if e["a"] == "edit" else ("call with %d iterations" % e["k"] if e["a"] == "call" else "draw %d/2" % e["r"])
                sst[k] = sst.get(k, 0) + 1
        if len(scripts) > cap:
            rnd.shuffle(scripts)
            scripts = scripts[:cap]
        mid = scripts[len(scripts) // 2]
        ctx.sample({"kind": "TLC script (spec->code)", "config": label,
                    "script": [s if s["a"] != "init" else {"a": "init", "dom": s["env"]["dom"], "co": s["co"]} for s in mid]})
        # every third script goes through the C wrapper
        scen_sets.append(("gen-" + label, [script_to_scen(s, api=1 if i % 3 == 2 else 0) for i, s in enumerate(scripts)]))

    # ---- 3. seeded random scenarios, with "n then m" / "n + m" pairs
    nrand = 1200 if quick else 24000
    rs, pairs = [], []
    for _ in range(nrand):
        txt, whole = random_scen(rnd, 4 if quick else 5)
        rs.append(txt)
        if whole:
            rs.append(whole)
            pairs.append((len(rs) - 2, len(rs) - 1))
    scen_sets.append(("random", rs))

    # ---- run the real code
    files = []
    total_scen = 0
    for label, scens in scen_sets:
        total_scen += len(scens)
        chunk = 400
        for ci in range(0, len(scens), chunk):
            sp = os.path.join(wd, "%s-%d.scen" % (label, ci))
            tp = os.path.join(wd, "%s-%d.ndjson" % (label, ci))
            open(sp, "w").write("".join(scens[ci:ci + chunk]))
            files.append((label, sp, tp, ci, scens[ci:ci + chunk]))

    def exec_one(f):
        p = vf.sh([drv, f[1], f[2]], timeout=600)
        return p.returncode

    lap("scenario preparation")
    rcs = vf.parallel_map(exec_one, files)
    lap("real code executions")
    for f, rc in zip(files, rcs):
        if rc == 2:
            raise vf.FrameworkError("driver could not read %s" % f[1])
        if rc != 0:
            # a crash of the library truncates the trace: the validation below rejects it
            ctx.extra.setdefault("driver_nonzero_exit", []).append({"file": f[1], "rc": rc})

    # ---- code -> spec: TLC validates every recorded execution
    res = vf.parallel_map(validate_file, [(f[2], f[0]) for f in files], nproc=16)
    lap("tlc trace validation")
    n_ok = 0
    unexamined = 0
    rejected_idx = set()
    for (ok, rejs, gen, dist, left, total), f in zip(res, files):
        n_ok += ok
        unexamined += left
        ctx.states += dist
        ctx.transitions += gen
        if total != len(f[4]):
            raise vf.FrameworkError("trace %s holds %d executions for %d scenarios" % (f[2], total, len(f[4])))
        for rj in rejs:
            scen = f[4][rj["index_in_file"]]
            rejected_idx.add((f[0], f[3] + rj["index_in_file"]))
            what = ("state invariant / action property %s of Swarm.tla is violated by a recorded execution" % rj["signature"].split(":")[1]
                    if rj["signature"].startswith("inv:") else
                    "recorded ParticleSwarm execution is not a behaviour of Swarm.tla")
            ctx.report(rj["signature"],
                       "%s (set %s): first unmatched event %s, differing fields %s"
                       % (what, f[0], json.dumps(rj["event"]), rj["mismatch"]),
                       {"scenario": scen, "execution_prefix": rj["execution"], "tlc": rj["tlc"], "how": HOW})
    # n then m = n + m on the same stream: both executions were validated against the (deterministic)
    # spec; the final states are additionally compared with each other here
    if pairs:
        allrows = []
        for f in files:
            if f[0] == "random":
                allrows += vf.read_ndjson(f[2])
        ex = split_traces(allrows)
        mism = 0
        for a, b in pairs:
            if ("random", a) in rejected_idx or ("random", b) in rejected_idx:
                continue
            ea = [r for r in ex[a][1] if r["e"] == "End"]
            eb = [r for r in ex[b][1] if r["e"] == "End"]
            if not ea or not eb or any(ea[-1][k] != eb[-1][k] for k in ("pos", "vel", "best", "gbest", "flags")):
                mism += 1
                ctx.report("split-vs-whole", "n then m iterations differ from n + m iterations on the same random stream",
                           {"split": rs[a], "whole": rs[b], "split_end": ea[-1:] , "whole_end": eb[-1:]})
        ctx.extra["split_vs_whole_pairs"] = len(pairs)
        ctx.extra["split_vs_whole_mismatches"] = mism
    agg = {}
    for st in STATS:
        for k, v in st.items():
            agg[k] = agg.get(k, 0) + v
    ctx.extra["trace_statistics"] = agg
    ctx.traces = n_ok
    ctx.extra["executions_recorded"] = total_scen
    ctx.extra["executions_unexamined_after_repeated_rejections"] = unexamined
    ctx.extra["rule"] = ("one execution = one scripted environment (domain cells, objective table, random stream, calls and "
                         "state edits) run through the real ParticleSwarm; scripts come from TLC (one per abstract edge of "
                         "SwarmMC that completes a call) and from a seeded generator; about a third use the C wrapper")
    if files:
        rows = vf.read_ndjson(files[-1][2])[:16]
        ctx.sample({"kind": "recorded execution prefix (code->spec)", "events": rows})
    ctx.assume("coordinates are multiples of 4^-(iterations+1), coefficients in {0,1/2,1,2}, random numbers in {0,1/2,1}: "
               "every floating-point operation of the algorithm is exact and equals the integer arithmetic of the spec")
    ctx.assume("the objective is constant on unit cells and the domain is a set of unit cells; objective and domain do not "
               "change during an execution (clearCache is exercised with the same objective)")
    ctx.assume("cached objective values are not visible through the public interface: they are bound indirectly, through every "
               "later best-position decision and every velocity the spec predicts from them")
    ctx.assume("serial build: the OpenMP velocity loop is not exercised here")
    ctx.assume("the running minima range over the evaluations the state still remembers: clearBestParticles and "
               "setBestParticlePositions restart them (see Swarm.tla, Remembered)")


SELFTEST_SCEN = """SCEN 2 1 256 0 1
CELLS 6
-1 3
0 1
1 1
2 0
3 5
4 7
POS -512 384
VEL 256 -128
RNG 5 2 1 0 2 1
OPS 5
CALL 1 1 2 2
SB -256 0 768
CALL 1 1 2 2
CC
CALL 1 1 2 2
"""


def selftest(ctx):
    """binding demonstration: the recorded execution is accepted, every single-field corruption of it is rejected"""
    lib = vf.build_lib("hooks")
    drv = vf.compile_driver("swarm_replay.cpp", lib)
    wd = vf.workdir("c20-selftest")
    sp, tp = os.path.join(wd, "s.scen"), os.path.join(wd, "s.ndjson")
    open(sp, "w").write(SELFTEST_SCEN)
    vf.sh([drv, sp, tp], timeout=120, check=True)
    rows = vf.read_ndjson(tp)
    ok, rejs, _, _, _, _ = validate_file((tp, "selftest"))
    if rejs:
        print("selftest: the unmodified trace is rejected: %s" % rejs[0]["signature"])
        return 1
    print("selftest: unmodified trace accepted (%d events)" % len(rows))

    def first(pred, nth=0):
        return [i for i, r in enumerate(rows) if pred(r)][nth]

    def bump(v):
        return [[c + 64 for c in x] for x in v]

    iobj = first(lambda r: r["e"] == "Obj", 1)
    iin = first(lambda r: r["e"] == "In", 3)
    iend = first(lambda r: r["e"] == "End", 1)
    irng = first(lambda r: r["e"] == "Rng", 0)      # a draw that multiplies a non-zero distance
    muts = [
        ("objective value", iobj, lambda r: r.update(v=[r["v"][0] + 1] + r["v"][1:])),
        ("objective batch point", iobj, lambda r: r.update(x=bump(r["x"]))),
        ("domain verdict", iin, lambda r: r.update(ok=not r["ok"])),
        ("domain test point", iin, lambda r: r.update(x=[c + 64 for c in r["x"]])),
        ("best positions after call", iend, lambda r: r.update(best=bump(r["best"][:1]) + r["best"][1:])),
        ("swarm best after call", iend, lambda r: r.update(gbest=[c + 64 for c in r["gbest"]])),
        ("position after call", iend, lambda r: r.update(pos=bump(r["pos"]))),
        ("velocity after call", iend, lambda r: r.update(vel=bump(r["vel"]))),
        ("cache flag after call", iend, lambda r: r.update(flags=r["flags"][:3] + [not r["flags"][3]])),
        ("random number", irng, lambda r: r.update(r=(r["r"] + 1) % 3)),
    ]
    bad = 0
    for name, idx, fn in muts:
        cp = [dict(r) for r in rows]
        fn(cp[idx])
        mp = os.path.join(wd, "m-%s.ndjson" % name.replace(" ", "_"))
        vf.write_ndjson(mp, cp)
        ok, rejs, _, _, _, _ = validate_file((mp, "selftest"))
        if rejs:
            print("selftest: corrupted %-28s (event %d) -> rejected at line %d, %s" % (name, idx + 1, rejs[0]["line_in_execution"], rejs[0]["signature"]))
        else:
            print("selftest: corrupted %-28s (event %d) -> ACCEPTED (binding hole)" % (name, idx + 1))
            bad += 1
    # dropping an event
    cp = [dict(r) for j, r in enumerate(rows) if j != iin]
    mp = os.path.join(wd, "m-dropped.ndjson")
    vf.write_ndjson(mp, cp)
    ok, rejs, _, _, _, _ = validate_file((mp, "selftest"))
    print("selftest: dropped domain test event -> %s" % ("rejected, " + rejs[0]["signature"] if rejs else "ACCEPTED (binding hole)"))
    bad += 0 if rejs else 1
    return 1 if bad else 0


def replay(ctx, path):
    body = json.load(open(path))
    rp = body.get("replay", {})
    scen = rp.get("scenario") or rp.get("split")
    if not scen:
        print("replay file has no scenario (design-level finding): " + body.get("signature", ""))
        print(rp.get("tlc", "")[:4000])
        return 1
    lib = vf.build_lib("hooks")
    drv = vf.compile_driver("swarm_replay.cpp", lib)
    wd = vf.workdir("c20-replay")
    sp, tp = os.path.join(wd, "r.scen"), os.path.join(wd, "r.ndjson")
    open(sp, "w").write(scen)
    p = vf.sh([drv, sp, tp], timeout=120)
    ok, rejs, gen, dist, left, total = validate_file((tp, "replay"))
    for rj in rejs:
        print("REJECTED %s at line %d of %s: %s" % (rj["signature"], rj["line_in_execution"], tp, json.dumps(rj["event"])))
    if p.returncode != 0:
        print("driver exit code %d" % p.returncode)
    if not rejs:
        print("accepted: the recorded execution is a behaviour of Swarm.tla (%s)" % tp)
    return 1 if rejs else 0
