"""C10 - domain transforms act as an exact change of variables."""
import random
import gridlib as gl
import c02


def unbounded_history(rnd, label):
    """Gauss-Hermite / Gauss-Laguerre grids (unbounded domains: shift and scale / rate), always transformed and loaded"""
    d = rnd.choice([1, 2, 2, 3])
    rule = rnd.choice(["gauss-hermite", "gauss-hermite-odd", "gauss-laguerre", "gauss-laguerre-odd"])
    a = [rnd.choice([-1, 0, 2]) for _ in range(d)]
    b = [rnd.choice([2, 4, 0.5, 0.25, 3]) for _ in range(d)]
    return "\n".join(["SCEN " + label,
                      "make global %d %d %d level %s 0 0 %g 0" % (d, rnd.choice([1, 2]), rnd.randint(1, {1: 4, 2: 3, 3: 2}[d] - (1 if rule.endswith("odd") else 0)), rule, rnd.choice([0.0, 0.5, 1.0, 2.0])),
                      "transform %d %s %d %s" % (d, " ".join(map(str, a)), d, " ".join(map(str, b))), "load 1"]) + "\n"


def transform_history(rnd, label):
    if rnd.random() < 0.12:
        return unbounded_history(rnd, label)
    for _ in range(20):
        txt = c02.exact_history(rnd, label, ["global", "global", "sequence", "fourier", "localp", "wavelet"])
        if "transform" in txt:
            break
    L = txt.strip().split("\n")
    parts = L[1].split()
    if parts[0] == "make" and parts[3] == "0" and rnd.random() < 0.7:
        parts[3] = "1"
        L[1] = " ".join(parts)
    if not any(x.startswith("load") for x in L) and parts[3] != "0":
        L.append("load 1")
    return "\n".join(L) + "\n"


def run(ctx):
    rnd = random.Random(ctx.seed + 1010)
    n = 360 if ctx.quick else 2500
    scens = [transform_history(rnd, "t%d" % i) for i in range(n)]
    gl.run_grid(ctx, [("transform", scens)], 64 | gl.OBS_NODAL | gl.OBS_EXACT, "C10")
    ctx.assume("the documented map per rule family (affine on [-1,1] and [0,1], shift/rate for Gauss-Laguerre, shift/scale for Gauss-Hermite) and the documented quadrature scale are tabulated in the observer; a canonical twin (same grid without the transform) is compared point by point: mapped points, pulled-back evaluate, chain rule of differentiate, scaled weights / basis integrals / supports, getDomainInside on grid points and just beyond the bounds")
    ctx.assume("the conformal (asin) map is observed only through nodal reproduction (forward o inverse = id at the nodes) and state round trips; its composition with the linear map at arbitrary points is not covered")


def replay(ctx, path):
    return gl.replay(ctx, path, "C10", 64 | gl.OBS_NODAL | gl.OBS_EXACT)
