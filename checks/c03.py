"""C03 - interpolation is exact on the function space spanned by the grid's basis."""
import random
import gridlib as gl
import c02


def run(ctx):
    rnd = random.Random(ctx.seed + 303)
    n = 400 if ctx.quick else 2500
    scens = [c02.exact_history(rnd, "y%d" % i, ["global", "global", "sequence", "fourier", "localp", "wavelet"]) for i in range(n)]
    scens += [gl.local3d_history(rnd, "v%d" % i) for i in range(n // 8)]
    gl.run_grid(ctx, [("exact", scens)], gl.OBS_EXACT, "C03")
    ctx.assume("the spec derives the interpolation space from its tensors and TLC requires it to equal getGlobalPolynomialSpace(true); the observer checks every monomial of it (Fourier: every mode; wavelet / local polynomial with boundary points: affine functions) through getInterpolationWeights at 7 probe points (nodes and interior) and, for grids with outputs, through evaluate() after loading nodal values, at 1e-8")


def replay(ctx, path):
    return gl.replay(ctx, path, "C03", gl.OBS_EXACT)
