"""C07 - refinement never loses or mis-associates data and selects what it documents."""
import random
import gridlib as gl
import vf


def scale_history(rnd, label):
    """the documented ways of passing a scale correction: local polynomial grids, several outputs, both overloads,
    all outputs together (-1) and single outputs, classic and parents-first, tolerances placed at several ranks"""
    outs = rnd.choice([1, 2, 2, 3])
    line, info = gl.make_line(rnd, "localp", outs=outs, d=rnd.choice([1, 2, 2, 3]))
    L = ["SCEN " + label, line, "load 1"]
    ep = 1
    for _ in range(rnd.randint(2, 4)):
        out = rnd.choice([-1, -1] + list(range(outs)))
        L.append("surpl %d %d %s %s %d" % (rnd.choice([1, 2, 3, 4, 6]), out, rnd.choice(["classic", "classic", "parents"]),
                                          gl.ivec(gl.rnd_limits(rnd, info["d"], 1, 4, 0.7)), rnd.choice([1, 2])))
        if rnd.random() < 0.8:
            ep += 1
            L.append("load %d" % ep)
    return "\n".join(L) + "\n"


def run(ctx):
    rnd = random.Random(ctx.seed)
    n = 360 if ctx.quick else 6000
    scens = [gl.history(rnd, "h%d" % i, steps=rnd.randint(4, 9), with_construct=False) for i in range(n)]
    scens += [scale_history(rnd, "s%d" % i) for i in range(n // 3)]
    gen = gl.mc_and_scripts(ctx, ['seq', 'localp1', 'localp2', 'wavelet', 'globalleja', 'fourier'], rnd, 150 if ctx.quick else 3000, maxlen=None if ctx.quick else 5, genlen=3 if ctx.quick else 4, mc=True)
    gl.run_grid(ctx, gen + [("hist", scens), ("mixed", gl.mixed_family(rnd, max(40, n // 5)))], gl.OBS_NODAL, "C07")
    ctx.assume("flagged sets are derived by the spec from logged normalised coefficient ratios (observer); tolerances are placed between distinct ratios")


def replay(ctx, path):
    return gl.replay(ctx, path, "C07", gl.OBS_NODAL)
