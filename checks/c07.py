"""C07 - refinement never loses or mis-associates data and selects what it documents."""
import random
import gridlib as gl
import vf


def scale_history(rnd, label):
    """the documented ways of passing a scale correction: local polynomial grids, several outputs, both overloads,
    all outputs together (-1) and single outputs, classic and parents-first, tolerances placed at several ranks"""
    outs = rnd.choice([1, 2, 2, 3])
    line, info = gl.make_line(rnd, "localp", outs=outs, d=rnd.choice([1, 2, 2, 3]))
    L = ["SCEN " + label, line, "load 1"]
    ep = 1
    for _ in range(rnd.randint(2, 4)):
        out = rnd.choice([-1, -1] + list(range(outs)))
        L.append("surpl %d %d %s %s %d" % (rnd.choice([1, 2, 3, 4, 6]), out, rnd.choice(["classic", "classic", "parents"]),
                                          gl.ivec(gl.rnd_limits(rnd, info["d"], 1, 4, 0.7)), rnd.choice([1, 2])))
        if rnd.random() < 0.8:
            ep += 1
            L.append("load %d" % ep)
    return "\n".join(L) + "\n"


def local_rounds(rnd, label):
    """many small refinement rounds on shallow local polynomial / wavelet grids, mostly with level limits in effect (stored at
    make time, passed again, or unrestricted entries only) and with the criteria mixed: hierarchies grow one child at a time, so a
    flagged point may have one child loaded and its sibling not, parents missing, limits reached in one direction only"""
    fam = rnd.choice(["wavelet", "wavelet", "localp", "localp"])
    d = rnd.choice([1, 1, 2, 2, 3])
    depth = rnd.choice([0, 0, 1])
    lim = rnd.choice([[], [rnd.choice([-1, 2, 3, 4]) for _ in range(d)], [rnd.choice([-1, 3, 5]) for _ in range(d)], [-1] * d])
    if fam == "wavelet":
        L = ["SCEN " + label, "make wavelet %d %d %d %d %s" % (d, rnd.choice([1, 2]), depth, rnd.choice([1, 1, 3]) if depth == 0 or d < 3 else 1, gl.ivec(lim))]
    else:
        L = ["SCEN " + label, "make localp %d %d %d %d %s %s" % (d, rnd.choice([1, 2]), depth, rnd.choice([1, 2, 3, 0]), rnd.choice(gl.LOCAL_RULES), gl.ivec(lim))]
    L.append("load 1")
    ep = 1
    for _ in range(rnd.randint(3, 6)):
        crit = rnd.choice(["classic", "classic", "classic", "parents", "fds", "direction", "stable"])
        ll = [] if rnd.random() < 0.7 else [rnd.choice([-1, 2, 3, 4]) for _ in range(d)]
        L.append("surpl %d -1 %s %s 0" % (rnd.choice([1, 1, 2, 2, 3, 5]), crit, gl.ivec(ll)))
        ep += 1
        L.append("load %d" % ep)
    return "\n".join(L) + "\n"


def run(ctx):
    rnd = random.Random(ctx.seed)
    n = 360 if ctx.quick else 1800
    scens = [gl.history(rnd, "h%d" % i, steps=rnd.randint(4, 9), with_construct=False) for i in range(n)]
    scens += [scale_history(rnd, "s%d" % i) for i in range(n // 3)]
    scens += [local_rounds(rnd, "l%d" % i) for i in range(n // 3)]
    gen = gl.mc_and_scripts(ctx, ['seq', 'localp1', 'localp2', 'wavelet', 'globalleja', 'fourier'], rnd, 150 if ctx.quick else 1000, maxlen=None if ctx.quick else 5, genlen=3 if ctx.quick else 4, mc=True)
    gl.run_grid(ctx, gen + [("hist", scens), ("mixed", gl.mixed_family(rnd, max(40, n // 5)))], gl.OBS_NODAL, "C07")
    ctx.assume("flagged sets are derived by the spec from logged normalised coefficient ratios (observer); tolerances are placed between distinct ratios")


def replay(ctx, path):
    return gl.replay(ctx, path, "C07", gl.OBS_NODAL)
