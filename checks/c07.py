"""C07 - refinement never loses or mis-associates data and selects what it documents."""
import random
import gridlib as gl
import vf


def run(ctx):
    rnd = random.Random(ctx.seed)
    n = 240 if ctx.quick else 4000
    scens = [gl.history(rnd, "h%d" % i, steps=rnd.randint(4, 9), with_construct=False) for i in range(n)]
    gl.run_grid(ctx, [("hist", scens)], gl.OBS_NODAL, "C07")
    ctx.assume("flagged sets are derived by the spec from logged normalised coefficient ratios (observer); tolerances are placed between distinct ratios")


def replay(ctx, path):
    return gl.replay(ctx, path, "C07", gl.OBS_NODAL)
