"""C13 - results do not depend on the number of OpenMP threads."""
import json
import os
import random

import gridlib as gl
import vf

OBS_NUM = 128


def omp_region_mc(ctx):
    for cfg, must_fail in (("OmpRegion.cfg", False), ("OmpRegionBroken.cfg", True)):
        r = vf.run_tlc("OmpRegion.tla", cfg, workers=8, timeout=900, xmx="4g")
        vf.tlc_must_pass(r, cfg)
        ctx.add_tlc(r, cfg)
        if must_fail and r.violated != "OrderIndependent":
            raise vf.FrameworkError("the deliberately broken OpenMP idiom (no final sort) is expected to violate OrderIndependent")
        if not must_fail and r.violated:
            ctx.report("spec:OmpRegion:" + r.violated, "the model of the OpenMP idioms violates " + r.violated, {"tlc": r.error_trace[:4000]})


def rel_close(a, b):
    return abs(a - b) <= 1.0e-11 * (abs(a) + abs(b)) + 1.0e-13


def compare(ctx, ref_path, omp_path, nthreads):
    ref, omp = vf.read_ndjson(ref_path), vf.read_ndjson(omp_path)
    if len(ref) != len(omp):
        ctx.report("omp:length:threads=%d" % nthreads, "the OpenMP build produced a different number of events", {"serial": ref_path, "omp": omp_path})
        return 0
    n = 0
    scen = None
    for a, b in zip(ref, omp):
        if a.get("e") == "Reset":
            scen = a.get("scen")
        if a.get("e") in ("Reset", "End"):
            continue
        n += 1
        keys = ["e", "r", "st", "st2"]
        diff = [k for k in keys if a.get(k) != b.get(k)]
        if a.get("cand") != b.get("cand"):
            diff.append("cand")
        oa, ob = a.get("obs", {}), b.get("obs", {})
        na, nb = oa.get("num", []), ob.get("num", [])
        if len(na) != len(nb) or any(not rel_close(float(x), float(y)) for x, y in zip(na, nb)):
            diff.append("num")
        for k in oa:
            if k not in ("num", "grad_fd_worst") and isinstance(oa[k], dict):
                ba = {f: v for f, v in oa[k].items() if isinstance(v, bool)}
                bb = {f: v for f, v in ob.get(k, {}).items() if isinstance(v, bool)}
                if ba != bb:
                    diff.append("obs." + k)
        if diff:
            st = a.get("st", {})
            ctx.report("omp-differs:%s:%s:%s" % (a.get("e"), st.get("fam"), ",".join(diff)),
                       "OMP_NUM_THREADS=%d: event %s of scenario %s differs from the serial build in %s" % (nthreads, a.get("e"), scen, diff),
                       {"serial_trace": ref_path, "omp_trace": omp_path, "scenario": scen, "serial_event": gl.slim(a), "omp_event": gl.slim(b)})
            return n
    return n


def omp_env(t, nproc):
    """OpenMP environment for `nproc` concurrent drivers of `t` threads.  Spinning barriers (ACTIVE) are 30x faster than sleeping
    ones as long as there are no more runnable threads than cores, and hundreds of times slower beyond that; the policy is chosen
    from the load of the machine at launch (the verdict does not depend on it, only the duration)."""
    try:
        # instantaneous number of runnable tasks (the load averages lag behind the check's own previous phase)
        load = max(0, int(open("/proc/loadavg").read().split()[3].split("/")[0]) - 1)
    except (OSError, ValueError, IndexError):
        load = 0
    ncpu = os.cpu_count() or 4
    active = (load + t * nproc) <= ncpu + 3
    return {"OMP_NUM_THREADS": str(t), "OMP_DYNAMIC": "false", "OMP_WAIT_POLICY": "ACTIVE" if active else "PASSIVE", "VERIF_NO_FORK": "1"}


def stress_history(rnd, label):
    """large local polynomial / wavelet grids and direction-selective refinement at mid-range tolerances: the parallel regions
    (buildUpdateMap, surplus update by levels, candidate collection) run long enough for threads to overlap"""
    fam = rnd.choice(["localp", "localp", "localp", "wavelet", "sequence", "global"])
    d = rnd.choice([2, 2, 3])
    L = ["SCEN " + label]
    if fam == "localp":
        depth = {2: rnd.randint(6, 9), 3: rnd.randint(5, 6)}[d]
        L.append("make localp %d %d %d %d %s 0" % (d, rnd.choice([1, 2]), depth, rnd.choice([1, 2, 3]), rnd.choice(["localp", "semi-localp", "localp-zero"])))
        L.append("load 1")
        for k in range(2):
            L.append("surpl %d %d %s 0 0" % (rnd.randint(20, 600), -1, rnd.choice(["fds", "direction", "stable", "fds", "classic", "parents"])))
            L.append("load %d" % (k + 2))
    elif fam == "wavelet":
        L.append("make wavelet %d 1 %d %d 0" % (d, {2: 5, 3: 3}[d], rnd.choice([1, 3])))
        L.append("load 1")
        L.append("surpl %d -1 %s 0 0" % (rnd.randint(10, 100), rnd.choice(["fds", "direction", "classic"])))
        L.append("load 2")
    elif fam == "sequence":
        L.append("make sequence %d 2 %d level %s 0 0" % (d, {2: 24, 3: 10}[d], rnd.choice(["leja", "rleja", "min-lebesgue"])))
        L.append("load 1")
        L.append("surp %d -1 0" % rnd.randint(5, 60))
        L.append("load 2")
        L.append("aniso iptotal 10 0 0")
        L.append("load 3")
    else:
        L.append("make global %d 2 %d level %s 0 0 0 0" % (d, {2: 8, 3: 6}[d], rnd.choice(["clenshaw-curtis", "fejer2", "leja"])))
        L.append("load 1")
        L.append("aniso iptotal 20 0 0")
        L.append("load 2")
    return "\n".join(L) + "\n"


def stress(ctx, rnd):
    """compare-only: recorded executions of the serial build against repeated runs of the OpenMP build"""
    n = 32 if ctx.quick else 64
    reps = 2 if ctx.quick else 4
    scens = [stress_history(rnd, "s%d" % i) for i in range(n)]
    env0 = {"VERIF_MAX_POINTS": "20000", "VERIF_NO_FORK": "1"}
    ref = {}
    gl.run_grid(ctx, [("stress", scens)], OBS_NUM, "C13", variant="hooks", tag="-stress-serial", keep_traces=ref, validate=False, chunk=4, env=env0, timeout=900)
    compared = 0
    for t in ([2, 8, 16] if ctx.quick else [2, 3, 8, 16]):
        for rep in range(reps):
            traces = {}
            env = dict(env0)
            nproc = max(1, 16 // t)
            env.update(omp_env(t, nproc))
            gl.run_grid(ctx, [("stress", scens)], OBS_NUM, "C13", variant="omphooks", env=env, exec_nproc=nproc, tag="-stress-omp%d" % t, keep_traces=traces,
                        validate=False, chunk=4, timeout=1800)
            for k in ref:
                if k in traces:
                    compared += compare(ctx, ref[k], traces[k], t)
    ctx.extra["stress_events_compared"] = compared
    ctx.sample({"kind": "stress scenario (compare only)", "text": scens[0]})


def run(ctx):
    rnd = random.Random(ctx.seed + 1313)
    omp_region_mc(ctx)
    n = 120 if ctx.quick else 500
    scens = [gl.history(rnd, "o%d" % i, steps=rnd.randint(4, 8), with_construct=True, with_transform=True) for i in range(n)]
    mask = gl.OBS_NODAL | OBS_NUM
    ref = {}
    gl.run_grid(ctx, [("omp", scens)], mask, "C13", variant="hooks", tag="-serial", keep_traces=ref)
    threads = [2, 16] if ctx.quick else [1, 2, 8, 16]
    compared = 0
    for t in threads:
        traces = {}
        gl.run_grid(ctx, [("omp", scens)], mask, "C13", variant="omphooks", env=omp_env(t, max(1, 16 // t)), exec_nproc=max(1, 16 // t), timeout=1200,
                    tag="-omp%d" % t, keep_traces=traces, identical_to=ref)
        for k in ref:
            if k in traces:
                compared += compare(ctx, ref[k], traces[k] + ".full" if os.path.exists(traces[k] + ".full") else traces[k], t)
    ctx.extra["events_compared_between_builds"] = compared
    stress(ctx, rnd)
    ctx.extra["thread_counts"] = threads
    ctx.assume("the OpenMP runtime's schedules are not enumerated: the same histories are run in the serial build and in an -fopenmp build at several OMP_NUM_THREADS; every run is validated by TLC against GridTrace.tla (identical discrete behaviour follows from the determinism of the spec) and compared event by event with the serial run (points, orders, values, candidate lists, observer bits exactly; coefficients, weights, batch evaluations and integrals to 1e-11 relative)")
    ctx.assume("OmpRegion.tla model-checks the idioms used in the parallel regions (private buffers + critical append + sort/unique, per-thread maximum + critical merge) for every distribution of iterations and every order of critical sections")


def replay(ctx, path):
    print("C13 replay: re-run ./check C13 with the same VERIF_SEED; the replay file names the scenario and thread count")
    return 0
