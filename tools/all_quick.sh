#!/bin/bash
# run every registered quick check on the current tree; one line per property
cd /verif
for i in $(seq -w 1 20); do
  s=$(date +%s); ./check C$i --tier quick > /tmp/allq_C$i.out 2>&1; rc=$?; e=$(date +%s)
  echo "C$i rc=$rc $((e-s))s known=$(grep -c KNOWN-FINDING /tmp/allq_C$i.out) viol=$(grep -c '^VIOLATION' /tmp/allq_C$i.out)"
done
