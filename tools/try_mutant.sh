#!/bin/bash
# usage: tools/try_mutant.sh <patch.diff> <tier> <check ids...> : apply a seeded change to /repo, run the checks, undo
P=$1; T=$2; shift 2
if [ -n "$(git -C /repo status --short | grep -v '_build/')" ]; then echo "/repo has uncommitted changes: commit them first (the undo step is git checkout -- .)"; exit 2; fi
cd /repo && git apply --check $P || { echo "patch does not apply"; exit 2; }
git -C /repo apply $P
for c in "$@"; do
  ( cd /verif && timeout 3000 ./check $c --tier $T > /tmp/mut_$c.out 2>&1; echo "$c rc=$?"; grep "signature" /tmp/mut_$c.out | sort | uniq -c | head -8; grep "KNOWN-FINDING" /tmp/mut_$c.out | head -3 )
done
git -C /repo checkout -- . ; git -C /repo status --short | grep -v _build | head
