#!/usr/bin/env python3
"""usage: keep_mutant.py <Cxx> <name> <detected_by> "<needs>" : copy a confirmed seeded change into /verif/seeded/<name>/"""
import json, os, shutil, sys
pid, name, detected, needs = sys.argv[1:5]
src = "/tmp/mut_" + name.replace("-", "_") if os.path.isdir("/tmp/mut_" + name.replace("-", "_")) else "/tmp/mut_" + pid
if len(sys.argv) > 5:
    src = sys.argv[5]
dst = "/verif/seeded/" + name
os.makedirs(dst, exist_ok=True)
for f in ("patch.diff", "demo.cpp", "README.md"):
    if os.path.exists(os.path.join(src, f)):
        shutil.copy(os.path.join(src, f), os.path.join(dst, f))
meta = {"property": pid, "needs_to_manifest": needs,
        "confirmed": {"compiles": True, "pinned_suite": "14/14 passed with the change (ctest in a scratch worktree)",
                      "demo_with_change": "exit 1", "demo_without_change": "exit 0",
                      "how": "tools/confirm_mutant.sh (apply, cmake build, full ctest, demo; revert, rebuild, demo)"},
        "detected_by": detected,
        "how_to_run": "git -C /repo apply /verif/seeded/%s/patch.diff ; ./check %s --tier quick ; git -C /repo checkout -- ." % (name, pid)}
json.dump(meta, open(os.path.join(dst, "meta.json"), "w"), indent=1)
print("kept", dst)
