#!/bin/bash
# usage: tools/confirm_mutant.sh <Cxx> [suffix] : confirm a seeded change in its scratch worktree /tmp/wt_<Cxx><suffix>
# (applies, builds, runs the full pinned suite, demo must fail; reverts, rebuilds, demo must pass)
ID=$1; SFX=$2; W=/tmp/wt_$ID$SFX; M=/tmp/mut_$ID$SFX
cd $W || exit 2
git checkout -q -- . ; git apply $M/patch.diff || { echo "apply failed"; exit 2; }
cmake --build _b -j8 > /tmp/confirm_build.log 2>&1 || { echo "BUILD FAILED with change"; tail -5 /tmp/confirm_build.log; git checkout -q -- .; exit 1; }
rm -f _b/Addons/checkpoint* 
ctest --test-dir _b -j8 --timeout 900 > /tmp/confirm_ctest_$ID$SFX.log 2>&1; tail -3 /tmp/confirm_ctest_$ID$SFX.log | head -2
CFG=$(dirname $(find _b -name TasmanianConfig.hpp | head -1))
g++ -std=c++11 -O1 -I$W/SparseGrids -I$CFG -I$W/InterfaceTPL -I$W/DREAM -I$W/DREAM/Optimization -I$W/Addons $M/demo.cpp -L$W/_b/SparseGrids -L$W/_b/DREAM -ltasmaniandream -ltasmaniansparsegrid -lpthread -Wl,-rpath,$W/_b/SparseGrids -Wl,-rpath,$W/_b/DREAM -o /tmp/demo_$ID$SFX 2>/tmp/confirm_demo_build.log || { echo "demo build failed"; head -5 /tmp/confirm_demo_build.log; }
timeout 300 /tmp/demo_$ID$SFX > /tmp/demo_with_$ID$SFX.txt 2>&1; echo "demo WITH change: exit $?"
git checkout -q -- .
cmake --build _b -j8 > /tmp/confirm_build.log 2>&1
timeout 300 /tmp/demo_$ID$SFX > /tmp/demo_without_$ID$SFX.txt 2>&1; echo "demo WITHOUT change: exit $?"
git status --short | grep -v "_b/" | head -3
