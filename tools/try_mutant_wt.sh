#!/bin/bash
# usage: tools/try_mutant_wt.sh <worktree> <patch.diff> <tier> <check ids...>
# runs the checks against a scratch worktree with the seeded change applied (separate build root, evidence and replay directories),
# so that /repo and /verif/evidence stay untouched and registered checks can run at the same time
W=$1; P=$2; T=$3; shift 3
cd $W || exit 2
git checkout -q -- . ; git apply $P || { echo "patch does not apply"; exit 2; }
export VERIF_REPO=$W VERIF_BUILD_ROOT=/tmp/mutbuild_$(basename $W) VERIF_OUT=/tmp/mutout_$(basename $W)
mkdir -p $VERIF_BUILD_ROOT $VERIF_OUT
for c in "$@"; do
  ( cd /verif && timeout 5000 ./check $c --tier $T > /tmp/mutwt_$(basename $W)_$c.out 2>&1; echo "$c rc=$?"; grep "signature" /tmp/mutwt_$(basename $W)_$c.out | sort | uniq -c | head -8; grep -c "KNOWN-FINDING" /tmp/mutwt_$(basename $W)_$c.out )
done
git checkout -q -- .
rm -rf $VERIF_BUILD_ROOT $VERIF_OUT
