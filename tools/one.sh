#!/bin/bash
# usage: tools/one.sh <scenario file> <label> [obs_mask]   -- re-run one scenario and show the TLC verdict
set -e
F=$1; LBL=$2; M=${3:-1}
W=/verif/build/work/one; mkdir -p $W
awk -v l="SCEN $LBL" '$0==l{p=1;print;next} /^SCEN /{p=0} p{print}' $F > $W/one.scen
cat $W/one.scen
D=$(cd /verif && python3 -c "import sys; sys.path.insert(0,'lib'); import vf; print(vf.compile_driver('grid_replay.cpp', vf.build_lib('hooks')))" | tail -1)
(cd $W && $D one.scen one.ndjson $M .)
cd /verif/spec && TRACE=$W/one.ndjson timeout 900 java -cp /opt/veriftools/tla/tla2tools.jar:/opt/veriftools/tla/CommunityModules-deps.jar tlc2.TLC -workers 1 -metadir $W/meta -noGenerateSpecTE -config GridTrace.cfg GridTrace.tla 2>&1 | grep -A3 "REJECTED\|FAIL\|^Error\|states generated" | head -20
