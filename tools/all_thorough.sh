#!/bin/bash
# usage: all_thorough.sh <log> <ids...> : run the thorough tier of the listed checks one after the other
LOG=$1; shift
cd /verif
for i in "$@"; do
  s=$(date +%s); timeout 9000 ./check $i --tier thorough > /tmp/allt_$i.out 2>&1; rc=$?; e=$(date +%s)
  echo "$i rc=$rc $((e-s))s known=$(grep -c KNOWN-FINDING /tmp/allt_$i.out) viol=$(grep -c '^VIOLATION' /tmp/allt_$i.out)" >> $LOG
done
